"""Run every check against behaviour-preserving refactorings (/verif/twins/<name>/patch.diff).
A VIOLATION on a twin is a false alarm; an ANALYSIS-ERROR means "cannot decide" (exit 2).
Scratch clones live under /dev/shm and are removed.  Usage: twincheck.py [--tests] [names...]"""
import json, os, shutil, subprocess, sys, tempfile
from concurrent.futures import ProcessPoolExecutor

VERIF = os.path.dirname(os.path.dirname(os.path.abspath(__file__)))
PY = '/venv/bin/python'


def sh(cmd, cwd=None, env=None, timeout=900):
    e = dict(os.environ)
    e.update(env or {})
    r = subprocess.run(cmd, cwd=cwd, env=e, capture_output=True, text=True, timeout=timeout)
    return r.returncode, r.stdout + r.stderr


def one(args):
    name, tests = args
    d = os.path.join(VERIF, 'twins', name)
    tmp = tempfile.mkdtemp(prefix='twin_', dir='/dev/shm')
    out = {'name': name}
    try:
        wt = os.path.join(tmp, 'repo')
        sh(['git', 'clone', '-q', '/repo', wt])
        rc, o = sh(['git', 'apply', os.path.join(d, 'patch.diff')], cwd=wt)
        if rc:
            rc, o = sh(['git', 'apply', '-3', os.path.join(d, 'patch.diff')], cwd=wt)
        if rc:
            out['error'] = 'patch does not apply'
            return out
        if tests:
            rc, o = sh([PY, '-m', 'pytest', '-q', '-p', 'no:cacheprovider', '-x', 'tests'], cwd=wt, env={'PYTHONPATH': wt})
            out['tests'] = rc
        rc, o = sh([PY, '-m', 'emsa.run', '--all', '--repo', wt], cwd=VERIF, env={'EMSA_NO_EVIDENCE': '1'})
        lines = o.splitlines()
        out['violations'] = sorted({l.split()[1].split('=')[1] for l in lines if l.startswith('VIOLATION')})
        out['errors'] = sorted({l.split()[1].split('=')[1] + ':' + (l.split('rule=')[1].split()[0] if 'rule=' in l else '?') for l in lines if l.startswith('ANALYSIS-ERROR')})
        out['rules'] = sorted({l.split('  ')[1].strip() for l in lines if l.startswith('emmet/') and '  ' in l})
        out['detail'] = [l for l in lines if l.startswith('emmet/')][:6]
        return out
    finally:
        shutil.rmtree(tmp, ignore_errors=True)


def main():
    tests = '--tests' in sys.argv
    names = [a for a in sys.argv[1:] if not a.startswith('--')]
    if not names:
        names = sorted(os.listdir(os.path.join(VERIF, 'twins')))
    names = [n for n in names if os.path.exists(os.path.join(VERIF, 'twins', n, 'patch.diff'))]
    with ProcessPoolExecutor(14) as ex:
        results = list(ex.map(one, [(n, tests) for n in names]))
    fa = 0
    for r in results:
        if r.get('violations'):
            fa += 1
            st = 'FALSE-ALARM'
        elif r.get('errors'):
            st = 'cannot-decide'
        elif r.get('error'):
            st = 'skipped'
        else:
            st = 'silent'
        print('%-14s %-10s rules=%s errors=%s %s %s' % (st, r['name'], ','.join(r.get('rules', [])), ','.join(r.get('errors', [])),
                                                      ('tests=%s' % r.get('tests')) if tests else '', r.get('error', '')))
        for l in r.get('detail', []) if r.get('violations') else []:
            print('      ' + l[:220])
    print('%d twins, %d false alarms' % (len(results), fa))
    json.dump(results, open('/tmp/twincheck.json', 'w'), indent=1)
    if '--record' in sys.argv:
        for r in results:
            if r.get('error'):
                continue
            st = 'reported' if r.get('violations') else ('cannot-decide' if r.get('errors') else 'silent')
            json.dump({'status': st, 'rules': r.get('rules', []), 'errors': r.get('errors', [])}, open(os.path.join(VERIF, 'twins', r['name'], 'expect.json'), 'w'), indent=1)


if __name__ == '__main__':
    main()
