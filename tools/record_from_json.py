"""write seeded/*/expect.json and twins/*/expect.json from the result files of tools/seedcheck.py (/tmp/seedcheck.json) and
tools/twincheck.py (/tmp/twincheck.json) -- the same records `--record` writes, for sweeps that ran from a snapshot"""
import json, os, sys
VERIF = os.path.dirname(os.path.dirname(os.path.abspath(__file__)))
sp = sys.argv[1] if len(sys.argv) > 1 else '/tmp/seedcheck.json'
tp = sys.argv[2] if len(sys.argv) > 2 else '/tmp/twincheck.json'
n = 0
if os.path.exists(sp):
    for r in json.load(open(sp)):
        if r.get('error') or not os.path.isdir(os.path.join(VERIF, 'seeded', r['name'])):
            continue
        own = r.get('property') in r.get('violations', [])
        st = 'reported' if own else ('cannot-decide' if r.get('property') in r.get('analysis_errors', []) else 'silent')
        json.dump({'status': st, 'own_property': r.get('property'), 'reported_by_properties': r.get('violations', []), 'rules': r.get('rules', [])},
                  open(os.path.join(VERIF, 'seeded', r['name'], 'expect.json'), 'w'), indent=1)
        n += 1
if os.path.exists(tp):
    for r in json.load(open(tp)):
        if r.get('error') or not os.path.isdir(os.path.join(VERIF, 'twins', r['name'])):
            continue
        st = 'reported' if r.get('violations') else ('cannot-decide' if r.get('errors') else 'silent')
        json.dump({'status': st, 'rules': r.get('rules', []), 'errors': r.get('errors', [])}, open(os.path.join(VERIF, 'twins', r['name'], 'expect.json'), 'w'), indent=1)
        n += 1
print('recorded', n)
