"""Fill the generated sections of DESIGN.md (catch matrix from seeded/*/expect.json and twins/*/expect.json, rule list from the registry)."""
import json, os, re, sys
VERIF = os.path.dirname(os.path.dirname(os.path.abspath(__file__)))
sys.path.insert(0, VERIF)
from emsa import rules, props
rules.load_all()


def matrix():
    out = []
    sd = os.path.join(VERIF, 'seeded')
    rows = {}
    for name in sorted(os.listdir(sd)):
        ep, mp = os.path.join(sd, name, 'expect.json'), os.path.join(sd, name, 'meta.json')
        if not os.path.exists(mp):
            continue
        meta = json.load(open(mp))
        exp = json.load(open(ep)) if os.path.exists(ep) else {}
        rows.setdefault(meta.get('property', '?'), []).append((name, meta, exp))
    tot = own = 0
    out.append('| property | seeded change | what it breaks (from its meta.json) | own check | reported by rules | also reported under |')
    out.append('|---|---|---|---|---|---|')
    for pid in sorted(rows):
        for name, meta, exp in rows[pid]:
            st = exp.get('status', 'not applicable to the current tree')
            tot += 1
            own += 1 if st == 'reported' else 0
            summ = (meta.get('summary') or meta.get('what') or '').replace('|', '/').replace('\n', ' ')
            summ = summ[:150] + ('…' if len(summ) > 150 else '')
            others = [x for x in exp.get('reported_by_properties', []) if x != pid]
            out.append('| %s | %s | %s | %s | %s | %s |' % (pid, name, summ, {'reported': '**reported**', 'silent': 'not reported', 'cannot-decide': 'exit 2'}.get(st, st),
                                                       ' '.join(exp.get('rules', [])) or '–', ' '.join(others) or '–'))
    out.append('')
    out.append('%d of %d seeded changes are reported by the check of their own property.' % (own, tot))
    td = os.path.join(VERIF, 'twins')
    cnt = {'silent': 0, 'reported': 0, 'cannot-decide': 0, 'n/a': 0}
    bad = []
    for name in sorted(os.listdir(td)):
        ep = os.path.join(td, name, 'expect.json')
        if not os.path.exists(ep):
            cnt['n/a'] += 1
            continue
        e = json.load(open(ep))
        cnt[e['status']] = cnt.get(e['status'], 0) + 1
        if e['status'] != 'silent':
            bad.append('%s (%s: %s)' % (name, e['status'], ' '.join(e.get('rules', []) + e.get('errors', []))))
    out.append('')
    out.append('Behaviour-preserving refactorings: %d silent, %d reported (false alarms), %d exit 2 (cannot decide), %d whose patch does not apply to the current tree.'
               % (cnt['silent'], cnt['reported'], cnt['cannot-decide'], cnt['n/a']))
    if bad:
        out.append('Not silent: ' + '; '.join(bad) + '.')
    return '\n'.join(out)


def rule_list():
    used = {}
    for pid, spec in sorted(props.PROPERTIES.items()):
        for e in spec['rules']:
            used.setdefault(e[0] if isinstance(e, (tuple, list)) else e, []).append(pid)
    out = ['| rule | class | statement | properties |', '|---|---|---|---|']
    for name, (fn, cl, text) in sorted(rules.REGISTRY.items()):
        out.append('| %s | %s | %s | %s |' % (name, cl, text.replace('|', '/'), ' '.join(used.get(name, []))))
    return '\n'.join(out)


def main():
    p = os.path.join(VERIF, 'DESIGN.md')
    s = open(p).read()
    for key, fn in (('matrix', matrix), ('rules', rule_list)):
        s = re.sub(r'(<!-- BEGIN GENERATED: %s -->).*?(<!-- END GENERATED: %s -->)' % (key, key), lambda m: m.group(1) + '\n' + fn() + '\n' + m.group(2), s, flags=re.S)
    open(p, 'w').write(s)


if __name__ == '__main__':
    main()
