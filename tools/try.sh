#!/bin/sh
# usage: tools/try.sh [twins/|seeded/]<name> [property ...]   -- apply the patch to a scratch clone and run the checks
n=$1; shift
case $n in
  twins/*|seeded/*) p=/verif/$n/patch.diff; n=$(basename $n);;
  *) p=/verif/twins/$n/patch.diff; [ -f $p ] || p=/verif/seeded/$n/patch.diff;;
esac
d=/dev/shm/dbg_$n
rm -rf $d; git clone -q /repo $d
git -C $d apply $p 2>/dev/null || git -C $d apply -3 $p || { echo "patch does not apply"; exit 3; }
cd /verif
if [ $# -eq 0 ]; then EMSA_NO_EVIDENCE=1 /venv/bin/python -m emsa.run --all --repo $d | grep -v "^C[0-9][0-9] quick\|KNOWN-FINDING"; else
for P in "$@"; do EMSA_NO_EVIDENCE=1 /venv/bin/python -m emsa.run --property $P --repo $d | grep -v "KNOWN-FINDING"; done; fi
[ -n "$KEEP" ] || rm -rf $d
