"""Validate seeded changes and run the checks against them.

For each /verif/seeded/<name>/ (patch.diff, demo.py, meta.json): make a scratch
copy of /repo's HEAD outside /repo and /verif, check the demo passes there,
apply the patch, check the repository's suite still passes and the demo fails,
then run every property check against the patched copy (emsa.run --repo).
Scratch copies are removed.  Usage: seedcheck.py [--validate] [names...]
"""
import json, os, shutil, subprocess, sys, tempfile
from concurrent.futures import ProcessPoolExecutor

VERIF = os.path.dirname(os.path.dirname(os.path.abspath(__file__)))
PY = '/venv/bin/python'


def sh(cmd, cwd=None, env=None, timeout=600):
    e = dict(os.environ)
    e.update(env or {})
    r = subprocess.run(cmd, cwd=cwd, env=e, capture_output=True, text=True, timeout=timeout, shell=isinstance(cmd, str))
    return r.returncode, r.stdout + r.stderr


def one(args):
    name, validate = args
    d = os.path.join(VERIF, 'seeded', name)
    meta = json.load(open(os.path.join(d, 'meta.json')))
    tmp = tempfile.mkdtemp(prefix='seed_', dir='/dev/shm')
    out = {'name': name, 'property': meta.get('property')}
    try:
        wt = os.path.join(tmp, 'repo')
        rc, o = sh(['git', 'clone', '-q', '/repo', wt])
        if rc:
            out['error'] = 'clone failed'
            return out
        env = {'PYTHONPATH': wt}
        if validate:
            rc, o = sh([PY, os.path.join(d, 'demo.py')], cwd=tmp, env=env)
            out['demo_before'] = rc
        rc, o = sh(['git', 'apply', os.path.join(d, 'patch.diff')], cwd=wt)
        if rc:
            rc, o = sh(['git', 'apply', '-3', os.path.join(d, 'patch.diff')], cwd=wt)
        if rc:
            out['error'] = 'patch does not apply: ' + o[-300:]
            return out
        if validate:
            rc, o = sh([PY, '-m', 'pytest', '-q', '-p', 'no:cacheprovider', '-x', 'tests'], cwd=wt, env=env)
            out['tests'] = rc
            rc, o = sh([PY, os.path.join(d, 'demo.py')], cwd=tmp, env=env)
            out['demo_after'] = rc
        rc, o = sh([PY, '-m', 'emsa.run', '--all', '--repo', wt], cwd=VERIF, env={'EMSA_NO_EVIDENCE': '1'})
        viol = sorted({l.split()[1].split('=')[1] for l in o.splitlines() if l.startswith('VIOLATION')})
        errs = sorted({l.split()[1].split('=')[1] for l in o.splitlines() if l.startswith('ANALYSIS-ERROR')})
        rules = sorted({l.split('  ')[1].strip() for l in o.splitlines() if l.startswith('emmet/') and '  ' in l})
        out['violations'] = viol
        out['analysis_errors'] = errs
        out['rules'] = rules
        return out
    finally:
        shutil.rmtree(tmp, ignore_errors=True)


def main():
    validate = '--validate' in sys.argv
    names = [a for a in sys.argv[1:] if not a.startswith('--')]
    if not names:
        names = sorted(os.listdir(os.path.join(VERIF, 'seeded')))
    names = [n for n in names if os.path.exists(os.path.join(VERIF, 'seeded', n, 'patch.diff'))]
    with ProcessPoolExecutor(14) as ex:
        results = list(ex.map(one, [(n, validate) for n in names]))
    caught = 0
    for r in results:
        own = r.get('property') in r.get('violations', [])
        any_ = bool(r.get('violations'))
        caught += 1 if own else 0
        status = 'CAUGHT ' if own else ('other  ' if any_ else ('ERR2   ' if r.get('analysis_errors') else 'MISSED '))
        extra = ''
        if validate:
            extra = ' [demo_before=%s tests=%s demo_after=%s]' % (r.get('demo_before'), r.get('tests'), r.get('demo_after'))
        print('%s %-10s %s viol=%s err=%s rules=%s%s %s' % (status, r['name'], r.get('property'), ','.join(r.get('violations', [])),
                                                         ','.join(r.get('analysis_errors', [])), ','.join(r.get('rules', [])), extra, r.get('error', '')))
    print('%d/%d caught by the check of their own property' % (caught, len(results)))
    json.dump(results, open('/tmp/seedcheck.json', 'w'), indent=1)
    if '--record' in sys.argv:
        for r in results:
            if r.get('error'):
                continue
            own = r.get('property') in r.get('violations', [])
            st = 'reported' if own else ('cannot-decide' if r.get('property') in r.get('analysis_errors', []) else 'silent')
            json.dump({'status': st, 'own_property': r.get('property'), 'reported_by_properties': r.get('violations', []), 'rules': r.get('rules', [])},
                      open(os.path.join(VERIF, 'seeded', r['name'], 'expect.json'), 'w'), indent=1)


if __name__ == '__main__':
    main()
