"""SCN-* : scanner (cursor) discipline."""
import ast

from . import rule
from ..core import AnalysisError, src_of, Class, Func
from ..report import Finding
from .. import callgraph
from ..cursor import CursorAnalysis, CURSOR_CLASSES, T, NONE, FNN, UNK
from ..pattern import find_stmt, find_expr, match_stmt

_AN = {}

CURSOR_METHOD_OWNERS = set(CURSOR_CLASSES)


def analysis(p):
    an = _AN.get(id(p))
    if an is None:
        an = CursorAnalysis(p)
        cg = callgraph.get(p)
        funcs = []
        for f in sorted(p.funcs.values(), key=lambda x: x.qualname):
            if f.cls is not None and f.cls.qualname in CURSOR_METHOD_OWNERS:
                continue          # the cursor classes themselves are checked structurally (SCN-CORE)
            uses = bool(an.cursor_params(f)) or any(an.cursor_class_of(f, n) for n in f.locals)
            if not uses:
                continue
            funcs.append(f)
        # roots: not called with a cursor by another analysed function
        roots = []
        for f in funcs:
            if not an.cursor_params(f):
                roots.append(f)
                continue
            callers = [c for c, _ in cg.callers_of(f) if c in funcs and c is not f]
            if not callers:
                roots.append(f)
        an.rounds = an.analyse_all(roots)
        an.funcs = funcs
        an.roots = roots
        _AN[id(p)] = an
    return an


def F(rule_name, f, node, construct, message, **kw):
    return Finding(rule_name, f.module.relpath, f.short, construct, message, getattr(node, 'lineno', 0), **kw)


def _emit(p, res, rname, prefixes=None):
    an = analysis(p)
    for (r, q, construct), it in sorted(an.report.items.items(), key=lambda kv: (kv[0][1], kv[0][2])):
        if r != rname:
            continue
        f = it['func']
        if it.get('undecided'):
            res.undecided('%s: %s' % (q[6:], construct), 'not decided (%s): %s' % (it['undecided'], it['message']))
            continue
        res.bad(F(rname, f, it['node'], construct, it['message'], details=['path : ' + it['trace']] if it['trace'] else []))
    for (q, construct) in sorted(an.report.checked.get(rname, ())):
        bad = (rname, q, construct) in an.report.items
        if not bad:
            res.ok('%s: %s' % (q[6:], construct))
    res.stats['functions_analysed'] = len(an.analysed)
    res.stats['summary_contexts'] = len(an.memo)
    res.stats['fixpoint_rounds'] = an.rounds
    res.stats['roots'] = len(an.roots)


@rule('SCN-OVER', 'D', 'a cursor that may have stepped outside its bounds is never read into a value (range end, token span, error position)')
def scn_over(p, res):
    _emit(p, res, 'SCN-OVER')
    an = analysis(p)
    res.stats['raw_step_sites'] = len(an.report.checked.get('SCN-STEP', ()))
    res.assumptions.append('backward scanners are created with start <= pos (extract_abbreviation: get_start_offset returns a position <= pos)')
    res.assumptions.append('for-loop variables over strings are never the empty sentinel')
    res.require_floor(60)


@rule('SCN-PROGRESS', 'D', 'every loop bounded by a cursor test moves the cursor towards the bound on every path to its back edge')
def scn_progress(p, res):
    an = analysis(p)
    for (r, q, construct), it in sorted(an.report.items.items(), key=lambda kv: (kv[0][1], kv[0][2])):
        if r != 'SCN-PROGRESS':
            continue
        if it.get('undecided'):
            res.undecided('%s: %s' % (q[6:], construct), 'progress on a path to the back edge is not decided: the displacement is not known to the cursor domain (callback, method handed over as a value, computed move) or a callee reports success without having moved (possibly an infeasible combination of its summary)')
            continue
        res.bad(F('SCN-PROGRESS', it['func'], it['node'], construct, it['message'], details=['path : ' + it['trace']]))
    n = 0
    for (q, lid), info in sorted(an.loops.items()):
        if ('SCN-PROGRESS', q, 'while %s' % src_of(info['node'].test)) in an.report.items:
            continue
        n += 1
        res.ok('%s: while %s (%s, %d back-edge states)' % (q[6:], src_of(info['node'].test), info['dir'], info['ok']))
    res.stats['loops'] = len(an.loops)
    res.require_floor(38)


@rule('SCN-ESCAPE', 'N', 'a scanning loop that consumes an escape character also consumes the character after it before it looks at the input again')
def scn_escape(p, res):
    an = analysis(p)
    for (r, q, construct), it in sorted(an.report.items.items(), key=lambda kv: (kv[0][1], kv[0][2])):
        if r == 'SCN-ESCAPE':
            res.bad(F('SCN-ESCAPE', it['func'], it['node'], construct, it['message'], details=['path : ' + it['trace']] if it['trace'] else []))
    bad_funcs = {q for (r, q, _) in an.report.items if r == 'SCN-ESCAPE'}
    for q, ln in sorted(an.esc_sites):
        if q not in bad_funcs:
            res.ok('%s: escape character consumed at line %d, the next character is consumed on every path to the next look at the input' % (q[6:], ln))
    res.stats['escape_sites'] = len(an.esc_sites)
    res.require_floor(2)


@rule('SCN-BLIND', 'N', 'no scanning loop starts an iteration by stepping over a character it has not looked at')
def scn_blind(p, res):
    _emit(p, res, 'SCN-BLIND')
    res.require_floor(10)


@rule('SCN-SKIP', 'N', 'a scanning loop never consumes a character and then skips the next one unexamined in the same iteration')
def scn_skip(p, res):
    _emit(p, res, 'SCN-SKIP')
    res.require_floor(12)


REST_EXEMPT = {
    'emmet.markup.format.template.consume_placeholder':
        'returns None with the cursor at the end of an unclosed "["; its only caller then leaves its loop and slices by offset',
    'emmet.html_matcher.scan.skip_attributes': 'result unused; skips to the tag terminator',
}


# Functions for which the restore-on-failure convention was confirmed on the reviewed tree (their callers re-scan or read the
# position after a falsy result).  A function outside this table that returns falsy with the cursor moved is reported as
# undecided, not as a violation: whether its callers rely on the convention is not known (e.g. a helper extracted from a
# loop that legitimately runs to the end of the input).
REST_CONFIRMED = {
    'abbreviation.tokenizer.bracket', 'abbreviation.tokenizer.field', 'abbreviation.tokenizer.literal', 'abbreviation.tokenizer.operator',
    'abbreviation.tokenizer.quote', 'abbreviation.tokenizer.repeater', 'abbreviation.tokenizer.repeater_number', 'abbreviation.tokenizer.repeater_placeholder',
    'abbreviation.tokenizer.utils.escaped', 'abbreviation.tokenizer.white_space', 'css_abbreviation.tokenizer.bracket', 'css_abbreviation.tokenizer.color_alpha',
    'css_abbreviation.tokenizer.color_value', 'css_abbreviation.tokenizer.consume_number', 'css_abbreviation.tokenizer.custom_property',
    'css_abbreviation.tokenizer.field', 'css_abbreviation.tokenizer.literal', 'css_abbreviation.tokenizer.number_value', 'css_abbreviation.tokenizer.operator',
    'css_abbreviation.tokenizer.string_value', 'css_abbreviation.tokenizer.white_space', 'css_matcher.parse.is_minus_operator', 'css_matcher.scan.comment',
    'css_matcher.scan.is_known_selector_colon', 'css_matcher.scan.literal', 'css_matcher.scan.whitespace', 'extract_abbreviation.consume_list',
    'extract_abbreviation.consume_pair', 'extract_abbreviation.is_html.consume_attribute', 'extract_abbreviation.is_html.consume_attribute_with_quoted_value',
    'extract_abbreviation.is_html.consume_attribute_with_unquoted_value', 'extract_abbreviation.is_html.consume_ident', 'extract_abbreviation.is_html.consume_quoted',
    'extract_abbreviation.is_html.is_html', 'html_matcher.attributes.attribute_name', 'html_matcher.attributes.attribute_value', 'html_matcher.attributes.unquoted',
    'html_matcher.scan.cdata', 'html_matcher.scan.comment', 'html_matcher.scan.consume_closing', 'html_matcher.scan.processing_instruction',
    'html_matcher.utils.consume_array', 'html_matcher.utils.consume_paired', 'html_matcher.utils.consume_section', 'html_matcher.utils.ident',
    'math_expression.extract.number', 'math_expression.parser.consume_number', 'scanner_utils.eat_pair', 'scanner_utils.eat_quoted',
}


def _result_tested(p, f):
    """is the return value of f truth-tested at some call site?"""
    for caller, call in callgraph.get(p).callers_of(f):
        par = p.parents(caller).get(call)
        if isinstance(par, ast.Expr):
            continue
        return True
    return False


@rule('SCN-REST', 'D', 'a consumer that reports failure leaves the cursor where it found it')
def scn_rest(p, res):
    an = analysis(p)
    by_func = {}
    for (q, cname, ctx), outs in an.memo.items():
        by_func.setdefault(q, []).append((ctx, outs))
    for q in sorted(by_func):
        f = p.funcs[q]
        if not _result_tested(p, f):
            continue
        cps = an.cursor_params(f)
        if cps and cps[0][2] == 'emmet.token_scanner.TokenScanner':
            continue      # token-level parsers may consume whitespace before giving up; C18/C16 concern character cursors
        if q in REST_EXEMPT:
            res.notes.append('%s exempt: %s' % (q[6:], REST_EXEMPT[q]))
            continue
        bad = None
        n = 0
        for ctx, outs in by_func[q]:
            for o in outs:
                if o.kind in (NONE, FNN):
                    n += 1
                    if o.d != 'Z':
                        bad = (ctx, o)
        if bad and bad[1].d == 'U' and not any(o.kind in (NONE, FNN) and o.d in ('P', 'N', 'NN', 'NP') for ctx, outs in by_func[q] for o in outs):
            ctx, o = bad
            res.undecided('falsy return of %s with the cursor at an unknown displacement' % f.short,
                          'the cursor is positioned by code the cursor domain cannot follow (a table of consumers, a computed position)')
        elif bad and f.short not in REST_CONFIRMED:
            ctx, o = bad
            res.undecided('falsy return of %s with the cursor moved (displacement %s)' % (f.short, o.d),
                          'not one of the consumers whose callers were confirmed to rely on restore-on-failure')
        elif bad:
            ctx, o = bad
            res.bad(F('SCN-REST', f, f.node, 'falsy return of %s' % f.name,
                      'a path returns a falsy value with the cursor moved (displacement %s): the caller treats the input as not consumed and re-scans or mis-attributes it' % o.d,
                      details=['path : ' + o.trace]))
        elif n:
            res.ok('%s: %d falsy outcomes, all at the entry position' % (f.short, n))
    res.require_floor(28)


# ----------------------------------------------------------------- SCN-CORE
SCN_CORE_MSG = {
    'eof': 'eof() must be pos >= end', 'peek': "look-ahead must return the empty sentinel at and beyond the bound", 'next': 'next() must not step beyond the end',
    'eat': 'eat() steps exactly when the peeked character matches', 'eat_while': 'eat_while() must test the bound before every step',
    'back_up': 'back_up(n) moves the cursor back by n', 'current': 'current() is string[start:pos]', 'substring': 'substring(start, end) is string[start:end], end defaulting to the scanner end',
    'error': 'the exception carries the unmodified 0-based position (only the message is 1-based) and the source', '__init__': 'construction of the cursor',
    'readable': 'readable() is pos < size', 'consume': 'consume() steps only over an existing element that passes the test, after the bound test',
    'consume_while': 'consume_while() repeats consume() and reports whether the cursor moved', 'slice': 'slice() defaults to start..pos',
    'sol': 'sol() is pos == start', 'previous': 'previous() must not step before the left bound', 'prev': "prev() returns '' at position 0", 'cur': "cur() returns '' at the end",
}


@rule('SCN-CORE', 'D', 'the cursor classes themselves: every step is behind the class bound test, look-ahead returns the empty sentinel out of range')
def scn_core(p, res):
    """Each method of the cursor classes is summarised symbolically (all paths; locals substituted; effects in order) and the
    summary is compared, case by case, with the reviewed decision table in scn_spec.py.  A refactoring that keeps the
    decision table (other locals, if/else vs conditional expression, guard clauses, a differently spelled comparison or
    string) is not reported; a method whose table differs in a recognised way is; anything else is reported undecided."""
    from .. import dtable
    from .scn_spec import SPEC
    for fq, rows in SPEC.items():
        f = p.func(fq)
        status, det = dtable.check(p, f, rows, inline=True, select=dtable.same_class_getter)
        name = fq.rsplit('.', 1)[1]
        if status == 'ok':
            res.ok('%s: %d case(s) agree with the reviewed table' % (fq, det))
        elif status == 'unknown':
            res.undecided('%s: %s' % (fq, det), SCN_CORE_MSG.get(name, 'cursor method'))
        else:
            from .tablecheck import _judge
            for a, want, c in det[:2]:
                have = c.outcome()
                kind, why = _judge(want, have)
                if kind == 'bad':
                    res.bad(F('SCN-CORE', f, f.node, '%s  [%s]' % (have, c.cond_str()), SCN_CORE_MSG.get(name, 'cursor method') + '; ' + why + '; reviewed behaviour for this case: ' + want))
                else:
                    res.undecided('%s [%s]: %s' % (fq, c.cond_str(), have), why + ': ' + want)
    # who may write .pos of a cursor: census
    writers = {}
    for f in p.funcs.values():
        for n in f.body_nodes():
            if isinstance(n, (ast.Assign, ast.AugAssign)):
                for t in (n.targets if isinstance(n, ast.Assign) else [n.target]):
                    for x in ast.walk(t):
                        if isinstance(x, ast.Attribute) and x.attr == 'pos' and isinstance(x.ctx, ast.Store):
                            writers.setdefault(f.module.name, 0)
                            writers[f.module.name] += 1
    res.stats['pos_store_sites_by_module'] = writers
    res.require_floor(26)


# ----------------------------------------------------------------- SCN-SPAN
def token_classes(p):
    out = {}
    for mq in ('abbreviation.tokenizer.tokens', 'css_abbreviation.tokenizer.tokens'):
        base = p.cls(mq + '.Token')
        for c in p.subclasses(base):
            out[c.qualname] = c
    return out


@rule('SCN-SPAN', 'D', 'every token built by a tokenizer carries both span ends: start saved before consuming, end = current cursor, cursor advanced')
def scn_span(p, res):
    _emit(p, res, 'SCN-SPAN')
    # merge_tokens: tokens are popped from the end of the list; the merged literal spans from the start of the last popped
    # token (= the first merged one) to the end of the first popped token (= the last merged one).  Decided on the symbolic
    # summary of one generic iteration with both accumulators symbolic.
    from .. import sympath, norm, shape
    mt = p.func('css_abbreviation.tokenizer.merge_tokens')
    mn = norm.nf(p, mt, inline=True)
    body = [st for st in mn.body if not (isinstance(st, ast.Expr) and isinstance(st.value, ast.Constant))]
    li = [i for i, st in enumerate(body) if isinstance(st, ast.While)]
    LST = mt.params[1]
    if len(li) != 1:
        res.undecided('merge_tokens', 'one loop over the token list expected')
    else:
        lp = body[li[0]]
        try:
            pre = sympath.feasible(sympath.block_summaries(p, mt, body[:li[0]]))
            carried = sorted({n.id for n in ast.walk(ast.Module(body=lp.body, type_ignores=[])) if isinstance(n, ast.Name) and isinstance(n.ctx, ast.Store)})
            env0 = dict(pre[0].env) if len(pre) == 1 else {}
            env = dict(env0)
            for c in carried:
                env[c] = ast.Name(id='_acc_' + c, ctx=ast.Load())
            its = sympath.feasible(sympath.block_summaries(p, mt, lp.body, env=env))
            penv = dict(env0)
            for c in carried:
                penv[c] = ast.Name(id='_fin_' + c, ctx=ast.Load())
            post = sympath.feasible(sympath.block_summaries(p, mt, body[li[0] + 1:], env=penv))
        except sympath.Unsupported as e:
            its = post = []
            env0 = {}
            res.undecided('merge_tokens', str(e))
        TOK = '%s[-1]' % LST
        S = E = None
        verdicts = []
        for q in its:
            rc = q.rconds()
            pops = [n for _, n, _ in q.calls('pop') if src_of(n.func.value) == LST]
            mergeable = any(k.startswith('isinstance(%s' % TOK) and v for k, v in rc.items())
            notmerge = all((not v) for k, v in rc.items() if k.startswith('isinstance(%s' % TOK)) and any(k.startswith('isinstance(%s' % TOK) for k in rc)
            where = ['iteration path: ' + q.cond_str()]
            if notmerge:
                if q.exit != 'break' or pops:
                    res.bad(F('SCN-SPAN', mt, lp, 'non-mergeable token [%s]' % q.cond_str(), 'merging must stop at the first token that is neither a literal nor a number, leaving it in the list', details=where))
                continue
            if not mergeable:
                res.undecided('merge_tokens iteration %s' % q.cond_str(), 'token kind not tested')
                continue
            if len(pops) != 1:
                res.bad(F('SCN-SPAN', mt, lp, 'mergeable token [%s]' % q.cond_str(), 'a merged token must be removed from the list exactly once', details=where))
                continue
            for c in carried:
                new = q.rsrc(q.env[c])
                A = '_acc_' + c
                if new == '%s.start' % TOK:
                    S = c
                    verdicts.append(('S', 'always'))
                elif new == '%s.end' % TOK and rc.get(A) is False:
                    E = c
                    verdicts.append(('E', 'first'))
                elif new == A and rc.get(A) is True:
                    E = E or c
                    verdicts.append(('E', 'kept'))
                elif new == '%s.end' % TOK and rc.get(A) is None:
                    res.bad(F('SCN-SPAN', mt, lp, '%s = %s.end on every iteration' % (c, TOK), 'tokens are popped from the end: the end of the merged literal is the end of the *first* popped token and must not be overwritten by earlier tokens', details=where))
                elif new == '%s.start' % TOK and rc.get(A) is False:
                    res.bad(F('SCN-SPAN', mt, lp, '%s = %s.start only once' % (c, TOK), 'the start of the merged literal is the start of the last popped (= first merged) token: it must follow every popped token', details=where))
        if S and E and ('E', 'first') in verdicts and ('E', 'kept') in verdicts:
            i0s, i0e = p.try_const(mt, env0.get(S)), p.try_const(mt, env0.get(E))
            if i0e == 0 or i0e is None and src_of(env0.get(E)) == 'None':
                res.ok('merge_tokens: start follows every popped token, end is taken from the first popped one')
            else:
                res.undecided('initial end %r' % i0e, 'falsy initial end')
            good = 0
            for q in post:
                rc = q.rconds()
                differ = rc.get('_fin_%s != _fin_%s' % (S, E))
                if differ is None and rc.get('_fin_%s == _fin_%s' % (S, E)) is not None:
                    differ = not rc['_fin_%s == _fin_%s' % (S, E)]
                apps = [q.rsrc(n) for _, n, _ in q.calls('append')]
                lits = [q.rsrc(n) for _, n, _ in q.calls('create_literal')]
                if differ is True:
                    if len(lits) == 1 and lits[0].endswith('_fin_%s, _fin_%s)' % (S, E)) and len(apps) == 1:
                        good += 1
                    elif len(lits) == 1 and lits[0].endswith('_fin_%s, _fin_%s)' % (E, S)):
                        res.bad(F('SCN-SPAN', mt, mt.node, lits[0].replace('_fin_', ''), 'start and end of the merged literal are swapped'))
                    else:
                        res.undecided('after the loop: %s' % (apps + lits), 'append(create_literal(scanner, start, end))')
                elif differ is False:
                    if not apps:
                        good += 1
                    else:
                        res.undecided('after the loop (nothing merged): %s' % apps, 'nothing appended')
            if good == 2:
                res.ok('merge_tokens: the merged literal (start, end) is appended exactly when something was merged')
        elif its:
            res.undecided('merge_tokens accumulators %s' % verdicts, 'start = token.start always; end = token.end only while unset')
    # Token.__init__ stores both ends; subclasses forward their trailing (start, end) arguments
    for mq in ('abbreviation.tokenizer.tokens', 'css_abbreviation.tokenizer.tokens'):
        init = p.func(mq + '.Token.__init__')
        stores = {src_of(n.targets[0]): src_of(n.value) for n in init.body_nodes() if isinstance(n, ast.Assign) and len(n.targets) == 1}
        if len(init.params) >= 3 and stores.get('self.start') == init.params[1] and stores.get('self.end') == init.params[2]:
            res.ok('%s.Token.__init__(start, end) stores both' % mq)
        elif len(init.params) >= 3 and stores.get('self.start') == init.params[2] and stores.get('self.end') == init.params[1]:
            res.bad(F('SCN-SPAN', init, init.node, 'Token.__init__', 'Token must store (start, end) in this order'))
        else:
            res.undecided('%s.Token.__init__' % mq, 'self.start / self.end from the first two parameters')
        base = p.cls(mq + '.Token')
        for c in p.subclasses(base):
            ci = c.methods.get('__init__')
            if ci is None:
                res.ok('%s inherits Token.__init__' % c.name)
                continue
            fwd = [n for n in ci.body_nodes() if isinstance(n, ast.Call) and isinstance(n.func, ast.Attribute) and n.func.attr == '__init__'
                   and any(isinstance(a_, ast.Starred) and src_of(a_.value) == ci.vararg for a_ in n.args)]
            if ci.vararg and len(fwd) == 1 and len(fwd[0].args) == 1:
                res.ok('%s.__init__ forwards *%s to Token.__init__' % (c.name, ci.vararg))
            elif not ci.vararg and not any(isinstance(n, ast.Call) and isinstance(n.func, ast.Attribute) and n.func.attr == '__init__' for n in ci.body_nodes()):
                res.bad(F('SCN-SPAN', ci, ci.node, '%s.__init__' % c.name, 'token subclass must forward its trailing (start, end) arguments to Token.__init__: its span is never stored'))
            else:
                res.undecided('%s.__init__' % c.name, 'forwarding of (start, end) to Token.__init__')
    res.require_floor(30)


def _span_param_ok(p, f, pname, field):
    """`if <p> is None: <p> = scanner.<field>` at the top of f"""
    for st in f.node.body:
        if isinstance(st, ast.If) and src_of(st.test) == '%s is None' % pname and len(st.body) == 1:
            if src_of(st.body[0]) in ('%s = scanner.%s' % (pname, field), '%s = stream.%s' % (pname, field)):
                return True
    return False


def _is_entry_snapshot(p, f, name, cursors):
    """`name = cursor.pos` occurs at the top level of f before any statement that can move the cursor"""
    for st in f.node.body:
        if isinstance(st, ast.Expr) and isinstance(st.value, ast.Constant):
            continue
        if isinstance(st, ast.Assign) and len(st.targets) == 1 and isinstance(st.targets[0], ast.Name):
            if st.targets[0].id == name:
                return True
            # harmless prelude: peeks, constants, ctx reads
            calls = [n for n in ast.walk(st.value) if isinstance(n, ast.Call)]
            if all(isinstance(c.func, ast.Attribute) and c.func.attr in ('peek',) for c in calls):
                continue
            if not calls:
                continue
        return False
    return False
