"""SCN-* : scanner (cursor) discipline."""
import ast

from . import rule
from ..core import AnalysisError, src_of, Class, Func
from ..report import Finding
from .. import callgraph
from ..cursor import CursorAnalysis, CURSOR_CLASSES, T, NONE, FNN, UNK
from ..pattern import find_stmt, find_expr, match_stmt

_AN = {}

CURSOR_METHOD_OWNERS = set(CURSOR_CLASSES)


def analysis(p):
    an = _AN.get(id(p))
    if an is None:
        an = CursorAnalysis(p)
        cg = callgraph.get(p)
        funcs = []
        for f in sorted(p.funcs.values(), key=lambda x: x.qualname):
            if f.cls is not None and f.cls.qualname in CURSOR_METHOD_OWNERS:
                continue          # the cursor classes themselves are checked structurally (SCN-CORE)
            uses = bool(an.cursor_params(f)) or any(an.cursor_class_of(f, n) for n in f.locals)
            if not uses:
                continue
            funcs.append(f)
        # roots: not called with a cursor by another analysed function
        roots = []
        for f in funcs:
            if not an.cursor_params(f):
                roots.append(f)
                continue
            callers = [c for c, _ in cg.callers_of(f) if c in funcs and c is not f]
            if not callers:
                roots.append(f)
        an.rounds = an.analyse_all(roots)
        an.funcs = funcs
        an.roots = roots
        _AN[id(p)] = an
    return an


def F(rule_name, f, node, construct, message, **kw):
    return Finding(rule_name, f.module.relpath, f.short, construct, message, getattr(node, 'lineno', 0), **kw)


def _emit(p, res, rname, prefixes=None):
    an = analysis(p)
    for (r, q, construct), it in sorted(an.report.items.items(), key=lambda kv: (kv[0][1], kv[0][2])):
        if r != rname:
            continue
        f = it['func']
        res.bad(F(rname, f, it['node'], construct, it['message'], details=['path : ' + it['trace']] if it['trace'] else []))
    for (q, construct) in sorted(an.report.checked.get(rname, ())):
        bad = (rname, q, construct) in an.report.items
        if not bad:
            res.ok('%s: %s' % (q[6:], construct))
    res.stats['functions_analysed'] = len(an.analysed)
    res.stats['summary_contexts'] = len(an.memo)
    res.stats['fixpoint_rounds'] = an.rounds
    res.stats['roots'] = len(an.roots)


@rule('SCN-OVER', 'D', 'a cursor that may have stepped outside its bounds is never read into a value (range end, token span, error position)')
def scn_over(p, res):
    _emit(p, res, 'SCN-OVER')
    an = analysis(p)
    res.stats['raw_step_sites'] = len(an.report.checked.get('SCN-STEP', ()))
    res.assumptions.append('backward scanners are created with start <= pos (extract_abbreviation: get_start_offset returns a position <= pos)')
    res.assumptions.append('for-loop variables over strings are never the empty sentinel')
    res.require_floor(60)


@rule('SCN-PROGRESS', 'D', 'every loop bounded by a cursor test moves the cursor towards the bound on every path to its back edge')
def scn_progress(p, res):
    an = analysis(p)
    for (r, q, construct), it in sorted(an.report.items.items(), key=lambda kv: (kv[0][1], kv[0][2])):
        if r != 'SCN-PROGRESS':
            continue
        res.bad(F('SCN-PROGRESS', it['func'], it['node'], construct, it['message'], details=['path : ' + it['trace']]))
    n = 0
    for (q, lid), info in sorted(an.loops.items()):
        if ('SCN-PROGRESS', q, 'while %s' % src_of(info['node'].test)) in an.report.items:
            continue
        n += 1
        res.ok('%s: while %s (%s, %d back-edge states)' % (q[6:], src_of(info['node'].test), info['dir'], info['ok']))
    res.stats['loops'] = len(an.loops)
    res.require_floor(38)


@rule('SCN-SKIP', 'N', 'a scanning loop never consumes a character and then skips the next one unexamined in the same iteration')
def scn_skip(p, res):
    _emit(p, res, 'SCN-SKIP')
    res.require_floor(12)


REST_EXEMPT = {
    'emmet.markup.format.template.consume_placeholder':
        'returns None with the cursor at the end of an unclosed "["; its only caller then leaves its loop and slices by offset',
    'emmet.html_matcher.scan.skip_attributes': 'result unused; skips to the tag terminator',
}


def _result_tested(p, f):
    """is the return value of f truth-tested at some call site?"""
    for caller, call in callgraph.get(p).callers_of(f):
        par = p.parents(caller).get(call)
        if isinstance(par, ast.Expr):
            continue
        return True
    return False


@rule('SCN-REST', 'D', 'a consumer that reports failure leaves the cursor where it found it')
def scn_rest(p, res):
    an = analysis(p)
    by_func = {}
    for (q, cname, ctx), outs in an.memo.items():
        by_func.setdefault(q, []).append((ctx, outs))
    for q in sorted(by_func):
        f = p.funcs[q]
        if not _result_tested(p, f):
            continue
        cps = an.cursor_params(f)
        if cps and cps[0][2] == 'emmet.token_scanner.TokenScanner':
            continue      # token-level parsers may consume whitespace before giving up; C18/C16 concern character cursors
        if q in REST_EXEMPT:
            res.notes.append('%s exempt: %s' % (q[6:], REST_EXEMPT[q]))
            continue
        bad = None
        n = 0
        for ctx, outs in by_func[q]:
            for o in outs:
                if o.kind in (NONE, FNN):
                    n += 1
                    if o.d != 'Z':
                        bad = (ctx, o)
        if bad:
            ctx, o = bad
            res.bad(F('SCN-REST', f, f.node, 'falsy return of %s' % f.name,
                      'a path returns a falsy value with the cursor moved (displacement %s): the caller treats the input as not consumed and re-scans or mis-attributes it' % o.d,
                      details=['path : ' + o.trace]))
        elif n:
            res.ok('%s: %d falsy outcomes, all at the entry position' % (f.short, n))
    res.require_floor(28)


# ----------------------------------------------------------------- SCN-CORE
SCN_CORE_MSG = {
    'eof': 'eof() must be pos >= end', 'peek': "look-ahead must return the empty sentinel at and beyond the bound", 'next': 'next() must not step beyond the end',
    'eat': 'eat() steps exactly when the peeked character matches', 'eat_while': 'eat_while() must test the bound before every step',
    'back_up': 'back_up(n) moves the cursor back by n', 'current': 'current() is string[start:pos]', 'substring': 'substring(start, end) is string[start:end], end defaulting to the scanner end',
    'error': 'the exception carries the unmodified 0-based position (only the message is 1-based) and the source', '__init__': 'construction of the cursor',
    'readable': 'readable() is pos < size', 'consume': 'consume() steps only over an existing element that passes the test, after the bound test',
    'consume_while': 'consume_while() repeats consume() and reports whether the cursor moved', 'slice': 'slice() defaults to start..pos',
    'sol': 'sol() is pos == start', 'previous': 'previous() must not step before the left bound', 'prev': "prev() returns '' at position 0", 'cur': "cur() returns '' at the end",
}


@rule('SCN-CORE', 'D', 'the cursor classes themselves: every step is behind the class bound test, look-ahead returns the empty sentinel out of range')
def scn_core(p, res):
    """Each method of the cursor classes is summarised symbolically (all paths; locals substituted; effects in order) and the
    summary is compared, case by case, with the reviewed decision table in scn_spec.py.  A refactoring that keeps the
    decision table (other locals, if/else vs conditional expression, guard clauses, a differently spelled comparison or
    string) is not reported; a method whose table differs in a recognised way is; anything else is reported undecided."""
    from .. import dtable
    from .scn_spec import SPEC
    for fq, rows in SPEC.items():
        f = p.func(fq)
        status, det = dtable.check(p, f, rows)
        name = fq.rsplit('.', 1)[1]
        if status == 'ok':
            res.ok('%s: %d case(s) agree with the reviewed table' % (fq, det))
        elif status == 'unknown':
            res.undecided('%s: %s' % (fq, det), SCN_CORE_MSG.get(name, 'cursor method'))
        else:
            for a, want, c in det[:2]:
                have = c.outcome()
                # same steps, different operands  /  a cursor step added or dropped  ->  the method computes something else
                wsk = [x.split(' = ')[0] if x.startswith('store ') else x.split(' ')[0] for x in want.split(' ; ')]
                hsk = [x.split(' = ')[0] if x.startswith('store ') else x.split(' ')[0] for x in have.split(' ; ')]
                pos_w = [x for x in wsk if x.startswith('store') and x.endswith('.pos')]
                pos_h = [x for x in hsk if x.startswith('store') and x.endswith('.pos')]
                if wsk == hsk or pos_w != pos_h:
                    res.bad(F('SCN-CORE', f, f.node, '%s  [%s]' % (have, c.cond_str()), SCN_CORE_MSG.get(name, 'cursor method') + '; reviewed behaviour for this case: ' + want))
                else:
                    res.undecided('%s [%s]: %s' % (fq, c.cond_str(), have), 'reviewed: ' + want)
    # who may write .pos of a cursor: census
    writers = {}
    for f in p.funcs.values():
        for n in f.body_nodes():
            if isinstance(n, (ast.Assign, ast.AugAssign)):
                for t in (n.targets if isinstance(n, ast.Assign) else [n.target]):
                    for x in ast.walk(t):
                        if isinstance(x, ast.Attribute) and x.attr == 'pos' and isinstance(x.ctx, ast.Store):
                            writers.setdefault(f.module.name, 0)
                            writers[f.module.name] += 1
    res.stats['pos_store_sites_by_module'] = writers
    res.require_floor(26)


# ----------------------------------------------------------------- SCN-SPAN
def token_classes(p):
    out = {}
    for mq in ('abbreviation.tokenizer.tokens', 'css_abbreviation.tokenizer.tokens'):
        base = p.cls(mq + '.Token')
        for c in p.subclasses(base):
            out[c.qualname] = c
    return out


@rule('SCN-SPAN', 'D', 'every token built by a tokenizer carries both span ends: start saved before consuming, end = current cursor, cursor advanced')
def scn_span(p, res):
    _emit(p, res, 'SCN-SPAN')
    # merge_tokens: the merged literal spans the first popped start .. the last token's end
    mt = p.func('css_abbreviation.tokenizer.merge_tokens')
    s = src_of(mt.node)
    need = ['start = token.start', 'if not end:\n                end = token.end', 'token_list.pop()', 'token_list.append(create_literal(scanner, start, end))']
    if all(n_ in s for n_ in need):
        res.ok('merge_tokens: literal spans start of the first merged token .. end of the last')
    else:
        res.bad(F('SCN-SPAN', mt, mt.node, 'merge_tokens body', 'the merged literal must span from the first merged token\'s start to the last one\'s end'))
    # Token.__init__ stores both ends
    for mq in ('abbreviation.tokenizer.tokens', 'css_abbreviation.tokenizer.tokens'):
        init = p.func(mq + '.Token.__init__')
        if init.params[1:3] == ['start', 'end'] and 'self.start = start' in src_of(init.node) and 'self.end = end' in src_of(init.node):
            res.ok('%s.Token.__init__(start, end) stores both' % mq)
        else:
            res.bad(F('SCN-SPAN', init, init.node, 'Token.__init__', 'Token must store (start, end) in this order'))
        base = p.cls(mq + '.Token')
        for c in p.subclasses(base):
            ci = c.methods.get('__init__')
            if ci is None:
                res.ok('%s inherits Token.__init__' % c.name)
                continue
            if ci.vararg and ('super(%s, self).__init__(*%s)' % (c.name, ci.vararg)) in src_of(ci.node):
                res.ok('%s.__init__ forwards *%s to Token.__init__' % (c.name, ci.vararg))
            else:
                res.bad(F('SCN-SPAN', ci, ci.node, '%s.__init__' % c.name, 'token subclass must forward its trailing (start, end) arguments to Token.__init__'))
    res.require_floor(30)


def _span_param_ok(p, f, pname, field):
    """`if <p> is None: <p> = scanner.<field>` at the top of f"""
    for st in f.node.body:
        if isinstance(st, ast.If) and src_of(st.test) == '%s is None' % pname and len(st.body) == 1:
            if src_of(st.body[0]) in ('%s = scanner.%s' % (pname, field), '%s = stream.%s' % (pname, field)):
                return True
    return False


def _is_entry_snapshot(p, f, name, cursors):
    """`name = cursor.pos` occurs at the top level of f before any statement that can move the cursor"""
    for st in f.node.body:
        if isinstance(st, ast.Expr) and isinstance(st.value, ast.Constant):
            continue
        if isinstance(st, ast.Assign) and len(st.targets) == 1 and isinstance(st.targets[0], ast.Name):
            if st.targets[0].id == name:
                return True
            # harmless prelude: peeks, constants, ctx reads
            calls = [n for n in ast.walk(st.value) if isinstance(n, ast.Call)]
            if all(isinstance(c.func, ast.Attribute) and c.func.attr in ('peek',) for c in calls):
                continue
            if not calls:
                continue
        return False
    return False
