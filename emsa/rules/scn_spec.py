"""Decision tables of the cursor classes (reviewed; generated once from the symbolic summaries of the reviewed tree and
then frozen): for each method, rows of (assumed atoms -> effects in order ; result).  `__i` is the value of the i-th
effect, `old<t>(e)` the value e had before effect t, L[..] an integer sum in normal form, S[..] a string built from pieces."""

SPEC = {
    'scanner.Scanner.eof': [
        ({}, 'ret not (-1*self.end +1*self.pos < 0)'),
    ],
    'scanner.Scanner.peek': [
        ({'-1*self.end +1*self.pos < 0': True}, 'ret self.string[self.pos]'),
        ({'-1*self.end +1*self.pos < 0': False}, "ret ''"),
    ],
    'scanner.Scanner.next': [
        ({'-1*self.end +1*self.pos < 0': True}, 'store self.pos = L[+1 +1*self.pos] ; ret old0(self.string[self.pos])'),
        ({'-1*self.end +1*self.pos < 0': False}, 'ret None'),
    ],
    'scanner.Scanner.eat': [
        ({'callable(match)': True, '__1': True}, 'call self.peek() ; call match(__0) ; store self.pos = L[+1 +1*self.pos] ; ret __1'),
        ({'callable(match)': True, '__1': False}, 'call self.peek() ; call match(__0) ; ret __1'),
        ({'callable(match)': False, '__0 == match': True}, 'call self.peek() ; store self.pos = L[+1 +1*self.pos] ; ret __0 == match'),
        ({'callable(match)': False, '__0 == match': False}, 'call self.peek() ; ret __0 == match'),
    ],
    'scanner.Scanner.eat_while': [
        ({}, 'loop while (-1*self.end +1*self.pos < 0 and self.eat(match)) do pass ; ret not (old0(self.pos) == self.pos)'),
    ],
    'scanner.Scanner.back_up': [
        ({}, 'store self.pos = L[-1*n +1*self.pos] ; ret None'),
    ],
    'scanner.Scanner.current': [
        ({}, 'call self.substring(self.start, self.pos) ; ret __0'),
    ],
    'scanner.Scanner.substring': [
        ({'end is None': True}, 'ret self.string[start:self.end]'),
        ({'end is None': False}, 'ret self.string[start:end]'),
    ],
    'scanner.Scanner.error': [
        ({'pos is None': True}, "call ScannerException('%s at %d' % (message, L[+1 +1*self.pos]), self.pos, self.string) ; ret __0"),
        ({'pos is None': False}, "call ScannerException('%s at %d' % (message, L[+1 +1*pos]), pos, self.string) ; ret __0"),
    ],
    'scanner.Scanner.__init__': [
        ({'end is None': True}, 'store self.end = len(source) ; store self.pos = start ; store self.start = start ; store self.string = source ; ret None'),
        ({'end is None': False}, 'store self.end = end ; store self.pos = start ; store self.start = start ; store self.string = source ; ret None'),
    ],
    'token_scanner.TokenScanner.peek': [
        ({'__0': True}, 'call self.readable() ; ret self.tokens[self.pos]'),
        ({'__0': False}, 'call self.readable() ; ret None'),
    ],
    'token_scanner.TokenScanner.readable': [
        ({}, 'ret +1*self.pos -1*self.size < 0'),
    ],
    'token_scanner.TokenScanner.next': [
        ({}, 'call self.peek() ; store self.pos = L[+1 +1*self.pos] ; ret __0'),
    ],
    'token_scanner.TokenScanner.consume': [
        ({'__0': True, '__1': True}, 'call self.peek() ; call test(__0) ; store self.pos = L[+1 +1*self.pos] ; ret True'),
        ({'__0': False}, 'call self.peek() ; ret False'),
        ({'__0': True, '__1': False}, 'call self.peek() ; call test(__0) ; ret False'),
    ],
    'token_scanner.TokenScanner.consume_while': [
        ({}, 'loop while self.consume(test) do pass ; ret not (old0(self.pos) == self.pos)'),
    ],
    'token_scanner.TokenScanner.slice': [
        ({'start is None': True, 'end is None': True}, 'ret self.tokens[self.start:self.pos]'),
        ({'start is None': True, 'end is None': False}, 'ret self.tokens[self.start:end]'),
        ({'start is None': False, 'end is None': True}, 'ret self.tokens[start:self.pos]'),
        ({'start is None': False, 'end is None': False}, 'ret self.tokens[start:end]'),
    ],
    'token_scanner.TokenScanner.error': [
        ({'token is None': True, '__0': True, '__0.start is None': False}, "call self.peek() ; call TokenScannerException(message + ' at %d' % __0.start, __0.start) ; ret __1"),
        ({'token is None': True, '__0': False}, 'call self.peek() ; call TokenScannerException(message, None) ; ret __1'),
        ({'token is None': True, '__0': True, '__0.start is None': True}, 'call self.peek() ; call TokenScannerException(message, None) ; ret __1'),
        ({'token is None': False, 'token': True, 'token.start is None': False}, "call TokenScannerException(message + ' at %d' % token.start, token.start) ; ret __0"),
        ({'token is None': False, 'token': False}, 'call TokenScannerException(message, None) ; ret __0'),
        ({'token is None': False, 'token': True, 'token.start is None': True}, 'call TokenScannerException(message, None) ; ret __0'),
    ],
    'token_scanner.TokenScanner.__init__': [
        ({}, 'store self.pos = 0 ; store self.size = len(tokens) ; store self.start = 0 ; store self.tokens = tokens ; ret None'),
    ],
    'extract_abbreviation.reader.BackwardScanner.sol': [
        ({}, 'ret self.pos == self.start'),
    ],
    'extract_abbreviation.reader.BackwardScanner.peek': [
        ({'-1 +1*offset +1*self.pos < 0': False, '-1 -1*len(self.text) +1*offset +1*self.pos < 0': True}, 'ret self.text[L[-1 +1*offset +1*self.pos]]'),
        ({'-1 +1*offset +1*self.pos < 0': True}, "ret ''"),
        ({'-1 +1*offset +1*self.pos < 0': False, '-1 -1*len(self.text) +1*offset +1*self.pos < 0': False}, "ret ''"),
    ],
    'extract_abbreviation.reader.BackwardScanner.previous': [
        ({'__0': False}, 'call self.sol() ; store self.pos = L[-1 +1*self.pos] ; ret self.text[self.pos]'),
        ({'__0': True}, 'call self.sol() ; ret None'),
    ],
    'extract_abbreviation.reader.BackwardScanner.consume': [
        ({'__0': True}, 'call self.sol() ; ret False'),
        ({'__0': False, 'callable(match)': True, '__2': True}, 'call self.sol() ; call self.peek() ; call match(__1) ; store self.pos = L[-1 +1*self.pos] ; ret bool(__2)'),
        ({'__0': False, 'callable(match)': True, '__2': False}, 'call self.sol() ; call self.peek() ; call match(__1) ; ret bool(__2)'),
        ({'__0': False, 'callable(match)': False, '__1 == match': True}, 'call self.sol() ; call self.peek() ; store self.pos = L[-1 +1*self.pos] ; ret bool(match == __1)'),
        ({'__0': False, 'callable(match)': False, '__1 == match': False}, 'call self.sol() ; call self.peek() ; ret bool(match == __1)'),
    ],
    'extract_abbreviation.reader.BackwardScanner.consume_while': [
        ({}, 'loop while self.consume(match) do pass ; ret -1*old0(self.pos) +1*self.pos < 0'),
    ],
    'extract_abbreviation.reader.BackwardScanner.__init__': [
        ({}, 'store self.pos = len(text) ; store self.start = start ; store self.text = text ; ret None'),
    ],
    'math_expression.extract.BackwardScanner.prev': [
        ({'self.pos': True}, 'ret self.text[L[-1 +1*self.pos]]'),
        ({'self.pos': False}, "ret ''"),
    ],
    'math_expression.extract.BackwardScanner.cur': [
        ({'-1*len(self.text) +1*self.pos < 0': True}, 'ret self.text[self.pos]'),
        ({'-1*len(self.text) +1*self.pos < 0': False}, "ret ''"),
    ],
    'markup.format.template.TokenScanner.peek': [
        ({'pos is None': True, '-1*len(self.text) +1*self.pos < 0': True}, 'ret self.text[self.pos]'),
        ({'pos is None': True, '-1*len(self.text) +1*self.pos < 0': False}, "ret ''"),
        ({'pos is None': False, '-1*len(self.text) +1*pos < 0': True}, 'ret self.text[pos]'),
        ({'pos is None': False, '-1*len(self.text) +1*pos < 0': False}, "ret ''"),
    ],
    'scanner.ScannerException.__init__': [
        ({}, 'call super(ScannerException, self) ; call __0.__init__() ; store self.message = message ; store self.pos = pos ; store self.string = source ; ret None'),
    ],
}
