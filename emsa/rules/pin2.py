"""Second batch of targeted rules: tokenizer context tables, escape idiom, sibling
agreement of the HTML entry points, extraction guards, wrap-text sources."""
import ast
import itertools

from . import rule
from ..core import AnalysisError, src_of, Class, Func
from ..report import Finding
from ..minieval import MiniEval, Rec
from ..pattern import find_expr, find_stmt, match_expr, match_stmt
from .pin import implied_facts, conjuncts, enclosing_tests
from .. import callgraph


def F(rule_name, f, node, construct, message, **kw):
    return Finding(rule_name, f.module.relpath, f.short, construct, message, getattr(node, 'lineno', 0), **kw)


# --------------------------------------------------------------- DEC-TOKCTX
@rule('DEC-TOKCTX', 'N', 'tokenizer context tables: which characters are operators / repeaters / spaces inside text, attributes and quotes')
def dec_tokctx(p, res):
    ev = MiniEval(p)
    rep = p.func('abbreviation.tokenizer.is_allowed_repeater')
    opr = p.func('abbreviation.tokenizer.is_allowed_operator')
    spc = p.func('abbreviation.tokenizer.is_allowed_space')
    m, node, optypes = None, None, None
    from .tab import _const
    _, _, optypes = _const(p, 'abbreviation.tokenizer', 'OPERATOR_TYPES')
    for attribute, expression, quote in itertools.product([0, 1, 2], [0, 1, 2], [None, '"', "'"]):
        ctx = {'group': 0, 'attribute': attribute, 'expression': expression, 'quote': quote}
        for ch in ['*', 'a', ' ', '\n', '$'] + sorted(optypes):
            got = bool(ev.call(rep, [ch, ctx]))
            want = ch == '*' and not attribute and not expression
            if got != want:
                res.bad(F('DEC-TOKCTX', rep, rep.node, 'is_allowed_repeater(%r, attribute=%r expression=%r quote=%r) -> %r' % (ch, attribute, expression, quote, got),
                          'a `*` is a repeater only outside attributes and outside text (expected %r): inside text it must stay literal text' % want))
            else:
                res.ok()
            got = bool(ev.call(opr, [ch, ctx]))
            op = optypes.get(ch)
            want = bool(op) and not quote and not expression and (not attribute or op == 'equal')
            if got != want:
                res.bad(F('DEC-TOKCTX', opr, opr.node, 'is_allowed_operator(%r, attribute=%r expression=%r quote=%r) -> %r' % (ch, attribute, expression, quote, got),
                          'operators have no effect inside quotes and text; inside attributes only `=` is an operator (expected %r)' % want))
            else:
                res.ok()
            got = bool(ev.call(spc, [ch, ctx]))
            want = ch in (' ', '\n') and not expression
            if got != want:
                res.bad(F('DEC-TOKCTX', spc, spc.node, 'is_allowed_space(%r, expression=%r) -> %r' % (ch, expression, got), 'white space is a token of its own except inside text (expected %r)' % want))
            else:
                res.ok()
    res.samples.append('27 contexts x %d characters x 3 predicates' % (5 + len(optypes)))
    # the tokenizer tries the repeater alternative under the same context test the literal scanner uses
    rp = p.func('abbreviation.tokenizer.repeater')
    if 'is_allowed_repeater(scanner.peek(), ctx) and scanner.eat(Chars.Asterisk)' in src_of(rp.node):
        res.ok('repeater() consults is_allowed_repeater before eating *')
    else:
        res.bad(F('DEC-TOKCTX', rp, rp.node, 'guard of repeater()', 'the repeater alternative must be tried only where is_allowed_repeater allows it (literal() stops at `*` under the same test)'))
    lt = p.func('abbreviation.tokenizer.literal')
    s = src_of(lt.node)
    for w in ("ch == ctx['quote'] or ch == Chars.Dollar or is_allowed_operator(ch, ctx)", 'is_allowed_space(ch, ctx) or is_allowed_repeater(ch, ctx) or is_quote(ch) or bracket_type(ch)'):
        if w in s:
            res.ok('literal(): stops at ' + w)
        else:
            res.bad(F('DEC-TOKCTX', lt, lt.node, w, 'stop conditions of the literal scanner changed'))
    res.require_floor(500)


# ------------------------------------------------------------- PIN-WRAPTEXT
@rule('PIN-WRAPTEXT', 'N', 'wrap text: sources of the inserted text and the search for the closest implicit repeater')
def pin_wraptext(p, res):
    cv = p.func('abbreviation.convert.convert')
    joins = find_expr("'\\n'.join($x).strip()", cv.node)
    if len(joins) == 1 and src_of(joins[0][1]['x']) == 'text':
        res.ok("whole-text insertion joins the original lines: '\\n'.join(text).strip()")
    else:
        res.bad(F('PIN-WRAPTEXT', cv, joins[0][0] if joins else cv.node, src_of(joins[0][0]) if joins else "'\\n'.join(text).strip()",
                  'without an implicit repeater the whole supplied text (all lines, blank ones included) is inserted once'))
    s = src_of(cv.node)
    if "text = params.get('text')" in s and 'if text is not None and (not state._text_inserted)' in s and 'insert_text(deepest, tx)' in s:
        res.ok('inserted once into the deepest last element when no implicit repeater consumed it')
    else:
        res.bad(F('PIN-WRAPTEXT', cv, cv.node, 'whole-text insertion guard', 'text is inserted by convert() exactly when it was given and no implicit repeater inserted it'))
    st = p.cls('abbreviation.convert.ConvertState')
    init = st.methods['__init__']
    if 'self.clean_text = [l for l in text if l.strip()]' in src_of(init.node):
        res.ok('clean_text = non-blank lines')
    else:
        res.bad(F('PIN-WRAPTEXT', init, init.node, 'self.clean_text = [l for l in text if l.strip()]', 'implicit repeaters count the non-blank lines'))
    gt = st.methods['get_text']
    ifs = [n for n in gt.body_nodes() if isinstance(n, ast.If) and any(isinstance(x, ast.Return) and src_of(x.value) == 'self.clean_text[pos].strip()' for x in n.body)]
    cj = sorted(c for c, pol in conjuncts(ifs[0].test, True) if pol) if len(ifs) == 1 else None
    if cj == sorted(['pos is not None', 'pos >= 0', 'pos < len(self.clean_text)']):
        res.ok('get_text(i) = i-th non-blank line, trimmed (index 0 included)')
    else:
        res.bad(F('PIN-WRAPTEXT', gt, ifs[0] if ifs else gt.node, src_of(ifs[0].test) if ifs else 'range guard of get_text',
                  'line i (0 included) of the non-blank lines, trimmed: the guard must be `pos is not None and pos >= 0 and pos < len(clean_text)`, not the truthiness of pos'))
    cs = p.func('abbreviation.convert.convert_statement')
    s = src_of(cs.node)
    if 'if repeat.implicit and isinstance(state.text, list):\n            repeat.count = len(state.clean_text)' in s and 'insert_text(deepest, state.get_text(repeat.value))' in s:
        res.ok('implicit repeater: one copy per non-blank line, line i into copy i')
    else:
        res.bad(F('PIN-WRAPTEXT', cs, cs.node, 'implicit repeater count / text', 'X* makes one copy per non-blank line and inserts line i into copy i'))
    # closest implicit repeater: the search runs over all repeaters, innermost first, and stops only at an implicit one
    rp = p.func('abbreviation.stringify.RepeaterPlaceholder')
    loops = [n for n in rp.body_nodes() if isinstance(n, ast.For)]
    ok = False
    if len(loops) == 1 and len(loops[0].body) == 1 and isinstance(loops[0].body[0], ast.If):
        iff = loops[0].body[0]
        lv = src_of(loops[0].target)
        ok = src_of(iff.test) == '%s.implicit' % lv and any(isinstance(x, ast.Break) for x in iff.body) and not iff.orelse \
            and not any(isinstance(x, ast.Break) for x in loops[0].body if x is not iff)
    if ok:
        res.ok('$#: loop over all repeaters, break only inside `if r.implicit`')
    else:
        res.bad(F('PIN-WRAPTEXT', rp, loops[0] if loops else rp.node, src_of(loops[0]).replace('\n', ' ; ') if loops else 'search loop',
                  '$# takes the text of the closest *implicit* repeater: the search must continue past explicit repeaters (break only when r.implicit)'))
    s = src_of(rp.node)
    if ('repeater_list = state.repeaters[:]' in s and 'repeater_list.reverse()' in s) or 'reversed(state.repeaters)' in s:
        res.ok('search order: innermost repeater first')
    else:
        res.bad(F('PIN-WRAPTEXT', rp, rp.node, 'order of the repeater search', 'innermost first'))
    # the parse options: maxRepeat plumbing is exact
    mp = p.func('markup.parse')
    d = [n for n in mp.body_nodes() if isinstance(n, ast.Dict)]
    mr = None
    for dd in d:
        for k, v in zip(dd.keys, dd.values):
            if p.try_const(mp, k) == 'max_repeat':
                mr = v
    if mr is not None and src_of(mr) == "config.get('maxRepeat') or config.get('max_repeat')":
        res.ok("max_repeat = config.get('maxRepeat') or config.get('max_repeat') (no second default)")
    else:
        res.bad(F('PIN-WRAPTEXT', mp, mr or mp.node, "'max_repeat': %s" % (src_of(mr) if mr is not None else '?'),
                  'the repeat limit must be passed through unchanged; the only default lives in ConvertState (a second default silently caps large abbreviations)'))
    res.require_floor(8)


# --------------------------------------------------------------- SIB-ESCAPE
@rule('SIB-ESCAPE', 'N', 'string scanners consume the escape character and, unconditionally, the character after it')
def sib_escape(p, res):
    sites = [('scanner_utils.eat_quoted', "scanner.eat(options['escape'])", ('scanner.pos += 1', 'scanner.next()')),
             ('css_matcher.scan.literal', 'scanner.eat(Chars.Backslash)', ('scanner.next()', 'scanner.pos += 1'))]
    for fq, eat, steps in sites:
        f = p.func(fq)
        pm = p.parents(f)
        found = False
        for n in f.body_nodes():
            if isinstance(n, ast.Expr) and src_of(n.value) == eat:
                blk = None
                par = pm.get(n)
                for field in ('body', 'orelse'):
                    b = getattr(par, field, None)
                    if isinstance(b, list) and n in b:
                        blk = b
                i = blk.index(n)
                nxt = src_of(blk[i + 1]) if i + 1 < len(blk) else None
                found = True
                if nxt in steps:
                    res.ok('%s: %s ; %s' % (f.short, eat, nxt))
                else:
                    res.bad(F('SIB-ESCAPE', f, n, '%s ; %s' % (eat, nxt), 'the character after an (optional) escape must be skipped unconditionally'))
        if not found:
            res.bad(F('SIB-ESCAPE', f, f.node, eat, 'the escape idiom `%s` followed by an unconditional step is gone: an escaped quote now ends the string' % eat))
    ep = p.func('scanner_utils.eat_pair')
    s = src_of(ep.node)
    if "elif ch == options['escape']:\n                scanner.pos += 1" in s and 'if eat_quoted(scanner, options):\n                continue' in s:
        res.ok('eat_pair: skips the character after an escape, and whole quoted strings')
    else:
        res.bad(F('SIB-ESCAPE', ep, ep.node, 'escape / quoted-string handling of eat_pair', 'paired brackets must ignore escaped characters and quoted strings'))
    es = p.func('abbreviation.tokenizer.utils.escaped')
    s = src_of(es.node)
    if 'if scanner.eat(Chars.Escape):\n        scanner.start = scanner.pos\n        if not scanner.eof():\n            scanner.pos += 1\n        return True' in s:
        res.ok('escaped(): backslash, then one character if there is one')
    else:
        res.bad(F('SIB-ESCAPE', es, es.node, 'escaped() body', 'a backslash makes exactly the next character literal (if there is one)'))
    res.require_floor(4)


# ------------------------------------------------------------------ SIB-POP
@rule('SIB-HTMLSTACK', 'N', 'HTML entry points pop the open-tag stack only for a closing tag whose name matches the top, and all scan with the special-element table')
def sib_htmlstack(p, res):
    for fq in ('html_matcher.match.scan_callback', 'html_matcher.balanced_outward.scan_callback', 'html_matcher.balanced_inward.scan_callback'):
        f = p.func(fq)
        pops = [n for n in f.body_nodes() if isinstance(n, ast.Call) and src_of(n.func) == 'stack.pop']
        if not pops:
            raise AnalysisError('SIB-HTMLSTACK: %s no longer pops the stack' % fq)
        for n in pops:
            facts = implied_facts(p, f, n)
            if ('tag.name == name', True) in facts:
                res.ok('%s: stack.pop() under tag.name == name' % f.short)
            else:
                res.bad(F('SIB-HTMLSTACK', f, n, src_of(p.enclosing_stmt(f, n)), 'the stack is popped for a closing tag that does not match its top: a stray </x> unbalances every enclosing element (sibling entry points pop only on a name match)'))
        pushes = [n for n in f.body_nodes() if isinstance(n, ast.Call) and src_of(n.func) == 'stack.append']
        for n in pushes:
            facts = implied_facts(p, f, n)
            if any('pos' in fct.split() or 'pos' in fct.replace('(', ' ').replace(')', ' ').split() for fct, _ in facts):
                res.bad(F('SIB-HTMLSTACK', f, n, src_of(p.enclosing_stmt(f, n)), 'whether an opening tag is pushed depends on the position: its closing tag is still compared with the stack top and pairs with the wrong element'))
            else:
                res.ok('%s: every open tag is pushed, independent of pos' % f.short)
    # every scan of the html scanner receives the special table of a ScannerOptions object
    scan = p.func('html_matcher.scan.scan')
    for f, call in callgraph.get(p).callers_of(scan):
        a = call.args[2] if len(call.args) > 2 else None
        if a is not None and isinstance(a, ast.Attribute) and a.attr == 'special':
            t = p.type_of(f, a.value)
            if isinstance(t, Class) and t.name == 'ScannerOptions':
                res.ok('%s: scan(.., %s)' % (f.short, src_of(a)))
                continue
        res.bad(F('SIB-HTMLSTACK', f, call, src_of(call), 'the scan runs without the special-element table: markup-like text inside <script>/<style> is reported as tags (sibling entry points pass options.special)'))
    res.require_floor(12)


# -------------------------------------------------------------- PIN-EXTRACT
@rule('PIN-EXTRACT', 'N', 'extract: bracket context tests look at the whole stack, user options are merged unfiltered, quotes are matched by kind')
def pin_extract(p, res):
    ex = p.func('extract_abbreviation.extract_abbreviation')
    s = src_of(ex.node)
    for w, msg in (('if Brackets.CurlyR in stack:', 'inside a text node (a } is pending anywhere on the stack) every character is accepted'),
                   ('elif Brackets.SquareR in stack or Brackets.CurlyR in stack:', 'inside an attribute set or text node (pending ] or } anywhere on the stack, also below a pending parenthesis) every character is accepted'),
                   ('if not stack or stack.pop() != BRACE_PAIRS[ch]:', 'an opening bracket must match the most recent pending closer'),
                   ('if not stack and scanner.pos != pos:', 'a result requires balanced brackets and at least one consumed character')):
        if w in s:
            res.ok(w)
        else:
            res.bad(F('PIN-EXTRACT', ex, ex.node, w, msg))
    co = p.func('extract_abbreviation.create_options')
    ups = [n for n in co.body_nodes() if isinstance(n, ast.Call) and isinstance(n.func, ast.Attribute) and n.func.attr == 'update']
    if len(ups) == 1 and src_of(ups[0]) == 'options.update(opt)':
        res.ok('create_options: options.update(opt) (falsy user values such as lookAhead=False are honoured)')
    else:
        res.bad(F('PIN-EXTRACT', co, ups[0] if ups else co.node, src_of(ups[0]) if ups else 'options.update(opt)',
                  'user options must be merged unfiltered: a filter on truthiness drops lookAhead=False / prefix=""'))
    d = [n for n in co.body_nodes() if isinstance(n, ast.Dict)]
    if d and p.try_const(co, d[0]) == {'type': 'markup', 'lookAhead': True, 'prefix': ''}:
        res.ok("defaults: type markup, lookAhead on, no prefix")
    else:
        res.bad(F('PIN-EXTRACT', co, co.node, 'default options', 'extract defaults changed'))
    cq = p.func('extract_abbreviation.is_html.consume_quoted')
    s = src_of(cq.node)
    if 'quote = scanner.previous()' in s and "if scanner.previous() == quote and scanner.peek() != '\\\\':" in s and 'if is_quote(quote):' in s:
        res.ok('is_html.consume_quoted: closed by the same quote character, unless escaped')
    else:
        res.bad(F('PIN-EXTRACT', cq, cq.node, 'scanner.previous() == quote', 'a quoted attribute value is delimited by two quotes of the same kind'))
    cl = p.func('extract_abbreviation.consume_list')
    s = src_of(cl.node)
    if 'if not consumed:\n        scanner.pos = start' in s and 'consumed = i == 0' in s:
        res.ok('consume_list restores the position unless the whole prefix matched')
    else:
        res.bad(F('PIN-EXTRACT', cl, cl.node, 'restore of consume_list', 'a partial prefix match must not move the scanner'))
    tl = p.func('action_utils.utils.token_list')
    s = src_of(tl.node)
    if 'if start != pos:\n        ranges.append((offset + start, offset + pos))' in s and 'if start != end:\n                ranges.append((offset + start, offset + end))' in s:
        res.ok('token_list: inner tokens end before the space (end), the last token ends at pos')
    else:
        res.bad(F('PIN-EXTRACT', tl, tl.node, 'flush conditions of token_list', 'a token before white space spans start..end, the trailing token spans start..pos (also when it is one character long)'))
    guv = p.func('html_matcher.utils.get_unquoted_value')
    ev = MiniEval(p)
    for v, want in (('"a"', 'a'), ("'a'", 'a'), ('a', 'a'), ('"a', 'a'), ("a'", 'a'), ('"it\'s"', "it's"), ("'text/javascript'", 'text/javascript')):
        got = ev.call(guv, [v])
        if got != want:
            res.bad(F('PIN-EXTRACT', guv, guv.node, 'get_unquoted_value(%r) -> %r' % (v, got), 'one quote of either kind is trimmed at each end (expected %r)' % want))
        else:
            res.ok('get_unquoted_value(%r) == %r' % (v, want))
    res.require_floor(14)


# ------------------------------------------------------------ DEC-CHARCLASS
@rule('DEC-CHARCLASS', 'D', 'character class predicates, decided over all 256 Latin-1 characters and the empty string')
def dec_charclass(p, res):
    import string
    ev = MiniEval(p)
    letters = set(string.ascii_letters)
    digits = set(string.digits)
    chars = [chr(i) for i in range(256)] + ['']
    spec = {
        'scanner_utils.is_alpha': lambda c: c in letters,
        'scanner_utils.is_number': lambda c: c != '' and c.isdecimal(),
        'scanner_utils.is_alpha_numeric': lambda c: c in letters or (c != '' and c.isdecimal()),
        'scanner_utils.is_alpha_word': lambda c: c in letters or c == '_',
        'scanner_utils.is_alpha_numeric_word': lambda c: c in letters or c == '_' or (c != '' and c.isdecimal()),
        'scanner_utils.is_white_space': lambda c: c in (' ', '\t', '\xa0'),
        'scanner_utils.is_space': lambda c: c in (' ', '\t', '\xa0', '\n', '\r'),
        'scanner_utils.is_quote': lambda c: c in ('"', "'"),
        'css_abbreviation.tokenizer.is_hex': lambda c: c in digits or c in set('abcdefABCDEF') or (c != '' and c.isdecimal()),
        'css_abbreviation.tokenizer.is_keyword': lambda c: c in letters or c in ('_', '-') or (c != '' and c.isdecimal()),
        'css_abbreviation.tokenizer.is_literal': lambda c: c in letters or c in ('_', '%', '/'),
        'css_abbreviation.tokenizer.is_ident_prefix': lambda c: c in ('@', '$'),
        'css_abbreviation.tokenizer.is_bracket': lambda c: c in ('(', ')'),
        'abbreviation.tokenizer.is_element_name': lambda c: c in letters or c in ('_', '-', ':', '!') or (c != '' and c.isdecimal()),
        'html_matcher.utils.is_terminator': lambda c: c in ('>', '/'),
        'extract_abbreviation.is_html.is_ident': lambda c: c in letters or c in (':', '-') or (c != '' and c.isdecimal()),
        'extract_abbreviation.is_html.is_white_space': lambda c: c in (' ', '\t'),
        'markup.format.template.is_token_start': lambda c: c != '' and 'A' <= c <= 'Z',
        'markup.format.template.is_token': lambda c: c != '' and ('A' <= c <= 'Z' or c in ('_', '-') or '0' <= c <= '9'),
        'math_expression.parser.is_operator': lambda c: c in ('+', '-', '*', '/', '\\'),
    }
    for fq, want in spec.items():
        f = p.func(fq)
        bad = []
        for c in chars:
            got = bool(ev.call(f, [c]))
            if got != bool(want(c)):
                bad.append(c)
        if bad:
            res.bad(F('DEC-CHARCLASS', f, f.node, '%s(%r) -> %r' % (f.name, bad[0], not want(bad[0])),
                      'character class changed for %d character(s), e.g. %r' % (len(bad), bad[:6])))
        else:
            res.ok('%s decided over 257 inputs' % f.short)
    res.require_floor(18)


# ----------------------------------------------------------- OWN-CACHEUSE
@rule('OWN-CACHEUSE', 'D', 'the host-supplied cache dict is touched only by the stylesheet snippet conversion, under its one constant key')
def own_cacheuse(p, res):
    cfg = p.cls('config.Config')
    for f in p.funcs.values():
        for n in f.body_nodes():
            if isinstance(n, ast.Attribute) and n.attr == 'cache':
                t = p.type_of(f, n.value)
                is_cfg = (isinstance(t, Class) and t is cfg) or src_of(n.value) in ('config', 'self') and (f.cls is cfg or 'config' in f.params)
                if not is_cfg:
                    continue
                if f.qualname in ('emmet.stylesheet.parse', 'emmet.config.Config.__init__'):
                    res.ok('%s: %s' % (f.short, src_of(p.enclosing_stmt(f, n)).split('\n')[0][:70]))
                else:
                    res.bad(F('OWN-CACHEUSE', f, n, src_of(p.enclosing_stmt(f, n)).split('\n')[0],
                              'the caller\'s cache is used outside the stylesheet snippet conversion: whatever is stored there is shared between calls and must never be handed out for mutation'))
            if isinstance(n, ast.Call) and isinstance(n.func, ast.Attribute) and n.func.attr == 'get' and n.args and p.try_const(f, n.args[0]) == 'cache' \
                    and f.qualname != 'emmet.config.Config.__init__':
                res.bad(F('OWN-CACHEUSE', f, n, src_of(n), 'the cache entry of the user config is read outside Config.__init__'))
    # memoisation decorators / module-level memo tables
    for m in p.modules.values():
        for n in ast.walk(m.tree):
            if isinstance(n, ast.FunctionDef) and n.decorator_list:
                for d in n.decorator_list:
                    if 'cache' in src_of(d) or 'memo' in src_of(d).lower():
                        res.bad(Finding('OWN-CACHEUSE', m.relpath, m.name[6:] + '.' + n.name, '@' + src_of(d), 'memoising decorator: results (mutable objects) are shared between calls and configurations', n.lineno))
    res.require_floor(4)
