"""Second batch of targeted rules: tokenizer context tables, escape idiom, sibling
agreement of the HTML entry points, extraction guards, wrap-text sources."""
import ast
import itertools

from . import rule
from ..sympath import STALE
from ..core import AnalysisError, src_of, Class, Func
from ..report import Finding
from ..minieval import MiniEval, Rec
from ..pattern import find_expr, find_stmt, match_expr, match_stmt
from .pin import implied_facts, conjuncts, enclosing_tests
from .. import callgraph


def F(rule_name, f, node, construct, message, **kw):
    return Finding(rule_name, f.module.relpath, f.short, construct, message, getattr(node, 'lineno', 0), **kw)


# --------------------------------------------------------------- DEC-TOKCTX
@rule('DEC-TOKCTX', 'N', 'tokenizer context tables: which characters are operators / repeaters / spaces inside text, attributes and quotes')
def dec_tokctx(p, res):
    ev = MiniEval(p)
    rep = p.func('abbreviation.tokenizer.is_allowed_repeater')
    opr = p.func('abbreviation.tokenizer.is_allowed_operator')
    spc = p.func('abbreviation.tokenizer.is_allowed_space')
    m, node, optypes = None, None, None
    from .tab import _const
    _, _, optypes = _const(p, 'abbreviation.tokenizer', 'OPERATOR_TYPES')
    for attribute, expression, quote in itertools.product([0, 1, 2], [0, 1, 2], [None, '"', "'"]):
        ctx = Rec({'group': 0, 'attribute': attribute, 'expression': expression, 'quote': quote})     # read as ctx['quote'] or ctx.quote
        for ch in ['*', 'a', ' ', '\n', '$'] + sorted(optypes):
            got = bool(ev.call(rep, [ch, ctx]))
            want = ch == '*' and not attribute and not expression
            if got != want:
                res.bad(F('DEC-TOKCTX', rep, rep.node, 'is_allowed_repeater(%r, attribute=%r expression=%r quote=%r) -> %r' % (ch, attribute, expression, quote, got),
                          'a `*` is a repeater only outside attributes and outside text (expected %r): inside text it must stay literal text' % want))
            else:
                res.ok()
            got = bool(ev.call(opr, [ch, ctx]))
            op = optypes.get(ch)
            want = bool(op) and not quote and not expression and (not attribute or op == 'equal')
            if got != want:
                res.bad(F('DEC-TOKCTX', opr, opr.node, 'is_allowed_operator(%r, attribute=%r expression=%r quote=%r) -> %r' % (ch, attribute, expression, quote, got),
                          'operators have no effect inside quotes and text; inside attributes only `=` is an operator (expected %r)' % want))
            else:
                res.ok()
            got = bool(ev.call(spc, [ch, ctx]))
            want = ch in (' ', '\n') and not expression
            if got != want:
                res.bad(F('DEC-TOKCTX', spc, spc.node, 'is_allowed_space(%r, expression=%r) -> %r' % (ch, expression, got), 'white space is a token of its own except inside text (expected %r)' % want))
            else:
                res.ok()
    res.samples.append('27 contexts x %d characters x 3 predicates' % (5 + len(optypes)))
    # the tokenizer tries the repeater alternative under the same context test the literal scanner uses
    from .tablecheck import check_table
    check_table(p, res, 'DEC-TOKCTX', 'abbreviation.tokenizer.repeater', 'the repeater alternative must be tried only where is_allowed_repeater allows it (literal() stops at `*` under the same test)')
    check_table(p, res, 'DEC-TOKCTX', 'abbreviation.tokenizer.literal', 'stop conditions of the literal scanner: the active quote, $, allowed operators, allowed space / repeater, quotes and brackets outside text')
    check_table(p, res, 'DEC-TOKCTX', 'abbreviation.tokenizer.tokenize', 'quote and bracket context is updated for every token; anything unknown raises at its position')
    res.require_floor(500)


# ------------------------------------------------------------- PIN-WRAPTEXT
def _cmp_atoms(conds):
    """normalise integer comparison atoms of a path:  {(expr, op, other)} with op in <,<=,==,!= and `a > b` turned into `b < a`"""
    out = set()
    for src, pol in conds:
        try:
            e = ast.parse(src.split(STALE)[0], mode='eval').body
        except SyntaxError:
            continue
        if isinstance(e, ast.Compare) and len(e.ops) == 1:
            l, r, op = src_of(e.left), src_of(e.comparators[0]), type(e.ops[0])
            if not pol:
                op = {ast.Lt: ast.GtE, ast.GtE: ast.Lt, ast.Gt: ast.LtE, ast.LtE: ast.Gt, ast.Eq: ast.NotEq, ast.NotEq: ast.Eq, ast.Is: ast.IsNot, ast.IsNot: ast.Is}.get(op)
            if op in (ast.Gt, ast.GtE):
                l, r, op = r, l, {ast.Gt: ast.Lt, ast.GtE: ast.LtE}[op]
            if op is not None:
                out.add((l, {ast.Lt: '<', ast.LtE: '<=', ast.Eq: '==', ast.NotEq: '!=', ast.Is: 'is', ast.IsNot: 'is not'}.get(op, '?'), r))
        else:
            out.add((src_of(e), 'true' if pol else 'false', ''))
    return out


@rule('PIN-WRAPTEXT', 'N', 'wrap text: sources of the inserted text and the search for the closest implicit repeater')
def pin_wraptext(p, res):
    from .. import shape, sympath
    from ..pattern import match_expr, match_stmt
    cv = p.func('abbreviation.convert.convert')
    T = "params.get('text')" if cv.params[1:2] == ['params'] else None
    try:
        cpaths = sympath.feasible(sympath.summaries(p, cv, inline=True, select=lambda call, g: g.name not in ('insert_text', 'deepest_node', 'insert_href')))
    except sympath.Unsupported as e:
        cpaths = []
        res.undecided('convert()', str(e))
    n_ins = 0
    for q in cpaths if T else []:
        for sym, n, conds in q.events:
            if not (isinstance(n, ast.Call) and src_of(n.func) == 'insert_text' and len(n.args) == 2):
                continue
            n_ins += 1
            tx = sympath.unsnap(n.args[1], q.snaps)
            cd = {sympath.unsnap(ast.parse(a.split(STALE)[0], mode='eval').body, q.snaps): pol for a, pol in conds}
            cd = {src_of(k): v for k, v in cd.items()}
            islist = cd.get('isinstance(%s, list)' % T)
            if islist is True:
                b = match_expr("'\\n'.join($t).strip()", tx)
                j = [m for m in ast.walk(tx) if isinstance(m, ast.Call) and isinstance(m.func, ast.Attribute) and m.func.attr == 'join' and m.args]
                if b is not None and src_of(b['t']) == T:
                    res.ok("whole-text insertion joins the original lines: '\\n'.join(text).strip()")
                elif j and 'clean_text' in src_of(j[0].args[0]):
                    res.bad(F('PIN-WRAPTEXT', cv, cv.node, 'insert_text(.., %s)' % src_of(tx), 'without an implicit repeater the whole supplied text (all lines, blank ones included) is inserted once; this joins the blank-stripped lines'))
                elif j and isinstance(j[0].func.value, ast.Constant) and j[0].func.value.value != '\n':
                    res.bad(F('PIN-WRAPTEXT', cv, cv.node, 'insert_text(.., %s)' % src_of(tx), 'the supplied lines are joined by a newline'))
                else:
                    res.undecided('insert_text(.., %s)' % src_of(tx), 'whole-text expression (list) not recognised')
            elif islist is False:
                if src_of(tx) in ("%s.strip() or ''" % T, '%s.strip()' % T) or (src_of(tx) == "''" and cd.get('%s.strip()' % T) is False):
                    res.ok('string text is inserted trimmed')
                else:
                    res.undecided('insert_text(.., %s)' % src_of(tx), 'whole-text expression (string) not recognised')
            else:
                res.undecided('insert_text(.., %s)' % src_of(tx), 'insertion does not depend on isinstance(text, list)')
            given = cd.get(T + ' is not None') is True or cd.get(T + ' is None') is False
            once = any(k.endswith('._text_inserted') and v is False for k, v in cd.items())
            if given and once:
                res.ok('inserted once into the deepest last element when no implicit repeater consumed it')
            elif cd.get(T) is True and not given:
                res.bad(F('PIN-WRAPTEXT', cv, cv.node, 'if %s' % T, "the text is inserted when it is truthy, not when it was given: an empty wrap text ('' or []) is skipped although it was supplied"))
            elif given and not once:
                res.bad(F('PIN-WRAPTEXT', cv, cv.node, 'insert_text(.., %s) [%s]' % (src_of(tx), q.cond_str()), 'the whole text is inserted even when an implicit repeater already consumed it (text appears twice)'))
            else:
                res.undecided('guard of the whole-text insertion', 'text is not None and not state._text_inserted')
    if T is None or not n_ins:
        res.undecided('convert(): insertion of the whole text', 'no path calls insert_text')
    st = p.cls('abbreviation.convert.ConvertState')
    init = st.methods['__init__']
    tparam = init.params[1] if len(init.params) > 1 else 'text'
    try:
        ipaths = sympath.feasible(sympath.summaries(p, init, inline=True))
    except sympath.Unsupported as e:
        ipaths = []
    seen = 0
    for q in ipaths:
        for tgt, val, conds in q.stores:
            if src_of(tgt) != 'self.clean_text':
                continue
            seen += 1
            islist = dict(conds).get('isinstance(%s, list)' % tparam)
            if islist is True:
                b = match_expr('[$l for $l in %s if $l.strip()]' % tparam, val)
                if b is not None:
                    res.ok('clean_text = non-blank lines (for a list)')
                elif src_of(val) == tparam:
                    res.bad(F('PIN-WRAPTEXT', init, init.node, 'self.clean_text = %s' % src_of(val), 'implicit repeaters count the non-blank lines: blank lines must be filtered out'))
                elif isinstance(val, ast.ListComp) and not val.generators[0].ifs:
                    res.bad(F('PIN-WRAPTEXT', init, init.node, 'self.clean_text = %s' % src_of(val), 'implicit repeaters count the non-blank lines: blank lines must be filtered out'))
                else:
                    res.undecided('self.clean_text = %s' % src_of(val), 'non-blank line filter not recognised')
            elif islist is False:
                if src_of(val) == tparam:
                    res.ok('clean_text = text (for a string)')
                else:
                    res.undecided('self.clean_text = %s' % src_of(val), 'string case')
            else:
                res.undecided('self.clean_text = %s' % src_of(val), 'assignment does not depend on isinstance(text, list)')
    if not seen:
        res.undecided('ConvertState.clean_text', 'no store found')
    # get_text(i): for a list, every i in 0..len(clean)-1 (0 included) yields clean_text[i].strip()
    gt = st.methods['get_text']
    pos = gt.params[1] if len(gt.params) > 1 else 'pos'
    try:
        gpaths = sympath.feasible(sympath.summaries(p, gt, inline=True))
    except sympath.Unsupported:
        gpaths = []
    line = [q for q in gpaths if q.ret is not None and match_expr('self.clean_text[%s].strip()' % pos, q.ret) is not None]
    if not line:
        res.undecided('get_text', 'no path returns clean_text[pos].strip()')
    for q in line:
        atoms = _cmp_atoms(q.conds)
        want = {('isinstance(self.text, list)', 'true', ''), (pos, 'is not', 'None'), ('0', '<=', pos), (pos, '<', 'len(self.clean_text)')}
        extra = atoms - want
        missing = want - atoms
        if not extra and not missing:
            res.ok('get_text(i) = i-th non-blank line, trimmed (index 0 included)')
        elif (pos, 'true', '') in extra:
            res.bad(F('PIN-WRAPTEXT', gt, gt.node, q.cond_str(), 'line i (0 included) of the non-blank lines, trimmed: the guard tests the truthiness of the index, so line 0 is taken from the raw text instead'))
        elif missing & {('0', '<=', pos), (pos, '<', 'len(self.clean_text)')} and not extra:
            res.bad(F('PIN-WRAPTEXT', gt, gt.node, q.cond_str(), 'clean_text is indexed without the range check `0 <= pos < len(clean_text)`: IndexError / wrong line for a surplus copy'))
        else:
            res.undecided('get_text guard: %s' % q.cond_str(), 'expected: list text, pos is not None, 0 <= pos < len(clean_text)')
    from .tablecheck import check_table
    check_table(p, res, 'PIN-WRAPTEXT', 'abbreviation.convert.insert_text', 'text is appended to a trailing string of the node value, added as a new piece after a field, or becomes the value of an empty node')
    check_table(p, res, 'PIN-WRAPTEXT', 'abbreviation.convert.deepest_node', 'the deepest node is the last child chain; a node without children is its own deepest node')
    check_table(p, res, 'PIN-WRAPTEXT', 'abbreviation.convert.insert_href', 'wrapping a URL / e-mail fills an empty href of <a>')
    check_table(p, res, 'PIN-WRAPTEXT', 'abbreviation.convert.attach_repeater', 'the group repeater is handed to every produced node that has none')
    check_table(p, res, 'PIN-WRAPTEXT', 'abbreviation.convert.clone_repeater', 'a running repeater is a copy of the written one (count, value, implicit)')
    cs = p.func('abbreviation.convert.convert_statement')
    VS = shape.View(p, cs, keep=('insert_text', 'deepest_node'))
    if VS.find_stmt('$r.count = len($s.clean_text) if $r.implicit and isinstance($s.text, list) else $r.count or 1'):
        res.ok('implicit repeater: one copy per non-blank line')
    else:
        res.undecided('implicit repeater count', 'len(clean_text) for implicit repeaters over a list, else count or 1')
    it = [c for c in VS.calls('insert_text') if len(c.args) == 2]
    if len(it) == 1 and match_expr('$s.get_text($r.value)', it[0].args[1]) is not None:
        res.ok('line i goes into copy i: insert_text(deepest, state.get_text(repeat.value))')
    else:
        res.undecided('insert_text in the copy loop', 'insert_text(deepest, state.get_text(repeat.value))')
    # closest implicit repeater: the search runs over all repeaters, innermost first, and stops only at an implicit one
    rp = p.func('abbreviation.stringify.RepeaterPlaceholder')
    VR = shape.View(p, rp)
    loops = [n for n in VR.nodes if isinstance(n, ast.For)]
    searches = loops + [n for n in VR.nodes if isinstance(n, (ast.GeneratorExp, ast.ListComp))
                        or (isinstance(n, ast.Call) and isinstance(n.func, ast.Name) and n.func.id in ('next', 'filter', 'reversed', 'some', 'find_index'))]
    tops = [n for n in VR.nodes if isinstance(n, ast.Subscript) and src_of(n.value).endswith('.repeaters') and isinstance(n.slice, ast.UnaryOp)
            and isinstance(n.slice.op, ast.USub) and isinstance(n.slice.operand, ast.Constant) and n.slice.operand.value == 1]
    if not searches and tops:
        # no search at all: only the top of the repeater stack is looked at
        res.bad(F('PIN-WRAPTEXT', rp, tops[0], src_of(VR.stmt_of(tops[0])).split('\n')[0],
                  '$# takes its text from the *closest implicit* repeater, which need not be the innermost one: here only the top of the stack is looked at, so a $# below an explicit *N that is itself inside the implicit repeater (ul>li*>p*2{$#}) gets the whole text instead of its line'))
    elif len(loops) != 1:
        res.undecided('RepeaterPlaceholder', 'one search loop expected')
    else:
        lp = loops[0]
        lv = src_of(lp.target)
        brk = [x for x in ast.walk(lp) if isinstance(x, ast.Break)]
        stray = [x for x in brk if ('%s.implicit' % lv, True) not in VR.facts(x, expand_defs=False)]
        if brk and not stray:
            res.ok('$#: loop over all repeaters, break only inside `if r.implicit`')
        elif stray:
            res.bad(F('PIN-WRAPTEXT', rp, stray[0], src_of(lp).replace('\n', ' ; '),
                      '$# takes the text of the closest *implicit* repeater: the search must continue past explicit repeaters (break only when r.implicit)'))
        else:
            res.undecided(src_of(lp).replace('\n', ' ; '), 'search loop not recognised')
        its = VR.x(lp.iter)
        rev_call = any(isinstance(n, ast.Call) and isinstance(n.func, ast.Attribute) and n.func.attr == 'reverse' and src_of(n.func.value) == src_of(lp.iter) for n in VR.nodes)
        if its == 'reversed(state.repeaters)' or (its in ('state.repeaters[:]', 'list(state.repeaters)', 'state.repeaters.copy()') and rev_call) or its == 'state.repeaters[::-1]':
            res.ok('search order: innermost repeater first')
        elif its in ('state.repeaters', 'state.repeaters[:]', 'list(state.repeaters)') and not rev_call:
            res.bad(F('PIN-WRAPTEXT', rp, lp, 'for %s in %s' % (lv, its), 'the closest implicit repeater is wanted: the search must go innermost first'))
        elif its == 'state.repeaters' and rev_call:
            res.bad(F('PIN-WRAPTEXT', rp, lp, 'state.repeaters.reverse()', 'the shared repeater stack is reversed in place'))
        else:
            res.undecided('for %s in %s' % (lv, its), 'order of the repeater search')
    # the parse options: maxRepeat plumbing is exact
    mp = p.func('markup.parse')
    VM = shape.View(p, mp)
    mr = None
    for dd in [n for n in VM.nodes if isinstance(n, ast.Dict)]:
        for k, v in zip(dd.keys, dd.values):
            if k is not None and p.try_const(mp, k) == 'max_repeat':
                mr = v
    mrs = VM.x(mr) if mr is not None else None
    if mrs == "config.get('maxRepeat') or config.get('max_repeat')":
        res.ok("max_repeat = config.get('maxRepeat') or config.get('max_repeat') (no second default)")
    elif mr is not None and isinstance(VM.xe(mr), ast.BoolOp) and isinstance(VM.xe(mr).op, ast.Or) and \
            any(isinstance(p.try_const(mp, x), int) and not isinstance(p.try_const(mp, x), bool) for x in VM.xe(mr).values):
        res.bad(F('PIN-WRAPTEXT', mp, mr, "'max_repeat': %s" % mrs,
                  'the repeat limit must be passed through unchanged; the only default lives in ConvertState (a second default silently caps large abbreviations)'))
    elif mr is not None and 'maxRepeat' not in mrs:
        res.bad(F('PIN-WRAPTEXT', mp, mr, "'max_repeat': %s" % mrs, 'the documented option maxRepeat no longer reaches the converter'))
    else:
        res.undecided("'max_repeat': %s" % mrs, 'maxRepeat plumbing not recognised')
    res.require_floor(8)


# --------------------------------------------------------------- SIB-ESCAPE
@rule('SIB-ESCAPE', 'N', 'string scanners consume the escape character and, unconditionally, the character after it')
def sib_escape(p, res):
    from .tablecheck import check_table
    check_table(p, res, 'SIB-ESCAPE', 'scanner_utils.eat_quoted', 'inside a quoted string the character after an (optional) escape is skipped unconditionally; an unclosed string restores the position (or raises under `throws`)')
    check_table(p, res, 'SIB-ESCAPE', 'css_matcher.scan.literal', 'inside a css string a backslash skips the next character unconditionally')
    check_table(p, res, 'SIB-ESCAPE', 'scanner_utils.eat_pair', 'paired brackets ignore escaped characters and quoted strings; the nesting counter returns to zero exactly at the matching closer')
    check_table(p, res, 'SIB-ESCAPE', 'abbreviation.tokenizer.utils.escaped', 'a backslash makes exactly the next character literal (if there is one)')
    res.require_floor(4)


# ------------------------------------------------------------------ SIB-POP
@rule('SIB-HTMLSTACK', 'N', 'HTML entry points pop the open-tag stack only for a closing tag whose name matches the top, and all scan with the special-element table')
def sib_htmlstack(p, res):
    from .tablecheck import check_table

    def pop_detector(p, f):
        """a pop that no test on the name of the stack top guards"""
        from .. import shape
        v = shape.View(p, f, inline=False)
        nm = f.params[0] if f.params else 'name'
        for n in v.nodes:
            if isinstance(n, ast.Call) and isinstance(n.func, ast.Attribute) and n.func.attr == 'pop' and src_of(n.func.value) == 'stack':
                facts = v.facts(n)
                if not any(pol and ('.name == %s' % nm in fs or '%s == ' % nm in fs and '.name' in fs) for fs, pol in facts):
                    return n, src_of(v.stmt_of(n)), 'the stack is popped for a closing tag that does not match its top: a stray </x> unbalances every enclosing element (sibling entry points pop only on a name match)'
        return None

    def push_detector(p, f):
        from .. import shape
        v = shape.View(p, f, inline=False)
        for n in v.nodes:
            if isinstance(n, ast.Call) and isinstance(n.func, ast.Attribute) and n.func.attr == 'append' and src_of(n.func.value) == 'stack':
                # tests that decide whether this push happens while the scan goes on: enclosing tests and earlier guard clauses that
                # leave the callback without stopping the scan (a guard that returns False ends the scan: no later closing tag is seen)
                pm = p.parents(f)
                tests, x = [], n
                while x is not None and x is not f.node:
                    par = pm.get(x)
                    if isinstance(par, (ast.If, ast.While)) and x is not par.test:
                        tests.append(par.test)
                    for field in ('body', 'orelse'):
                        lst = getattr(par, field, None)
                        if isinstance(lst, list) and x in lst:
                            for g in lst[:lst.index(x)]:
                                if isinstance(g, ast.If) and g.body and isinstance(g.body[-1], ast.Return) and not g.orelse \
                                        and not (isinstance(g.body[-1].value, ast.Constant) and g.body[-1].value.value is False):
                                    tests.append(g.test)
                    x = par
                if any(isinstance(m, ast.Name) and m.id == 'pos' for t in tests for m in ast.walk(t)):
                    return n, src_of(v.stmt_of(n)), 'whether an opening tag is pushed depends on the position: its closing tag is still compared with the stack top and pairs with the wrong element'
        return None
    for fq in ('html_matcher.match.scan_callback', 'html_matcher.balanced_outward.scan_callback', 'html_matcher.balanced_inward.scan_callback'):
        check_table(p, res, 'SIB-HTMLSTACK', fq, 'open tags are pushed regardless of the position; a closing tag pops the stack only when its name matches the top',
                    detectors=(pop_detector, push_detector))
    # every scan of the html scanner receives the special table of a ScannerOptions object
    scan = p.func('html_matcher.scan.scan')
    for f, call in callgraph.get(p).callers_of(scan):
        a = call.args[2] if len(call.args) > 2 else None
        if a is not None and isinstance(a, ast.Attribute) and a.attr == 'special':
            t = p.type_of(f, a.value)
            if isinstance(t, Class) and t.name == 'ScannerOptions':
                res.ok('%s: scan(.., %s)' % (f.short, src_of(a)))
                continue
        res.bad(F('SIB-HTMLSTACK', f, call, src_of(call), 'the scan runs without the special-element table: markup-like text inside <script>/<style> is reported as tags (sibling entry points pass options.special)'))
    res.require_floor(8)


# -------------------------------------------------------------- PIN-EXTRACT
def _top_only_detector(p, f):
    """the pending-bracket context must be a membership test over the whole stack; a look at its top misses a pending
    ] or } below a pending parenthesis"""
    for n in f.body_nodes():
        if isinstance(n, ast.Compare) and any(isinstance(x, ast.Subscript) and src_of(x) in ('stack[-1]', 'stack[len(stack) - 1]') for x in ast.walk(n)) \
                and any(isinstance(x, ast.Attribute) and x.attr in ('SquareR', 'CurlyR') for x in ast.walk(n)):
            return n, src_of(n), 'inside an attribute set or text node (pending ] or } anywhere on the stack, also below a pending parenthesis) every character is accepted: the test must look at the whole stack, not only at its top'
    return None


def _filtered_update_detector(p, f):
    for n in f.body_nodes():
        if isinstance(n, ast.Call) and isinstance(n.func, ast.Attribute) and n.func.attr == 'update' and n.args:
            a = n.args[0]
            if isinstance(a, (ast.GeneratorExp, ast.DictComp, ast.ListComp)) and any(g.ifs for g in a.generators):
                return n, src_of(n), 'user options must be merged unfiltered: a filter on truthiness drops lookAhead=False / prefix=""'
    return None


@rule('PIN-EXTRACT', 'N', 'extract: bracket context tests look at the whole stack, user options are merged unfiltered, quotes are matched by kind')
def pin_extract(p, res):
    from .tablecheck import check_table
    check_table(p, res, 'PIN-EXTRACT', 'extract_abbreviation.extract_abbreviation',
                'backward scan of extract: text/attribute context by membership in the pending-closer stack, an opening bracket must match the most recent pending closer, a result requires balanced brackets and at least one consumed character',
                detectors=(_top_only_detector,))
    check_table(p, res, 'PIN-EXTRACT', 'extract_abbreviation.create_options', 'defaults (markup, lookAhead on, no prefix) updated with the user options, unfiltered', detectors=(_filtered_update_detector,))
    check_table(p, res, 'PIN-EXTRACT', 'extract_abbreviation.is_html.consume_quoted', 'a quoted attribute value is delimited by two quotes of the same kind, unless escaped')
    check_table(p, res, 'PIN-EXTRACT', 'extract_abbreviation.consume_list', 'a partial prefix match must not move the scanner')
    check_table(p, res, 'PIN-EXTRACT', 'extract_abbreviation.consume_pair', 'consume_pair restores the position unless a balanced pair was consumed')
    check_table(p, res, 'PIN-EXTRACT', 'extract_abbreviation.get_start_offset', 'the abbreviation starts right after the nearest prefix occurrence')
    check_table(p, res, 'PIN-EXTRACT', 'action_utils.utils.token_list', 'a token before white space spans start..end, the trailing token spans start..pos (also when it is one character long)')
    check_table(p, res, 'PIN-EXTRACT', 'action_utils.utils.push_range', 'empty and repeated ranges are not reported')
    guv = p.func('html_matcher.utils.get_unquoted_value')
    ev = MiniEval(p)
    for v, want in (('"a"', 'a'), ("'a'", 'a'), ('a', 'a'), ('"a', 'a'), ("a'", 'a'), ('"it\'s"', "it's"), ("'text/javascript'", 'text/javascript')):
        try:
            got = ev.call(guv, [v])
        except AnalysisError as e:
            res.undecided('get_unquoted_value(%r)' % v, str(e))
            continue
        if got != want:
            res.bad(F('PIN-EXTRACT', guv, guv.node, 'get_unquoted_value(%r) -> %r' % (v, got), 'one quote of either kind is trimmed at each end (expected %r)' % want))
        else:
            res.ok('get_unquoted_value(%r) == %r' % (v, want))
    res.require_floor(14)


# ------------------------------------------------------------ DEC-CHARCLASS
@rule('DEC-CHARCLASS', 'D', 'character class predicates, decided over all 256 Latin-1 characters and the empty string')
def dec_charclass(p, res):
    import string
    ev = MiniEval(p)
    letters = set(string.ascii_letters)
    digits = set(string.digits)
    chars = [chr(i) for i in range(256)] + ['']
    spec = {
        'scanner_utils.is_alpha': lambda c: c in letters,
        'scanner_utils.is_number': lambda c: c != '' and c.isdecimal(),
        'scanner_utils.is_alpha_numeric': lambda c: c in letters or (c != '' and c.isdecimal()),
        'scanner_utils.is_alpha_word': lambda c: c in letters or c == '_',
        'scanner_utils.is_alpha_numeric_word': lambda c: c in letters or c == '_' or (c != '' and c.isdecimal()),
        'scanner_utils.is_white_space': lambda c: c in (' ', '\t', '\xa0'),
        'scanner_utils.is_space': lambda c: c in (' ', '\t', '\xa0', '\n', '\r'),
        'scanner_utils.is_quote': lambda c: c in ('"', "'"),
        'css_abbreviation.tokenizer.is_hex': lambda c: c in digits or c in set('abcdefABCDEF') or (c != '' and c.isdecimal()),
        'css_abbreviation.tokenizer.is_keyword': lambda c: c in letters or c in ('_', '-') or (c != '' and c.isdecimal()),
        'css_abbreviation.tokenizer.is_literal': lambda c: c in letters or c in ('_', '%', '/'),
        'css_abbreviation.tokenizer.is_ident_prefix': lambda c: c in ('@', '$'),
        'css_abbreviation.tokenizer.is_bracket': lambda c: c in ('(', ')'),
        'abbreviation.tokenizer.is_element_name': lambda c: c in letters or c in ('_', '-', ':', '!') or (c != '' and c.isdecimal()),
        'html_matcher.utils.is_terminator': lambda c: c in ('>', '/'),
        'extract_abbreviation.is_html.is_ident': lambda c: c in letters or c in (':', '-') or (c != '' and c.isdecimal()),
        'extract_abbreviation.is_html.is_white_space': lambda c: c in (' ', '\t'),
        'markup.format.template.is_token_start': lambda c: c != '' and 'A' <= c <= 'Z',
        'markup.format.template.is_token': lambda c: c != '' and ('A' <= c <= 'Z' or c in ('_', '-') or '0' <= c <= '9'),
        'math_expression.parser.is_operator': lambda c: c in ('+', '-', '*', '/', '\\'),
        'math_expression.parser.is_sign': lambda c: c in ('+', '-'),
        'math_expression.parser.is_positive_sign': lambda c: c == '+',
        'math_expression.parser.is_negative_sign': lambda c: c == '-',
        'html_matcher.utils.is_unquoted': lambda c: c != '' and c not in ('"', "'", ' ', '\t', '\xa0', '\n', '\r', '>', '/'),
        'extract_abbreviation.is_html.is_unquoted_value': lambda c: c != '' and c not in ('=', ' ', '\t', '"', "'"),
        'extract_abbreviation.is_html.is_open_bracket': lambda c: c in ('{', '(', '['),
        'extract_abbreviation.is_html.is_close_bracket': lambda c: c in ('}', ')', ']'),
        # `ch in <string constant>`: the empty look-ahead sentinel is "in" every string (callers test for it first)
        'extract_abbreviation.is_abbreviation': lambda c: c == '' or c in letters or c.isdecimal() or c in '#.*:$-_!@%^+>/',
        'css_matcher.parse.is_operator': lambda c: c == '' or c in '+/*,',
    }
    for fq, want in spec.items():
        f = p.func(fq)
        bad = []
        for c in chars:
            got = bool(ev.call(f, [c]))
            if got != bool(want(c)):
                bad.append(c)
        def unconvertible(c):
            try:
                float(c)
                return False
            except ValueError:
                return True
        if bad and fq in ('scanner_utils.is_number', 'scanner_utils.is_alpha_numeric') and any(not want(c) and not c.isalpha() and unconvertible(c) for c in bad if c != ''):
            # what the digit class accepts is handed to int() / float(): a character they cannot convert raises ValueError
            wrong = [c for c in bad if c != '' and not want(c) and unconvertible(c)]
            res.bad(F('DEC-CHARCLASS', f, f.node, '%s(%r) -> True' % (f.name, wrong[0]),
                      'the digit class accepts %d character(s) that int() / float() cannot convert, e.g. %r: scanned numbers are converted without a guard (ValueError instead of the documented error)' % (len(wrong), wrong[:6])))
        elif bad and all(c != '' and ord(c) >= 128 and not want(c) for c in bad):
            # only characters outside ASCII, and only *added* to the class: input that was rejected (outside the documented, ASCII
            # grammar) is accepted now -- an extension, not a change of what the class decides inside the grammar
            res.undecided('%s: %d non-ASCII character(s) added to the class, e.g. %r' % (f.short, len(bad), bad[:6]),
                          'the documented grammar is ASCII; whether the extension is consistent with the sibling classes is not decided')
        elif bad:
            res.bad(F('DEC-CHARCLASS', f, f.node, '%s(%r) -> %r' % (f.name, bad[0], not want(bad[0])),
                      'character class changed for %d character(s), e.g. %r' % (len(bad), bad[:6])))
        else:
            res.ok('%s decided over 257 inputs' % f.short)
    # two-argument brace predicates of the abbreviation extractor, per syntax type
    for fq, table in (('extract_abbreviation.is_open_brace', {'markup': ('(', '[', '{'), 'stylesheet': ('(',)}),
                      ('extract_abbreviation.is_close_brace', {'markup': (')', ']', '}'), 'stylesheet': (')',)})):
        f = p.func(fq)
        for syntax, yes in table.items():
            bad = [c for c in chars if bool(ev.call(f, [c, syntax])) != (c in yes)]
            if bad:
                res.bad(F('DEC-CHARCLASS', f, f.node, '%s(%r, %r) -> %r' % (f.name, bad[0], syntax, bad[0] not in yes),
                          'bracket class changed for %d character(s) in %s abbreviations, e.g. %r' % (len(bad), syntax, bad[:6])))
            else:
                res.ok('%s(%s) decided over 257 inputs' % (f.short, syntax))
    res.require_floor(18)


# ----------------------------------------------------------- OWN-CACHEUSE
@rule('OWN-CACHEUSE', 'D', 'the host-supplied cache dict is touched only by the stylesheet snippet conversion, under its one constant key')
def own_cacheuse(p, res):
    cfg = p.cls('config.Config')
    for f in p.funcs.values():
        for n in f.body_nodes():
            if isinstance(n, ast.Attribute) and n.attr == 'cache':
                t = p.type_of(f, n.value)
                is_cfg = (isinstance(t, Class) and t is cfg) or src_of(n.value) in ('config', 'self') and (f.cls is cfg or 'config' in f.params)
                if not is_cfg:
                    continue
                # the stylesheet snippet conversion: stylesheet.parse and the helpers it was split into (same module)
                if f.qualname == 'emmet.config.Config.__init__' or (f.module.name == 'emmet.stylesheet' and f.cls is None):
                    res.ok('%s: %s' % (f.short, src_of(p.enclosing_stmt(f, n)).split('\n')[0][:70]))
                else:
                    res.bad(F('OWN-CACHEUSE', f, n, src_of(p.enclosing_stmt(f, n)).split('\n')[0],
                              'the caller\'s cache is used outside the stylesheet snippet conversion: whatever is stored there is shared between calls and must never be handed out for mutation'))
            if isinstance(n, ast.Call) and isinstance(n.func, ast.Attribute) and n.func.attr == 'get' and n.args and p.try_const(f, n.args[0]) == 'cache' \
                    and f.qualname != 'emmet.config.Config.__init__':
                res.bad(F('OWN-CACHEUSE', f, n, src_of(n), 'the cache entry of the user config is read outside Config.__init__'))
    # memoisation decorators / module-level memo tables
    for m in p.modules.values():
        for n in ast.walk(m.tree):
            if isinstance(n, ast.FunctionDef) and n.decorator_list:
                for d in n.decorator_list:
                    if 'cache' in src_of(d) or 'memo' in src_of(d).lower():
                        res.bad(Finding('OWN-CACHEUSE', m.relpath, m.name[6:] + '.' + n.name, '@' + src_of(d), 'memoising decorator: results (mutable objects) are shared between calls and configurations', n.lineno))
    res.require_floor(4)
