"""TAB-* : table agreement.  Constants are read from the syntax tree, never
imported; decision tables of small pure helpers are extracted with minieval."""
import ast

from . import rule
from ..core import AnalysisError, src_of, Class
from ..report import Finding
from ..minieval import MiniEval, Rec


def _dict_display(project, modq, name):
    m, node = project.module_const(modq, name)
    return m, node


def _const(project, modq, name):
    m, node = project.module_const(modq, name)
    try:
        return m, node, project.const_value(m, node)
    except (ValueError, TypeError) as e:
        raise AnalysisError('%s.%s is no longer a literal table (%s)' % (m.name, name, e))


def F(rule_name, m, fn, node, construct, message, **kw):
    return Finding(rule_name, m.relpath, fn, construct, message, getattr(node, 'lineno', 0), **kw)


# ------------------------------------------------------------------ TAB-OPS
@rule('TAB-OPS', 'D', 'operator characters, token kinds, parser tests and printed characters agree')
def tab_ops(p, res):
    tm, tnode, types = _const(p, 'abbreviation.tokenizer', 'OPERATOR_TYPES')
    sm, snode, ops = _const(p, 'abbreviation.stringify', 'operators')
    expected = {'>': 'child', '+': 'sibling', '^': 'climb', '.': 'class', '#': 'id', '/': 'close', '=': 'equal'}
    for ch, kind in expected.items():
        if types.get(ch) != kind:
            res.bad(F('TAB-OPS', tm, 'abbreviation.tokenizer.OPERATOR_TYPES', tnode, 'OPERATOR_TYPES[%r]' % ch,
                      'character %r must tokenize as operator kind %r, table says %r' % (ch, kind, types.get(ch))))
        else:
            res.ok('OPERATOR_TYPES[%r] == %r' % (ch, kind))
    for ch in types:
        if ch not in expected:
            res.bad(F('TAB-OPS', tm, 'abbreviation.tokenizer.OPERATOR_TYPES', tnode, 'OPERATOR_TYPES[%r]' % ch,
                      'character %r is not an operator of the documented grammar' % ch))
    # printed character inverts the tokenizer table
    for ch, kind in types.items():
        back = ops.get(kind)
        if back != ch:
            res.bad(F('TAB-OPS', sm, 'abbreviation.stringify.operators', snode, 'operators[%r]' % kind,
                      'operator %r (kind %r) inside text/attribute values is printed as %r' % (ch, kind, back)))
        else:
            res.ok('operators[OPERATOR_TYPES[%r]] == %r' % (ch, ch))
    # visitor returns the table entry for the token's kind
    vis = p.func('abbreviation.stringify.Operator')
    rets = [n for n in vis.body_nodes() if isinstance(n, ast.Return)]
    okv = False
    if len(rets) == 1 and isinstance(rets[0].value, (ast.Call, ast.Subscript)):
        v = rets[0].value
        s = src_of(v)
        if s in ('operators.get(token.operator)', 'operators[token.operator]'):
            okv = True
    if okv:
        res.ok('Operator visitor returns operators[token.operator]')
    else:
        ev = MiniEval(p)
        for ch, kind in types.items():
            got = ev.call(vis, [Rec(operator=kind), None])
            if got != ch:
                res.bad(F('TAB-OPS', sm, 'abbreviation.stringify.Operator', vis.node, 'Operator(kind=%r)' % kind,
                          'operator token of kind %r is printed as %r, expected %r' % (kind, got, ch)))
            else:
                res.ok()
    # kinds tested by the parser exist
    pm = p.module('abbreviation.parser')
    kinds = set(types.values())
    n = 0
    for f in p.find_funcs('abbreviation.parser'):
        for c in f.body_nodes():
            if isinstance(c, ast.Call) and isinstance(c.func, ast.Name) and c.func.id == 'is_operator' and len(c.args) >= 2:
                k = p.try_const(f, c.args[1])
                if k is None:
                    if isinstance(c.args[1], ast.Name):   # pass-through parameter (short_attribute)
                        continue
                    raise AnalysisError('TAB-OPS: non-constant operator kind in %s' % src_of(c))
                n += 1
                if k not in kinds:
                    res.bad(F('TAB-OPS', pm, f.short, c, src_of(c), 'parser tests operator kind %r which the tokenizer never produces' % k))
                else:
                    res.ok('parser: ' + src_of(c))
            if isinstance(c, ast.Call) and isinstance(c.func, ast.Name) and c.func.id == 'short_attribute' and len(c.args) >= 2:
                k = p.try_const(f, c.args[1])
                if k is not None:
                    n += 1
                    if k not in kinds:
                        res.bad(F('TAB-OPS', pm, f.short, c, src_of(c), 'shorthand attribute kind %r is not a tokenizer operator kind' % k))
                    else:
                        res.ok('parser: ' + src_of(c))
    # role of each parser predicate: name -> kind as the grammar requires
    roles = {'is_child_operator': 'child', 'is_sibling_operator': 'sibling', 'is_climb_operator': 'climb',
             'is_close_operator': 'close', 'is_equals': 'equal', 'is_class_name_operator': 'class'}
    for fname, kind in roles.items():
        f = p.func('abbreviation.parser.' + fname)
        calls = [c for c in f.body_nodes() if isinstance(c, ast.Call) and isinstance(c.func, ast.Name) and c.func.id == 'is_operator']
        if len(calls) != 1 or len(calls[0].args) < 2:
            raise AnalysisError('TAB-OPS: unrecognised shape of %s' % f.short)
        k = p.try_const(f, calls[0].args[1])
        if k != kind:
            res.bad(F('TAB-OPS', pm, f.short, calls[0], src_of(calls[0]), '%s must test operator kind %r, tests %r' % (fname, kind, k)))
        else:
            res.ok('%s tests %r' % (fname, kind))
    res.require_floor(25)


# ------------------------------------------------------------------ TAB-BRK
@rule('TAB-BRK', 'D', 'the Bracket visitor prints exactly the character the tokenizer classified')
def tab_brk(p, res):
    ev = MiniEval(p)
    bt = p.func('abbreviation.tokenizer.bracket_type')
    ob = p.func('abbreviation.tokenizer.is_open_bracket')
    vis = p.func('abbreviation.stringify.Bracket')
    expected = {'(': ('group', True), ')': ('group', False), '[': ('attribute', True), ']': ('attribute', False),
                '{': ('expression', True), '}': ('expression', False)}
    for ch, (ctx, is_open) in expected.items():
        got_ctx = ev.call(bt, [ch])
        got_open = bool(ev.call(ob, [ch]))
        if (got_ctx, got_open) != (ctx, is_open):
            res.bad(F('TAB-BRK', bt.module, bt.short, bt.node, 'bracket_type(%r), is_open_bracket(%r)' % (ch, ch),
                      'bracket %r is classified as %r/open=%r, expected %r/open=%r' % (ch, got_ctx, got_open, ctx, is_open)))
            continue
        res.ok('bracket_type(%r) == %r, open=%r' % (ch, ctx, is_open))
        back = ev.call(vis, [Rec(context=got_ctx, open=got_open), None])
        if back != ch:
            res.bad(F('TAB-BRK', vis.module, vis.short, vis.node, 'Bracket(context=%r, open=%r)' % (got_ctx, got_open),
                      'bracket %r inside a value is printed as %r' % (ch, back),
                      failing_input='a[title=(x)]'))
        else:
            res.ok('Bracket(%r, open=%r) -> %r' % (got_ctx, got_open, ch))
    for ch in 'a1 <>"\'$*':
        if ev.call(bt, [ch]):
            res.bad(F('TAB-BRK', bt.module, bt.short, bt.node, 'bracket_type(%r)' % ch, 'non-bracket %r classified as bracket' % ch))
        else:
            res.ok()
    # the tokenizer's bracket() builds the token from these two helpers applied to the peeked character
    bf = p.func('abbreviation.tokenizer.bracket')
    ctor = [c for c in bf.body_nodes() if isinstance(c, ast.Call) and src_of(c.func) == 'tokens.Bracket']
    if len(ctor) != 1:
        raise AnalysisError('TAB-BRK: tokenizer.bracket no longer builds exactly one tokens.Bracket')
    a = ctor[0].args
    if len(a) < 2 or src_of(a[0]) != 'is_open_bracket(ch)' or src_of(a[1]) not in ('context', 'bracket_type(ch)'):
        raise AnalysisError('TAB-BRK: unrecognised arguments of tokens.Bracket(...) in tokenizer.bracket: %s' % src_of(ctor[0]))
    res.ok('tokens.Bracket(is_open_bracket(ch), bracket_type(ch), ..)')
    res.require_floor(20)


# ---------------------------------------------------------------- TAB-QUOTE
@rule('TAB-QUOTE', 'D', 'the Quote visitor prints the quote character that was tokenized')
def tab_quote(p, res):
    ev = MiniEval(p)
    qf = p.func('abbreviation.tokenizer.quote')
    vis = p.func('abbreviation.stringify.Quote')
    ctor = [c for c in qf.body_nodes() if isinstance(c, ast.Call) and src_of(c.func) == 'tokens.Quote']
    if len(ctor) != 1 or not ctor[0].args:
        raise AnalysisError('TAB-QUOTE: tokenizer.quote no longer builds exactly one tokens.Quote')
    single_expr = ctor[0].args[0]
    isq = p.func('scanner_utils.is_quote')
    for ch in ("'", '"'):
        if not ev.call(isq, [ch]):
            res.bad(F('TAB-QUOTE', isq.module, isq.short, isq.node, 'is_quote(%r)' % ch, '%r is not recognised as a quote' % ch))
            continue
        single = ev.eval(single_expr, {'ch': ch}, qf)
        back = ev.call(vis, [Rec(single=single), None])
        if back != ch:
            res.bad(F('TAB-QUOTE', vis.module, vis.short, vis.node, 'Quote(single=%r)' % single,
                      'quote %r inside text is printed as %r' % (ch, back)))
        else:
            res.ok('Quote(single=%r) -> %r' % (single, ch))
    for ch in ('a', '`', '', '('):
        if ev.call(isq, [ch]):
            res.bad(F('TAB-QUOTE', isq.module, isq.short, isq.node, 'is_quote(%r)' % ch, 'non-quote %r recognised as quote' % ch))
        else:
            res.ok()
    res.require_floor(6)


# ------------------------------------------------------------- TAB-KEYS-OPT
def declared_option_keys(p):
    cm = p.module('config')
    _, _, defaults = _const_lenient(p, cm, 'DEFAULT_OPTIONS')
    keys = set(defaults)
    m, node = p.module_const('config', 'SYNTAX_CONFIG')
    if not isinstance(node, ast.Dict):
        raise AnalysisError('SYNTAX_CONFIG is not a dict display')
    for k, v in zip(node.keys, node.values):
        if isinstance(v, ast.Dict):
            for kk, vv in zip(v.keys, v.values):
                if p.try_const(m, kk) == 'options' and isinstance(vv, ast.Dict):
                    for ok_ in vv.keys:
                        keys.add(p.const_value(m, ok_))
    return keys


def _const_lenient(p, m, name):
    """dict display whose values may be non-literal (lambdas): returns keys->value nodes."""
    mm, node = p.module_const(m.name, name)
    if not isinstance(node, ast.Dict):
        raise AnalysisError('%s.%s is not a dict display' % (m.name, name))
    out = {}
    for k, v in zip(node.keys, node.values):
        out[p.const_value(mm, k)] = v
    return mm, node, out


def _is_config_options(p, f, recv):
    """Is `recv` (receiver of .get / subscript) a Config options dict?"""
    if isinstance(recv, ast.Attribute) and recv.attr == 'options':
        t = p.type_of(f, recv.value)
        if isinstance(t, Class) and t.name in ('Config', 'OutputStream'):
            return True
        if isinstance(t, Class):
            return False
        # untyped receiver named config
        return src_of(recv.value).split('.')[-1] == 'config'
    if isinstance(recv, ast.Name):
        vals = p.local_assignments(f, recv.id) if recv.id in f.locals else []
        if len(vals) == 1 and vals[0] is not None and not isinstance(vals[0], ast.Name):
            return _is_config_options(p, f, vals[0])
    return False


def option_reads(p):
    """Yield (func, node, key-or-None, keyexpr) for every read of a Config option."""
    for f in p.funcs.values():
        for n in f.body_nodes():
            recv = keyexpr = None
            if isinstance(n, ast.Call) and isinstance(n.func, ast.Attribute) and n.func.attr == 'get' and n.args:
                recv, keyexpr = n.func.value, n.args[0]
            elif isinstance(n, ast.Subscript) and isinstance(n.ctx, ast.Load):
                recv, keyexpr = n.value, n.slice
            if recv is None or not _is_config_options(p, f, recv):
                continue
            keys = []
            k = p.try_const(f, keyexpr)
            if isinstance(k, str):
                keys = [k]
            elif isinstance(keyexpr, ast.Name) and keyexpr.id in f.locals:
                vals = p.local_assignments(f, keyexpr.id)
                for v in vals:
                    if isinstance(v, ast.IfExp):
                        for alt in (v.body, v.orelse):
                            kk = p.try_const(f, alt)
                            keys.append(kk if isinstance(kk, str) else None)
                    elif v is not None and isinstance(p.try_const(f, v), str):
                        keys.append(p.try_const(f, v))
                    else:
                        keys.append(None)
            else:
                keys = [None]
            for k in keys:
                yield f, n, k, keyexpr


@rule('TAB-KEYS-OPT', 'D', 'every option key the code reads is a declared option (defaults or a syntax layer)')
def tab_keys_opt(p, res):
    declared = declared_option_keys(p)
    unknown = 0
    seen = set()
    for f, n, k, keyexpr in option_reads(p):
        if k is None:
            unknown += 1
            continue
        seen.add(k)
        if k not in declared:
            res.bad(F('TAB-KEYS-OPT', f.module, f.short, n, src_of(n),
                      'option key %r is read but declared in no option table (defaults would never apply)' % k))
        else:
            res.ok('%s reads %r' % (f.short, k))
    res.stats['distinct_keys_read'] = len(seen)
    res.stats['non_constant_keys'] = unknown
    res.stats['declared'] = len(declared)
    # the keys the properties depend on must be declared with their documented defaults
    _, _, defaults = _const_lenient(p, p.module('config'), 'DEFAULT_OPTIONS')
    cm = p.module('config')
    need = {'output.format': True, 'output.indent': '\t', 'output.baseIndent': '', 'output.newline': '\n',
            'output.attributeQuotes': 'double', 'output.selfClosingStyle': 'html', 'output.compactBoolean': False,
            'output.reverseAttributes': False, 'output.inlineBreak': 3, 'output.formatLeafNode': False,
            'comment.enabled': False, 'bem.enabled': False, 'jsx.enabled': False,
            'stylesheet.shortHex': True, 'stylesheet.skipUnmatched': True, 'stylesheet.fuzzySearchMinScore': 0}
    for k, v in need.items():
        node = defaults.get(k)
        got = p.try_const(cm, node, default='<non-literal>') if node is not None else '<missing>'
        if got != v or type(got) is not type(v):
            res.bad(F('TAB-KEYS-OPT', cm, 'config.DEFAULT_OPTIONS', node or cm.tree, 'DEFAULT_OPTIONS[%r]' % k,
                      'documented default of %r is %r, table has %r' % (k, v, got)))
        else:
            res.ok('DEFAULT_OPTIONS[%r] == %r' % (k, v))
    res.require_floor(60)


# ----------------------------------------------------------- TAB-KEYS-PARSE
@rule('TAB-KEYS-PARSE', 'D', 'keys read from the parse-options dict are the keys markup.parse supplies')
def tab_keys_parse(p, res):
    from .. import shape
    mp = p.func('markup.parse')
    VM = shape.View(p, mp)
    supplied = None
    for c in VM.nodes:
        if isinstance(c, ast.Call) and len(c.args) == 2 and isinstance(VM.xe(c.args[1]), ast.Dict):
            tgt = p.resolve_call(mp, c)
            if isinstance(tgt, list) and tgt and tgt[0].qualname == 'emmet.abbreviation.parse':
                d = VM.xe(c.args[1])
                supplied = {p.const_value(mp, k): v for k, v in zip(d.keys, d.values)}
                call = c
    if supplied is None:
        raise AnalysisError('TAB-KEYS-PARSE: markup.parse no longer passes a dict display to abbreviation.parse')
    readers = [(p.func('abbreviation.convert.convert'), 'params')]
    for f in p.find_funcs('abbreviation.parser'):
        if 'options' in f.params:
            readers.append((f, 'options'))
    for f, pname in readers:
        for n in f.body_nodes():
            if isinstance(n, ast.Call) and isinstance(n.func, ast.Attribute) and n.func.attr == 'get' \
                    and isinstance(n.func.value, ast.Name) and n.func.value.id == pname and n.args:
                k = p.try_const(f, n.args[0])
                if not isinstance(k, str):
                    raise AnalysisError('TAB-KEYS-PARSE: non-constant key in %s' % src_of(n))
                if k not in supplied:
                    res.bad(F('TAB-KEYS-PARSE', f.module, f.short, n, src_of(n),
                              'parse option %r is read here but markup.parse supplies only %s' % (k, sorted(supplied))))
                else:
                    res.ok('%s reads %r' % (f.short, k))
            elif isinstance(n, ast.Subscript) and isinstance(n.value, ast.Name) and n.value.id == pname and pname in ('params',):
                raise AnalysisError('TAB-KEYS-PARSE: raw subscript on parse options in %s' % f.short)
    # provenance of the values that matter to C02/C04: max_repeat from config maxRepeat, text from config text
    checks = [('max_repeat', "config.get('maxRepeat')"), ('text', "config.get('text')"), ('variables', 'config.variables'),
              ('options', 'config.options'), ('jsx', "config.options.get('jsx.enabled')")]
    for key, want in checks:
        node = supplied.get(key)
        if node is None:
            res.bad(F('TAB-KEYS-PARSE', mp.module, mp.short, call, 'parse options key %r' % key, 'key %r is no longer supplied' % key))
            continue
        got = VM.x(node)
        if want in got:
            res.ok('%r: %s' % (key, got))
        elif not any(isinstance(x, ast.Call) and p.resolve_call(mp, x) not in (None,) and not isinstance(p.resolve_call(mp, x), tuple) for x in ast.walk(VM.xe(node))):
            # a plain expression over config that does not read the documented source
            res.bad(F('TAB-KEYS-PARSE', mp.module, mp.short, node, '%r: %s' % (key, got), 'parse option %r must be taken from %s' % (key, want)))
        else:
            res.undecided('%r: %s' % (key, got), 'provenance of parse option %r (expected %s)' % (key, want))
    res.require_floor(9)



def _dict_items(p, scope, e, depth=0):
    """{constant key: value node} of a dict-valued expression built from displays, dict(..) calls, copies, spreads and names bound
    once (a local of `scope` or a module-level table); None when it is not statically known"""
    if depth > 6 or e is None:
        return None
    if isinstance(e, ast.Dict):
        out = {}
        for k, v in zip(e.keys, e.values):
            if k is None:
                sub = _dict_items(p, scope, v, depth + 1)
                if sub is None:
                    return None
                out.update(sub)
            else:
                try:
                    out[p.const_value(scope, k)] = v
                except (ValueError, TypeError, KeyError):
                    return None
        return out
    if isinstance(e, ast.Call) and isinstance(e.func, ast.Name) and e.func.id == 'dict' and len(e.args) <= 1 and all(k.arg for k in e.keywords):
        out = {}
        if e.args:
            out = _dict_items(p, scope, e.args[0], depth + 1)
            if out is None:
                return None
            out = dict(out)
        for k in e.keywords:
            out[k.arg] = k.value
        return out
    if isinstance(e, ast.Call) and isinstance(e.func, ast.Attribute) and e.func.attr == 'copy' and not e.args and not e.keywords:
        return _dict_items(p, scope, e.func.value, depth + 1)
    if isinstance(e, ast.BinOp) and isinstance(e.op, ast.BitOr):
        a, b = _dict_items(p, scope, e.left, depth + 1), _dict_items(p, scope, e.right, depth + 1)
        if a is None or b is None:
            return None
        out = dict(a)
        out.update(b)
        return out
    if isinstance(e, ast.Name):
        from .idx import _is_local, _mutated_table
        if hasattr(scope, 'locals') and _is_local(scope, e.id):
            vals = p.local_assignments(scope, e.id)
            if len(vals) != 1 or vals[0] is None or e.id in scope.all_params():
                return None
            # the local must not be written through afterwards
            for n in scope.body_nodes():
                if isinstance(n, ast.Subscript) and isinstance(n.ctx, (ast.Store, ast.Del)) and isinstance(n.value, ast.Name) and n.value.id == e.id:
                    return None
                if isinstance(n, ast.Call) and isinstance(n.func, ast.Attribute) and isinstance(n.func.value, ast.Name) and n.func.value.id == e.id \
                        and n.func.attr in ('update', 'pop', 'popitem', 'clear', 'setdefault'):
                    return None
            return _dict_items(p, scope, vals[0], depth + 1)
        ent = p.resolve_name(scope, e.id)
        if ent is not None and ent.kind == 'const':
            m, nm, vals = ent.obj
            if len(vals) == 1 and vals[0] is not None and not _mutated_table(p, type('S', (), {'module': m})(), nm):
                return _dict_items(p, m, vals[0], depth + 1)
    return None


# --------------------------------------------------------- TAB-KEYS-PROFILE
@rule('TAB-KEYS-PROFILE', 'D', 'profile keys read by raw subscript exist in every indent-syntax profile')
def tab_keys_profile(p, res):
    profiles = {}
    for name in ('haml', 'pug', 'slim'):
        f = p.func('markup.format.' + name)
        d = None
        for c in f.body_nodes():
            if isinstance(c, ast.Call) and isinstance(c.func, ast.Name) and c.func.id == 'indent_format':
                for a in list(c.args[2:3]) + [k.value for k in c.keywords if k.arg in ('options', None)] + list(c.args):
                    d = _dict_items(p, f, a)
                    if d is not None:
                        break
        if d is None:
            raise AnalysisError('TAB-KEYS-PROFILE: %s no longer passes a statically known profile to indent_format' % name)
        profiles[name] = d
    mod = p.module('markup.format.indent_format')
    raw, soft = set(), set()
    for f in p.find_funcs('markup.format.indent_format'):
        for n in f.body_nodes():
            if isinstance(n, ast.Subscript) and isinstance(n.ctx, ast.Load) and src_of(n.value) in ('state.options', 'options'):
                k = p.try_const(f, n.slice)
                if isinstance(k, str):
                    raw.add(k)
                    for name, prof in profiles.items():
                        if k not in prof:
                            res.bad(F('TAB-KEYS-PROFILE', mod, f.short, n, src_of(n),
                                      'profile key %r is read by subscript but the %s profile does not define it (KeyError)' % (k, name)))
                        else:
                            res.ok('%s[%r] in %s' % (src_of(n.value), k, name))
            elif isinstance(n, ast.Call) and isinstance(n.func, ast.Attribute) and n.func.attr == 'get' and src_of(n.func.value) in ('state.options', 'options') and n.args:
                k = p.try_const(f, n.args[0])
                if isinstance(k, str):
                    soft.add(k)
    used = raw | soft
    for name, prof in profiles.items():
        for k in prof:
            if k not in used:
                res.bad(F('TAB-KEYS-PROFILE', p.module('markup.format'), 'markup.format.' + name, p.func('markup.format.' + name).node,
                          'profile key %r' % k, 'the %s profile defines %r but the indent formatter never reads it' % (name, k)))
            else:
                res.ok('%s profile key %r is read' % (name, k))
    # per-syntax punctuation the property documents
    want = {'haml': {'beforeName': '%', 'beforeAttribute': '(', 'afterAttribute': ')', 'glueAttribute': ' '},
            'pug': {'beforeAttribute': '(', 'afterAttribute': ')', 'glueAttribute': ', '},
            'slim': {'beforeAttribute': ' ', 'glueAttribute': ' '}}
    for name, kv in want.items():
        f = p.func('markup.format.' + name)
        for k, v in kv.items():
            got = p.try_const(f, profiles[name].get(k), default='<missing>') if profiles[name].get(k) is not None else '<missing>'
            if got != v:
                res.bad(F('TAB-KEYS-PROFILE', f.module, f.short, profiles[name].get(k) or f.node, '%s[%r]' % (name, k),
                          '%s punctuation %r must be %r, is %r' % (name, k, v, got)))
            else:
                res.ok('%s[%r] == %r' % (name, k, v))
    res.stats['raw_subscript_keys'] = sorted(raw)
    res.stats['soft_keys'] = sorted(soft)
    res.require_floor(20)


# ------------------------------------------------------------- TAB-IMPLICIT
@rule('TAB-IMPLICIT', 'D', 'implicit tag names: parent table, inline fallback span, default div')
def tab_implicit(p, res):
    m, node, table = _const(p, 'markup.implicit_tag', 'ELEMENT_MAP')
    pairs = {'ul': 'li', 'ol': 'li', 'table': 'tr', 'tbody': 'tr', 'thead': 'tr', 'tfoot': 'tr', 'tr': 'td',
             'select': 'option', 'optgroup': 'option', 'p': 'span'}
    for k, v in pairs.items():
        if table.get(k) != v:
            res.bad(F('TAB-IMPLICIT', m, 'markup.implicit_tag.ELEMENT_MAP', node, 'ELEMENT_MAP[%r]' % k,
                      'implicit child of <%s> must be <%s>, table says %r' % (k, v, table.get(k))))
        else:
            res.ok('ELEMENT_MAP[%r] == %r' % (k, v))
    for k in table:
        if k != k.lower():
            res.bad(F('TAB-IMPLICIT', m, 'markup.implicit_tag.ELEMENT_MAP', node, 'ELEMENT_MAP key %r' % k, 'key is not lower-case but the lookup key is lower-cased'))
    f = p.func('markup.implicit_tag.resolve_implicit_tag')
    # complete decision table over the documented parents (and a few others): extracted from the syntax tree
    node_cls = p.cls('abbreviation.convert.AbbreviationNode')
    abbr_cls = p.cls('abbreviation.convert.Abbreviation')
    cfg_cls = p.cls('config.Config')
    cm0 = p.module('config')
    _, _, dflt = _const_lenient(p, cm0, 'DEFAULT_OPTIONS')
    inline = p.try_const(cm0, dflt.get('inlineElements'), default=[])
    ev = MiniEval(p, hooks={'emmet.config.Config.get': lambda self, key: self.get(key)})
    parents = {'ul': 'li', 'ol': 'li', 'table': 'tr', 'tbody': 'tr', 'thead': 'tr', 'tfoot': 'tr', 'tr': 'td', 'select': 'option', 'optgroup': 'option',
               'p': 'span', 'span': 'span', 'a': 'span', 'em': 'span', 'strong': 'span', 'b': 'span', 'label': 'span',
               'div': 'div', 'section': 'div', 'li': 'div', 'td': 'div', 'body': 'div', 'UL': 'li', 'Table': 'tr', 'SPAN': 'span', None: 'div'}
    for parent, want in parents.items():
        for ctx_name in (None, 'ul'):
            node = Rec(__class__=node_cls, name=None, attributes=[1])
            root = Rec(__class__=abbr_cls, children=[])
            anc = [root] + ([Rec(__class__=node_cls, name=parent)] if parent is not None else [])
            cfg = Rec(__class__=cfg_cls, options={'inlineElements': inline}, context=({'name': ctx_name} if ctx_name else None))
            ev.call(f, [node, anc, cfg])
            exp = want
            if parent is None and ctx_name == 'ul':
                exp = 'li'          # no parent element: the editor context supplies the parent name
            if node['name'] != exp:
                res.bad(F('TAB-IMPLICIT', f.module, f.short, f.node, 'parent=%r context=%r -> %r' % (parent, ctx_name, node['name']),
                          'implicit name inside <%s> must be %r (table entry first, then span inside inline elements, div otherwise)' % (parent, exp)))
            else:
                res.ok('parent=%r context=%r -> %r' % (parent, ctx_name, exp))
    # the guard: only elements without a name but with attributes get an implicit name
    g = p.func('markup.implicit_tag.implicit_tag')
    ifs = [n for n in g.body_nodes() if isinstance(n, ast.If)]
    if len(ifs) == 1 and src_of(ifs[0].test) in ('not node.name and node.attributes', 'node.attributes and (not node.name)', 'node.attributes and not node.name'):
        res.ok('implicit_tag guard: ' + src_of(ifs[0].test))
    else:
        res.bad(F('TAB-IMPLICIT', g.module, g.short, g.node, src_of(ifs[0].test) if ifs else 'implicit_tag body',
                  'implicit names are given exactly to nodes without a name that have attributes'))
    # inline elements the property relies on
    cm = p.module('config')
    _, _, defaults = _const_lenient(p, cm, 'DEFAULT_OPTIONS')
    inl = p.try_const(cm, defaults.get('inlineElements'), default=[])
    for name in ('a', 'span', 'em', 'strong', 'b', 'i', 'label', 'small', 'code'):
        if name not in inl:
            res.bad(F('TAB-IMPLICIT', cm, 'config.DEFAULT_OPTIONS', defaults.get('inlineElements') or cm.tree, "inlineElements: %r" % name,
                      '<%s> is an inline element; implicit children inside it must become <span>' % name))
        else:
            res.ok('%r is inline' % name)
    for name in ('div', 'p', 'ul', 'table', 'section', 'li', 'td'):
        if name in inl:
            res.bad(F('TAB-IMPLICIT', cm, 'config.DEFAULT_OPTIONS', defaults.get('inlineElements'), "inlineElements: %r" % name,
                      '<%s> is a block element' % name))
        else:
            res.ok()
    res.require_floor(60)


# ---------------------------------------------------------------- TAB-UNITS
@rule('TAB-UNITS', 'D', 'unit aliases, default units and per-syntax separators are the documented ones')
def tab_units(p, res):
    cm = p.module('config')
    _, _, defaults = _const_lenient(p, cm, 'DEFAULT_OPTIONS')

    def chk(key, want, where='DEFAULT_OPTIONS'):
        node = defaults.get(key)
        got = p.try_const(cm, node, default='<non-literal>') if node is not None else '<missing>'
        if got != want:
            res.bad(F('TAB-UNITS', cm, 'config.DEFAULT_OPTIONS', node or cm.tree, '%s[%r]' % (where, key),
                      '%r must be %r, table has %r' % (key, want, got)))
        else:
            res.ok('%s[%r] == %r' % (where, key, want))
    chk('stylesheet.unitAliases', {'e': 'em', 'p': '%', 'x': 'ex', 'r': 'rem'})
    chk('stylesheet.intUnit', 'px')
    chk('stylesheet.floatUnit', 'em')
    chk('stylesheet.between', ': ')
    chk('stylesheet.after', ';')
    unitless = p.try_const(cm, defaults.get('stylesheet.unitless'), default=[])
    for name in ('z-index', 'line-height', 'opacity', 'font-weight', 'zoom', 'flex', 'flex-grow', 'flex-shrink'):
        if name not in unitless:
            res.bad(F('TAB-UNITS', cm, 'config.DEFAULT_OPTIONS', defaults.get('stylesheet.unitless') or cm.tree,
                      "stylesheet.unitless: %r" % name, '%s is a unitless property' % name))
        else:
            res.ok('%r unitless' % name)
    for name in ('width', 'margin', 'padding', 'height', 'top', 'font-size'):
        if name in unitless:
            res.bad(F('TAB-UNITS', cm, 'config.DEFAULT_OPTIONS', defaults.get('stylesheet.unitless'), "stylesheet.unitless: %r" % name,
                      '%s takes units' % name))
        else:
            res.ok()
    m, node, syn = _const_syntax(p)
    want = {'sass': {'stylesheet.after': ''}, 'stylus': {'stylesheet.between': ' ', 'stylesheet.after': ''}}
    for s, kv in want.items():
        opts = syn.get(s, {}).get('options', {})
        for k, v in kv.items():
            if opts.get(k, '<missing>') != v:
                res.bad(F('TAB-UNITS', m, 'config.SYNTAX_CONFIG', node, 'SYNTAX_CONFIG[%r][options][%r]' % (s, k),
                          '%s output convention: %r must be %r, is %r' % (s, k, v, opts.get(k, '<missing>'))))
            else:
                res.ok('SYNTAX_CONFIG[%r][%r] == %r' % (s, k, v))
    for s in ('css', 'scss', 'less'):
        opts = syn.get(s, {}).get('options', {})
        for k in ('stylesheet.between', 'stylesheet.after', 'stylesheet.intUnit', 'stylesheet.floatUnit'):
            if k in opts:
                res.bad(F('TAB-UNITS', m, 'config.SYNTAX_CONFIG', node, 'SYNTAX_CONFIG[%r][options][%r]' % (s, k),
                          '%s uses the default css conventions' % s))
            else:
                res.ok()
    res.require_floor(25)


def _const_syntax(p):
    """SYNTAX_CONFIG with non-literal leaves (snippet tables) replaced by their name."""
    m, node = p.module_const('config', 'SYNTAX_CONFIG')
    if not isinstance(node, ast.Dict):
        raise AnalysisError('SYNTAX_CONFIG is not a dict display')

    def conv(n):
        if isinstance(n, ast.Dict):
            return {p.const_value(m, k): conv(v) for k, v in zip(n.keys, n.values)}
        try:
            return p.const_value(m, n)
        except (ValueError, TypeError):
            return '<%s>' % src_of(n)
    return m, node, conv(node)


# ------------------------------------------------------------- TAB-SNIPKEYS
def snippet_table(p, modq):
    m, node = p.module_const(modq, 'snippets')
    if not isinstance(node, ast.Dict):
        raise AnalysisError('%s.snippets is not a dict display' % m.name)
    entries = []
    for k, v in zip(node.keys, node.values):
        entries.append((p.const_value(m, k), p.const_value(m, v), k))
    return m, node, entries


@rule('TAB-SNIPKEYS', 'D', 'after | expansion no snippet key repeats (also ignoring case) in any built-in table')
def tab_snipkeys(p, res):
    for modq in ('snippets.css', 'snippets.html', 'snippets.xsl', 'snippets.pug'):
        m, node, entries = snippet_table(p, modq)
        seen, seen_ci, raw = {}, {}, set()
        for key, val, knode in entries:
            if key in raw:
                res.bad(F('TAB-SNIPKEYS', m, modq + '.snippets', knode, 'key %r' % key,
                          'key %r appears twice in the dict display: the first entry is silently lost' % key))
            raw.add(key)
            for name in key.split('|'):
                if name == '':
                    res.bad(F('TAB-SNIPKEYS', m, modq + '.snippets', knode, 'key %r' % key, 'empty alternative in multi-key'))
                    continue
                if name in seen:
                    res.bad(F('TAB-SNIPKEYS', m, modq + '.snippets', knode, 'key %r' % name,
                              'snippet key %r is defined by both %r and %r: one definition is unreachable' % (name, seen[name], key)))
                elif modq == 'snippets.css' and name.lower() in seen_ci:
                    res.bad(F('TAB-SNIPKEYS', m, modq + '.snippets', knode, 'key %r' % name,
                              'snippet keys %r and %r differ only in case; matching is case-insensitive so one of them is unreachable' % (name, seen_ci[name.lower()])))
                else:
                    res.ok('%s: %r' % (modq, name) if len(res.samples) < 4 else None)
                seen[name] = key
                seen_ci[name.lower()] = name
        res.stats[modq] = len(seen)
    # parse_snippets registers every alternative of a `a|b|c` key; a later table entry replaces an earlier one
    from .tablecheck import check_table
    f = p.func('snippets.parse_snippets')
    from ..pattern import find_expr
    comp = find_expr("{$n: $s[$k] for $k in $s.keys() for $n in $k.split('|')}", f.node) or find_expr("{$n: $s[$k] for $k in $s for $n in $k.split('|')}", f.node)
    if comp and len([n for n in f.body_nodes() if isinstance(n, ast.Return)]) == 1:
        res.ok('parse_snippets: every name of a multi-key gets the value of that key (comprehension)')
    else:
        def fixed_alternatives(p, f):
            """the alternatives of a key are picked by constant index (first / last) instead of being iterated: the others are lost"""
            from .. import shape
            defs = shape.defs_of(f.node, params=f.params)
            iterated = any(isinstance(n, (ast.For, ast.comprehension)) and '.split(' in src_of(shape.expand(n.iter, defs)) for n in ast.walk(f.node))
            for n in f.body_nodes():
                if isinstance(n, ast.Subscript) and isinstance(n.ctx, ast.Store) and isinstance(n.slice, ast.Subscript) \
                        and isinstance(p.try_const(f, n.slice.slice), int) and '.split(' in src_of(shape.expand(n.slice.value, defs)) and not iterated:
                    return n, src_of(p.enclosing_stmt(f, n)), 'only the alternative at a fixed index of a `a|b|c` key is registered: the other names of the key are no longer snippets'
            return None
        check_table(p, res, 'TAB-SNIPKEYS', 'snippets.parse_snippets', 'every alternative of a `a|b|c` key must be registered, and a later table entry replaces an earlier one (plain assignment)',
                    detectors=(fixed_alternatives,))
    # the four derived tables come from parse_snippets applied to exactly one raw table each
    sm = p.module('snippets')
    for name, raw in (('markup_snippets', 'raw_markup_snippets'), ('stylesheet_snippets', 'raw_stylesheet_snippets'), ('xsl_snippets', 'raw_xsl_snippets'), ('pug_snippets', 'raw_pug_snippets')):
        b = sm.bindings.get(name)
        v = b.values[0] if b is not None and b.kind == 'assign' and len(b.values) == 1 else None
        if v is not None and src_of(v) == 'parse_snippets(%s)' % raw:
            res.ok('%s = parse_snippets(%s)' % (name, raw))
        elif v is None or not (isinstance(v, ast.Call) and isinstance(v.func, ast.Name) and v.func.id == 'parse_snippets'):
            res.undecided('%s = %s' % (name, src_of(v) if v is not None else '?'), 'expected %s = parse_snippets(%s)' % (name, raw))
        else:
            res.bad(F('TAB-SNIPKEYS', sm, 'snippets.' + name, v or sm.tree, '%s = %s' % (name, src_of(v) if v is not None else '?'), 'each built-in table is parse_snippets of its own raw table only (layering happens in Config, in the documented order)'))
    res.require_floor(400)


# ----------------------------------------------------------------- TAB-VOID
@rule('TAB-VOID', 'D', 'void-element list of the HTML matcher is the HTML void element set')
def tab_void(p, res):
    m, node, lst = _const(p, 'html_matcher.utils', 'default_empty')
    void = {'area', 'base', 'br', 'col', 'embed', 'hr', 'img', 'input', 'link', 'meta', 'param', 'source', 'track', 'wbr'}
    for name in sorted(void):
        if name not in lst:
            res.bad(F('TAB-VOID', m, 'html_matcher.utils.default_empty', node, 'default_empty: %r' % name, '<%s> is a void element' % name))
        else:
            res.ok('%r void' % name)
    for name in lst:
        if name not in void:
            res.bad(F('TAB-VOID', m, 'html_matcher.utils.default_empty', node, 'default_empty: %r' % name, '<%s> is not a void element' % name))
    # is_self_close decision table
    ev = MiniEval(p)
    f = p.func('html_matcher.is_self_close')
    for xml in (False, True):
        for name, isvoid in (('br', True), ('div', False)):
            got = bool(ev.call(f, [name, Rec(xml=xml, empty=['br'])]))
            want = (not xml) and isvoid
            if got != want:
                res.bad(F('TAB-VOID', f.module, f.short, f.node, 'is_self_close(%r, xml=%r)' % (name, xml),
                          'void handling: expected %r, decision table gives %r' % (want, got)))
            else:
                res.ok('is_self_close(%r, xml=%r) == %r' % (name, xml, want))
    # ScannerOptions defaults
    so = p.cls('html_matcher.utils.ScannerOptions')
    init = so.methods.get('__init__')
    s = src_of(init.node) if init else ''
    from .. import shape
    opt_param = init.params[1] if init is not None and len(init.params) > 1 else 'options'
    reads = {}          # option key -> default expression of every `<options>.get(key, default)` in __init__
    if init is not None:
        idefs = shape.defs_of(init.node, params=init.params)
        for n in init.body_nodes():
            if isinstance(n, ast.Call) and isinstance(n.func, ast.Attribute) and n.func.attr == 'get' and len(n.args) == 2 \
                    and src_of(shape.expand(n.func.value, idefs)).split(' or ')[0].strip('()') == opt_param:
                k = p.try_const(init, n.args[0])
                if isinstance(k, str):
                    reads.setdefault(k, []).append(n.args[1])
    for key, want_src, want_val in (('xml', 'False', False), ('empty', 'default_empty', None), ('special', 'default_special', None)):
        ds = reads.get(key)
        if not ds:
            res.undecided("ScannerOptions: default of %r" % key, "options.get(%r, %s) expected" % (key, want_src))
        elif all(src_of(d) == want_src or (want_val is not None and p.try_const(init, d) is want_val) for d in ds):
            res.ok("options.get(%r, %s)" % (key, want_src))
        elif all(isinstance(p.try_const(init, d), (bool, int, str, list, tuple)) or isinstance(d, ast.Name) for d in ds):
            res.bad(F('TAB-VOID', so.module, 'html_matcher.utils.ScannerOptions.__init__', init.node, "options.get(%r, %s)" % (key, src_of(ds[0])),
                      'scanner option default changed (must be %s)' % want_src))
        else:
            res.undecided("ScannerOptions: default of %r is %s" % (key, src_of(ds[0])), "options.get(%r, %s) expected" % (key, want_src))
    m2, node2, special = _const(p, 'html_matcher.utils', 'default_special')
    for name in ('script', 'style'):
        if name not in special:
            res.bad(F('TAB-VOID', m2, 'html_matcher.utils.default_special', node2, 'default_special: %r' % name, '<%s> bodies must be skipped' % name))
        else:
            res.ok('%r special' % name)
    res.require_floor(23)


# ----------------------------------------------------------- TAB-BRACEPAIRS
@rule('TAB-BRACEPAIRS', 'D', 'BRACE_PAIRS pairs each open bracket with its closer; subscripts are guarded by the open-bracket predicate')
def tab_bracepairs(p, res):
    m, node, pairs = _const(p, 'extract_abbreviation.brackets', 'BRACE_PAIRS')
    want = {'[': ']', '(': ')', '{': '}'}
    for k, v in want.items():
        if pairs.get(k) != v:
            res.bad(F('TAB-BRACEPAIRS', m, 'extract_abbreviation.brackets.BRACE_PAIRS', node, 'BRACE_PAIRS[%r]' % k, 'must be %r, is %r' % (v, pairs.get(k))))
        else:
            res.ok('BRACE_PAIRS[%r] == %r' % (k, v))
    ev = MiniEval(p)
    # predicates guarding the subscripts accept only keys of the table
    for fq, extra in (('extract_abbreviation.is_open_brace', ['markup', 'stylesheet']), ('extract_abbreviation.is_html.is_open_bracket', [None])):
        f = p.func(fq)
        for ch in list('[]{}()<>a ') + ['']:
            for x in extra:
                args = [ch] if x is None else [ch, x]
                if ev.call(f, args) and ch not in pairs:
                    res.bad(F('TAB-BRACEPAIRS', f.module, f.short, f.node, '%s(%r)' % (f.name, ch), 'accepts %r which has no BRACE_PAIRS entry (KeyError)' % ch))
                else:
                    res.ok()
    # close predicate symmetrical
    oc = p.func('extract_abbreviation.is_close_brace')
    ob = p.func('extract_abbreviation.is_open_brace')
    for syn in ('markup', 'stylesheet'):
        for o, c in want.items():
            a, b = bool(ev.call(ob, [o, syn])), bool(ev.call(oc, [c, syn]))
            exp = (syn == 'markup') or o == '('
            if a != exp or b != exp:
                res.bad(F('TAB-BRACEPAIRS', ob.module, ob.short, ob.node, 'is_open_brace(%r,%r)/is_close_brace(%r,%r)' % (o, syn, c, syn),
                          'bracket pair %s%s in %s abbreviations: expected %r, got open=%r close=%r' % (o, c, syn, exp, a, b)))
            else:
                res.ok('%s%s allowed in %s: %r' % (o, c, syn, exp))
    # every BRACE_PAIRS subscript is in the else-branch of a close test and the if of an open test
    n = 0
    for f in p.find_funcs('extract_abbreviation'):
        for s in f.body_nodes():
            if isinstance(s, ast.Subscript) and src_of(s.value) == 'BRACE_PAIRS':
                n += 1
    res.stats['subscript_sites'] = n
    res.require_floor(20)


# ------------------------------------------------------------- TAB-MATHOPS
@rule('TAB-MATHOPS', 'D', 'every operator the math parser accepts has an evaluator that implements it')
def tab_mathops(p, res):
    ev = MiniEval(p)
    isop = p.func('math_expression.parser.is_operator')
    neg = p.func('math_expression.parser.is_negative_sign')
    pos = p.func('math_expression.parser.is_positive_sign')
    sign = p.func('math_expression.parser.is_sign')
    mm = p.module('math_expression')
    m, n2 = p.module_const('math_expression', 'ops2')
    _, n1 = p.module_const('math_expression', 'ops1')
    if not isinstance(n2, ast.Dict) or not isinstance(n1, ast.Dict):
        raise AnalysisError('ops1/ops2 are not dict displays')
    ops2 = {p.const_value(m, k): v for k, v in zip(n2.keys, n2.values)}
    ops1 = {p.const_value(m, k): v for k, v in zip(n1.keys, n1.values)}
    want_ops = {'+', '-', '*', '/', '\\'}
    for ch in sorted(want_ops):
        if not ev.call(isop, [ch]):
            res.bad(F('TAB-MATHOPS', isop.module, isop.short, isop.node, 'is_operator(%r)' % ch, '%r must be an operator' % ch))
        else:
            res.ok('is_operator(%r)' % ch)
    for ch in list('+-*/\\()=%^.0 a') + ['']:
        if ev.call(isop, [ch]):
            if ch not in want_ops:
                res.bad(F('TAB-MATHOPS', isop.module, isop.short, isop.node, 'is_operator(%r)' % ch, '%r is not an operator of the math language' % ch))
            elif ch not in ops2:
                res.bad(F('TAB-MATHOPS', mm, 'math_expression.ops2', n2, 'ops2[%r]' % ch, 'operator %r is accepted by the parser but has no evaluator (KeyError)' % ch))
            else:
                res.ok('ops2 has %r' % ch)
        if ev.call(neg, [ch]) and ch not in ops1:
            res.bad(F('TAB-MATHOPS', mm, 'math_expression.ops1', n1, 'ops1[%r]' % ch, 'unary %r is emitted by the parser but has no evaluator' % ch))
    if not ev.call(neg, ['-']) or ev.call(neg, ['+']) or not ev.call(pos, ['+']) or ev.call(pos, ['-']) \
            or not ev.call(sign, ['-']) or not ev.call(sign, ['+']) or ev.call(sign, ['*']):
        res.bad(F('TAB-MATHOPS', neg.module, neg.short, neg.node, 'is_negative_sign/is_positive_sign/is_sign', 'sign predicates changed'))
    else:
        res.ok('signs: + positive, - negative')
    # evaluator bodies
    shapes = {'+': ast.Add, '-': ast.Sub, '*': ast.Mult, '/': ast.Div}
    for ch, opc in shapes.items():
        lam = ops2.get(ch)
        good = isinstance(lam, ast.Lambda) and len(lam.args.args) == 2 and isinstance(lam.body, ast.BinOp) and isinstance(lam.body.op, opc) \
            and src_of(lam.body.left) == lam.args.args[0].arg and src_of(lam.body.right) == lam.args.args[1].arg
        if not good:
            res.bad(F('TAB-MATHOPS', mm, 'math_expression.ops2', lam or n2, 'ops2[%r] = %s' % (ch, src_of(lam) if lam is not None else None),
                      'binary %r must compute a %s b in this operand order' % (ch, ch)))
        else:
            res.ok('ops2[%r] = %s' % (ch, src_of(lam)))
    lam = ops2.get('\\')
    if isinstance(lam, ast.Lambda) and len(lam.args.args) == 2:
        x, y = lam.args.args[0].arg, lam.args.args[1].arg
        body = src_of(lam.body)
        if body in ('floor(%s / %s)' % (x, y), 'math.floor(%s / %s)' % (x, y), 'int(floor(%s / %s))' % (x, y), 'int(math.floor(%s / %s))' % (x, y)):
            res.ok('ops2[\\\\] = ' + src_of(lam))
        elif isinstance(lam.body, ast.BinOp) and isinstance(lam.body.op, ast.FloorDiv):
            # float floor division is computed from the remainder of the binary operands, not by flooring the rounded quotient:
            # 1 // 0.1 == 9.0 although 1 / 0.1 == 10.0
            res.bad(F('TAB-MATHOPS', mm, 'math_expression.ops2', lam, 'ops2[%r] = %s' % ('\\', src_of(lam)),
                      'integer division must be floor(a / b): for decimal operands `a // b` is one too small whenever the quotient is an integer the divisor cannot represent exactly (1\\0.1 gives 9.0, not 10)'))
        elif body in ('floor(%s / %s)' % (y, x), 'int(%s / %s)' % (x, y), 'round(%s / %s)' % (x, y), 'ceil(%s / %s)' % (x, y), '%s / %s' % (x, y)):
            res.bad(F('TAB-MATHOPS', mm, 'math_expression.ops2', lam, 'ops2[%r] = %s' % ('\\', src_of(lam)), 'integer division must be floor(a / b) (operand order, rounding towards minus infinity)'))
        else:
            res.undecided('ops2[%r] = %s' % ('\\', src_of(lam)), 'integer division is not spelled floor(a / b)')
    else:
        res.undecided('ops2[%r]' % '\\', 'the evaluator of integer division is not a two-argument lambda')
    lam = ops1.get('-')
    good = isinstance(lam, ast.Lambda) and len(lam.args.args) == 1 and src_of(lam.body) == '-' + lam.args.args[0].arg
    if not good:
        res.bad(F('TAB-MATHOPS', mm, 'math_expression.ops1', lam or n1, 'ops1[%r]' % '-', 'unary minus must negate its operand'))
    else:
        res.ok('ops1[-] = ' + src_of(lam))
    # evaluate(): pops the right operand first and applies f(left, right); errors for missing operands
    from .tablecheck import check_table
    check_table(p, res, 'TAB-MATHOPS', 'math_expression.evaluate', 'binary operators must be applied as f(left, right) with the right operand popped first; unary operators to the popped operand')
    res.require_floor(15)


# ---------------------------------------------------------------- TAB-VOCAB
@rule('TAB-VOCAB', 'D', 'every lorem vocabulary has enough distinct words for sample() to terminate')
def tab_vocab(p, res):
    for lang in ('latin', 'russian', 'spanish'):
        m, node, voc = _const(p, 'markup.lorem.' + lang, 'vocabulary')
        words = voc.get('words')
        if not isinstance(words, list):
            raise AnalysisError('vocabulary[words] of %s is not a list' % lang)
        distinct = len(set(words))
        if distinct < min(len(words), 30):
            res.bad(F('TAB-VOCAB', m, 'markup.lorem.%s.vocabulary' % lang, node, 'vocabulary[words]',
                      'only %d distinct words among %d: sample() asks for up to 30 distinct words and would loop forever' % (distinct, len(words))))
        else:
            res.ok('%s: %d words, %d distinct' % (lang, len(words), distinct))
        if any(not w for w in words):
            res.bad(F('TAB-VOCAB', m, 'markup.lorem.%s.vocabulary' % lang, node, 'vocabulary[words] empty word', 'empty word: insert_commas indexes word[-1]'))
        else:
            res.ok()
        if 'common' in voc and (not voc['common'] or any(not w for w in voc['common'])):
            res.bad(F('TAB-VOCAB', m, 'markup.lorem.%s.vocabulary' % lang, node, 'vocabulary[common]', 'empty common list/word'))
        else:
            res.ok()
    # sample(): the request is bounded by 30
    par = p.func('markup.lorem.paragraph')
    if 'min(randint(2, 30), word_count - total_words)' not in src_of(par.node):
        raise AnalysisError('TAB-VOCAB: paragraph() no longer bounds the sample size by randint(2, 30)')
    res.ok('sample size <= 30')
    res.require_floor(10)


# --------------------------------------------------------------- TAB-CSSOPS
@rule('TAB-CSSOPS', 'D', 'stylesheet operator characters map to the documented roles')
def tab_cssops(p, res):
    m, node, table = _const(p, 'css_abbreviation.tokenizer', 'OPERATOR_MAP')
    ot = p.cls('css_abbreviation.tokenizer.tokens.OperatorType')
    role = {}
    for k, v in ot.consts.items():
        role[k] = p.const_value(ot.module, v)
    if len(set(role.values())) != len(role):
        res.bad(F('TAB-CSSOPS', ot.module, 'css_abbreviation.tokenizer.tokens.OperatorType', ot.node, 'OperatorType constants', 'two operator kinds share one value and cannot be told apart'))
    want = {'+': 'Sibling', '!': 'Important', ',': 'ArgumentDelimiter', ':': 'PropertyDelimiter', '-': 'ValueDelimiter'}
    for ch, r in want.items():
        if r not in role:
            raise AnalysisError('OperatorType.%s vanished' % r)
        if table.get(ch) != role[r]:
            res.bad(F('TAB-CSSOPS', m, 'css_abbreviation.tokenizer.OPERATOR_MAP', node, 'OPERATOR_MAP[%r]' % ch,
                      '%r must be the %s operator' % (ch, r)))
        else:
            res.ok('OPERATOR_MAP[%r] is %s' % (ch, r))
    for ch in table:
        if ch not in want:
            res.bad(F('TAB-CSSOPS', m, 'css_abbreviation.tokenizer.OPERATOR_MAP', node, 'OPERATOR_MAP[%r]' % ch, 'undocumented operator'))
    # parser predicates test the role their name says
    roles = {'is_sibling_operator': 'Sibling', 'is_argument_delimiter': 'ArgumentDelimiter', 'is_important': 'Important'}
    for fname, r in roles.items():
        f = p.func('css_abbreviation.parser.' + fname)
        calls = [c for c in f.body_nodes() if isinstance(c, ast.Call) and src_of(c.func) == 'is_operator' and len(c.args) == 2]
        if len(calls) != 1:
            raise AnalysisError('TAB-CSSOPS: unrecognised shape of %s' % f.short)
        if src_of(calls[0].args[1]) != 'OperatorType.' + r:
            res.bad(F('TAB-CSSOPS', f.module, f.short, calls[0], src_of(calls[0]), '%s must test OperatorType.%s' % (fname, r)))
        else:
            res.ok('%s tests %s' % (fname, r))
    f = p.func('css_abbreviation.parser.is_value_delimiter')
    got = sorted(src_of(c.args[1]) for c in f.body_nodes() if isinstance(c, ast.Call) and src_of(c.func) == 'is_operator' and len(c.args) == 2)
    if got != ['OperatorType.PropertyDelimiter', 'OperatorType.ValueDelimiter']:
        res.bad(F('TAB-CSSOPS', f.module, f.short, f.node, 'is_value_delimiter', 'value delimiters are `:` and `-`, got %s' % got))
    else:
        res.ok('is_value_delimiter tests : and -')
    res.require_floor(9)


# ----------------------------------------------------------- TAB-FORMATTERS
@rule('TAB-FORMATTERS', 'D', 'each indentation syntax is rendered by its own formatter, everything else by the HTML formatter')
def tab_formatters(p, res):
    m, node = p.module_const('markup', 'FORMATTERS')
    if not isinstance(node, ast.Dict):
        raise AnalysisError('FORMATTERS is not a dict display')
    table = {}
    for k, v in zip(node.keys, node.values):
        e = p.resolve_expr(m, v)
        table[p.const_value(m, k)] = e.obj.qualname if e is not None and e.kind == 'func' else src_of(v)
    want = {'html': 'emmet.markup.format.html.html', 'haml': 'emmet.markup.format.haml', 'slim': 'emmet.markup.format.slim', 'pug': 'emmet.markup.format.pug'}
    for k, v in want.items():
        if table.get(k) != v:
            res.bad(F('TAB-FORMATTERS', m, 'markup.FORMATTERS', node, 'FORMATTERS[%r]' % k, 'syntax %r must be rendered by %s, table has %s' % (k, v, table.get(k))))
        else:
            res.ok('FORMATTERS[%r] -> %s' % (k, v))
    for k in table:
        if k not in want:
            res.bad(F('TAB-FORMATTERS', m, 'markup.FORMATTERS', node, 'FORMATTERS[%r]' % k, 'unexpected formatter entry'))
    f = p.func('markup.stringify')
    s = src_of(f.node)
    gets = [n for n in f.body_nodes() if isinstance(n, ast.Call) and isinstance(n.func, ast.Attribute) and n.func.attr == 'get' and src_of(n.func.value) == 'FORMATTERS']
    subs = [n for n in f.body_nodes() if isinstance(n, ast.Subscript) and src_of(n.value) == 'FORMATTERS' and isinstance(n.ctx, ast.Load)]
    if gets and all(len(n.args) == 2 and p.resolve_expr(f, n.args[1]) is not None and p.resolve_expr(f, n.args[1]).kind == 'func'
                    and p.resolve_expr(f, n.args[1]).obj is table.get('html', None) or (len(n.args) == 2 and src_of(n.args[1]) == 'html') for n in gets) and not subs:
        res.ok('FORMATTERS.get(<syntax>, html)')
    elif subs and not gets:
        res.bad(F('TAB-FORMATTERS', f.module, f.short, subs[0], src_of(subs[0]), 'the formatter is looked up by subscript: an unknown syntax raises KeyError instead of using the HTML formatter'))
    elif gets and any(len(n.args) == 1 for n in gets):
        res.bad(F('TAB-FORMATTERS', f.module, f.short, gets[0], src_of(gets[0]), 'the formatter lookup has no default: an unknown syntax yields None (TypeError) instead of the HTML formatter'))
    else:
        res.undecided('markup.stringify: formatter lookup', 'FORMATTERS.get(config.syntax, html) expected')
    res.require_floor(5)


# ------------------------------------------------------------ TAB-SELFCLOSE
@rule('TAB-SELFCLOSE', 'D', 'self-closing style decides only the characters before >')
def tab_selfclose(p, res):
    from ..minieval import Unknown
    f = p.func('output_stream.self_close')
    # extract: returns by style constant
    want = {'html': '', 'xhtml': ' /', 'xml': '/'}
    ev = MiniEval(p)
    for style, out in want.items():
        cfg = Rec(options={'output.selfClosingStyle': style})
        got = ev.call(f, [cfg])
        if got != out:
            res.bad(F('TAB-SELFCLOSE', f.module, f.short, f.node, 'self_close(style=%r)' % style, 'style %r must print %r before >, prints %r' % (style, out, got)))
        else:
            res.ok('self_close(%r) == %r' % (style, out))
    m, node, syn = _const_syntax(p)
    want2 = {'xml': 'xml', 'xsl': 'xml', 'xhtml': 'xhtml'}
    for s, v in want2.items():
        got = syn.get(s, {}).get('options', {}).get('output.selfClosingStyle')
        if got != v:
            res.bad(F('TAB-SELFCLOSE', m, 'config.SYNTAX_CONFIG', node, 'SYNTAX_CONFIG[%r] selfClosingStyle' % s, 'must be %r, is %r' % (v, got)))
        else:
            res.ok('SYNTAX_CONFIG[%r] selfClosingStyle == %r' % (s, v))
    res.require_floor(6)


# ---------------------------------------------------------------- TAB-MEMBER
@rule('TAB-MEMBER', 'D', 'a parenthesised list of string literals after `in` has its commas (adjacent literals would be one string and the test a substring test)')
def tab_member(p, res):
    """`x in ('class' 'id')` is `x in 'classid'`: the implicit concatenation of adjacent string literals turns a membership test
    over names into a substring test.  Decided on the token stream (the syntax tree has already folded the literals).
    Expected count on the reviewed tree: zero; a positive example is matched on every run."""
    import io
    import tokenize

    def scan(src):
        out = []
        toks = [t for t in tokenize.generate_tokens(io.StringIO(src).readline) if t.type not in (tokenize.NL, tokenize.COMMENT, tokenize.NEWLINE, tokenize.INDENT, tokenize.DEDENT)]
        for i, t in enumerate(toks):
            if t.type == tokenize.NAME and t.string == 'in' and i + 1 < len(toks) and toks[i + 1].string == '(':
                j = i + 2
                depth = 1
                prev_str = False
                while j < len(toks) and depth:
                    tj = toks[j]
                    if tj.string in '([{':
                        depth += 1
                        prev_str = False
                    elif tj.string in ')]}':
                        depth -= 1
                        prev_str = False
                    elif tj.type == tokenize.STRING:
                        if prev_str and depth == 1:
                            out.append(tj.start[0])
                        prev_str = True
                    else:
                        prev_str = False
                    j += 1
        return out
    if scan("ok = name in ('class' 'id')\n") != [1] or scan("ok = name in ('class', 'id')\n") != []:
        raise AnalysisError('TAB-MEMBER: matcher self-test failed')
    res.ok('matcher self-test')
    n = 0
    for m in p.modules.values():
        n += 1
        try:
            hits = scan(m.src)
        except (tokenize.TokenError, IndentationError):
            raise AnalysisError('TAB-MEMBER: cannot tokenize %s' % m.relpath)
        for ln in hits:
            line = m.src.splitlines()[ln - 1].strip()
            res.bad(Finding('TAB-MEMBER', m.relpath, m.name[6:], line, 'adjacent string literals inside the parenthesised operand of `in` are concatenated: this is a substring test against one string, not a membership test over the listed names', ln))
    res.ok('%d modules scanned' % n)
    res.require_floor(2)
