"""NUM-* : counter formulas, zero padding, hex printing, field numbering."""
import ast

from . import rule
from ..core import AnalysisError, src_of, Func
from ..report import Finding
from ..linear import linear, show
from ..minieval import MiniEval, Rec


def F(rule_name, f, node, construct, message, **kw):
    return Finding(rule_name, f.module.relpath, f.short, construct, message, getattr(node, 'lineno', 0), **kw)


def single_defs(p, f):
    """local name -> value expr for names assigned exactly once (plain Assign)."""
    out = {}
    counts = {}
    for n in f.body_nodes():
        if isinstance(n, ast.Assign) and len(n.targets) == 1 and isinstance(n.targets[0], ast.Name):
            counts[n.targets[0].id] = counts.get(n.targets[0].id, 0) + 1
            out[n.targets[0].id] = n.value
        elif isinstance(n, (ast.AugAssign, ast.For)):
            t = n.target
            for x in ast.walk(t):
                if isinstance(x, ast.Name):
                    counts[x.id] = counts.get(x.id, 0) + 2
    return {k: v for k, v in out.items() if counts.get(k) == 1 and k not in f.all_params()}


class _Subst(ast.NodeTransformer):
    def __init__(self, defs, depth=4):
        self.defs = defs
        self.depth = depth

    def visit_Name(self, node):
        if isinstance(node.ctx, ast.Load) and node.id in self.defs and self.depth > 0:
            import copy
            sub = copy.deepcopy(self.defs[node.id])
            return _Subst(self.defs, self.depth - 1).visit(sub)
        return node


def inline(p, f, expr):
    import copy
    return _Subst(single_defs(p, f)).visit(copy.deepcopy(expr))


# -------------------------------------------------------------- NUM-LEFTPAD
def _is_zero_string(p, f, e, zero_names):
    if isinstance(e, ast.BinOp) and isinstance(e.op, ast.Mult):
        for x in (e.left, e.right):
            if p.try_const(f, x) == '0':
                return True
    if isinstance(e, ast.Name) and e.id in zero_names:
        return True
    return False


@rule('NUM-LEFTPAD', 'D', "numerals padded with '0' are padded on the left and never truncated")
def num_leftpad(p, res):
    for f in p.funcs.values():
        zero_names = set()
        for n in f.body_nodes():
            if isinstance(n, ast.Assign) and len(n.targets) == 1 and isinstance(n.targets[0], ast.Name) and _is_zero_string(p, f, n.value, set()):
                zero_names.add(n.targets[0].id)
        pm = None
        for n in f.body_nodes():
            pad = None
            if isinstance(n, ast.Call) and isinstance(n.func, ast.Attribute) and n.func.attr in ('ljust', 'rjust', 'center') and len(n.args) == 2 \
                    and p.try_const(f, n.args[1]) == '0':
                if n.func.attr != 'rjust':
                    res.bad(F('NUM-LEFTPAD', f, n, src_of(n), "zeros are appended on the right: the number's value changes (0xb -> 'b0')",
                              failing_input='c#e7bc0b'))
                else:
                    res.ok('%s: %s' % (f.short, src_of(n)))
                pad = n
            elif isinstance(n, ast.Call) and isinstance(n.func, ast.Attribute) and n.func.attr == 'zfill':
                res.ok('%s: %s' % (f.short, src_of(n)))
                pad = n
            elif isinstance(n, ast.BinOp) and isinstance(n.op, ast.Add):
                lz = _is_zero_string(p, f, n.left, zero_names)
                rz = _is_zero_string(p, f, n.right, zero_names)
                if rz and not lz:
                    res.bad(F('NUM-LEFTPAD', f, n, src_of(n), "zeros are appended after the digits: the number's value changes"))
                    pad = n
                elif lz:
                    res.ok('%s: %s' % (f.short, src_of(n)))
                    pad = n
            if pad is not None:
                pm = pm or p.parents(f)
                par = pm.get(pad)
                # a padded numeral must not be sliced/truncated
                while isinstance(par, ast.BinOp) and isinstance(par.op, ast.Add):
                    par = pm.get(par)
                if isinstance(par, ast.Subscript) and par.value is not None and isinstance(par.slice, ast.Slice):
                    res.bad(F('NUM-LEFTPAD', f, par, src_of(par), 'the padded numeral is sliced: counters wider than the pad width lose digits'))
    # RepeaterNumber: width of the pad is max(0, size - len(digits)) and the digits are str(value)
    f = p.func('abbreviation.stringify.RepeaterNumber')
    rets = [n for n in f.body_nodes() if isinstance(n, ast.Return)]
    if len(rets) != 1:
        raise AnalysisError('NUM-LEFTPAD: RepeaterNumber has %d returns' % len(rets))
    r = inline(p, f, rets[0].value)
    s = src_of(r)
    good = s in ("'0' * max(0, token.size - len(str(value))) + str(value)", "str(value).rjust(token.size, '0')", 'str(value).zfill(token.size)')
    if good:
        res.ok('RepeaterNumber returns ' + s)
    else:
        res.bad(F('NUM-LEFTPAD', f, rets[0], src_of(rets[0].value) + '  ==  ' + s,
                  "counter must be printed as str(value) left-padded with '0' to token.size digits and never truncated"))
    res.require_floor(4)


# --------------------------------------------------------------- NUM-LINEAR
@rule('NUM-LINEAR', 'D', 'repeater counter formulas: forward base+i, reverse base+count-i-1, nearest repeater, parent clamp')
def num_linear(p, res):
    f = p.func('abbreviation.stringify.RepeaterNumber')
    defs = single_defs(p, f)
    rep = None
    for name, v in defs.items():
        if src_of(inline(p, f, v)) in ('state.repeaters[-1]', 'state.repeaters[len(state.repeaters) - 1]'):
            rep = name
    if rep is None:
        res.bad(F('NUM-LINEAR', f, f.node, 'repeater lookup', 'the counter must come from the innermost repeater state.repeaters[-1]'))
        return
    res.ok('%s = state.repeaters[-1]' % rep)
    # default when there is no repeater
    first = [n for n in f.node.body if isinstance(n, ast.Assign) and src_of(n.targets[0]) == 'value']
    if not first or p.try_const(f, first[0].value) != 1:
        res.bad(F('NUM-LINEAR', f, first[0] if first else f.node, 'value = %s' % (src_of(first[0].value) if first else '?'), 'counter without any repeater is 1'))
    else:
        res.ok('value = 1 without repeater')
    # guard: only read repeaters[-1] when the stack is non-empty
    guard_ok = False
    for n in f.body_nodes():
        if isinstance(n, ast.If) and src_of(inline(p, f, n.test)) in ('len(state.repeaters) - 1 >= 0', 'state.repeaters', 'len(state.repeaters)', 'len(state.repeaters) > 0'):
            if any(isinstance(x, ast.Assign) and src_of(x.targets[0]) == rep for x in n.body):
                guard_ok = True
    if guard_ok:
        res.ok('repeater read guarded by non-empty stack')
    else:
        res.bad(F('NUM-LINEAR', f, f.node, 'guard of %s = state.repeaters[-1]' % rep, 'reading the innermost repeater must be guarded by a non-empty repeater stack'))
    rev = [n for n in f.body_nodes() if isinstance(n, ast.If) and src_of(n.test) == 'token.reverse']
    if len(rev) != 1:
        raise AnalysisError('NUM-LINEAR: no single `if token.reverse` in RepeaterNumber')

    def val_of(body):
        a = [n for n in body if isinstance(n, ast.Assign) and src_of(n.targets[0]) == 'value']
        return a[-1].value if len(a) == 1 else None
    want_rev = {'token.base': 1, rep + '.count': 1, rep + '.value': -1, '1': -1}
    want_fwd = {'token.base': 1, rep + '.value': 1}
    for body, want, label in ((rev[0].body, want_rev, 'reverse'), (rev[0].orelse, want_fwd, 'forward')):
        v = val_of(body)
        lin = linear(v) if v is not None else None
        if lin != want:
            res.bad(F('NUM-LINEAR', f, v or rev[0], 'value = %s' % (src_of(v) if v is not None else '?'),
                      '%s counter must be %s, is %s' % (label, show(want), show(lin))))
        else:
            res.ok('%s: value = %s' % (label, show(lin)))
    # parent index is clamped at 0
    pi = defs.get('parent_ix')
    pis = src_of(inline(p, f, pi)) if pi is not None else None
    if pis not in ('max(0, len(state.repeaters) - 1 - token.parent)', 'max(len(state.repeaters) - 1 - token.parent, 0)'):
        res.bad(F('NUM-LINEAR', f, pi or f.node, 'parent_ix = %s' % (src_of(pi) if pi is not None else '?'),
                  'the parent repeater index must be clamped: max(0, last_ix - token.parent); without the clamp `$@^^` on a shallow nesting indexes outside the repeater stack'))
    else:
        res.ok('parent_ix = ' + pis)
    # tokenizer side: size = number of $ characters, base default 1, count from the digits
    t = p.func('abbreviation.tokenizer.repeater_number')
    d = single_defs(p, t)
    if 'size' in d and linear(d['size']) == {'scanner.pos': 1, 'start': -1}:
        res.ok('size = scanner.pos - start')
    else:
        res.bad(F('NUM-LINEAR', t, d.get('size') or t.node, 'size = %s' % (src_of(d['size']) if 'size' in d else '?'), 'width of a $ run is the number of characters consumed'))
    bases = [n for n in t.body_nodes() if isinstance(n, ast.Assign) and src_of(n.targets[0]) == 'base']
    if bases and p.try_const(t, bases[0].value) == 1:
        res.ok('base defaults to 1')
    else:
        res.bad(F('NUM-LINEAR', t, bases[0] if bases else t.node, 'base default', 'numbering starts at 1 unless @M is given'))
    ctor = [c for c in t.body_nodes() if isinstance(c, ast.Call) and src_of(c.func) == 'tokens.RepeaterNumber']
    if len(ctor) == 1 and [src_of(a) for a in ctor[0].args[:4]] == ['size', 'reverse', 'base', 'parent']:
        res.ok('RepeaterNumber(size, reverse, base, parent, ..)')
    else:
        res.bad(F('NUM-LINEAR', t, ctor[0] if ctor else t.node, src_of(ctor[0]) if ctor else 'ctor', 'token fields must be passed as (size, reverse, base, parent)'))
    init = p.cls('abbreviation.tokenizer.tokens.RepeaterNumber').methods['__init__']
    if init.params[1:5] == ['size', 'reverse', 'base', 'parent'] and all('self.%s = %s' % (x, x) in src_of(init.node) for x in ('size', 'reverse', 'base', 'parent')):
        res.ok('RepeaterNumber.__init__ stores (size, reverse, base, parent)')
    else:
        res.bad(F('NUM-LINEAR', init, init.node, 'RepeaterNumber.__init__', 'constructor parameters and stored fields disagree'))
    # convert_statement: value = i (0-based copy index), count = repeat.count
    cs = p.func('abbreviation.convert.convert_statement')
    s = src_of(cs.node)
    for want in ('repeat.value = i', 'i = 0', 'i += 1', 'while i < repeat.count'):
        if want not in s:
            res.bad(F('NUM-LINEAR', cs, cs.node, want, 'copy loop: the copy index i runs 0..count-1 and is published as repeat.value'))
        else:
            res.ok('convert_statement: ' + want)
    res.require_floor(12)


# ------------------------------------------------------------- NUM-SHORTHEX
@rule('NUM-SHORTHEX', 'D', 'short hex is chosen only when every channel allows it; channels printed in r,g,b order')
def num_shorthex(p, res):
    f = p.func('stylesheet.color.as_hex')
    ifs = [n for n in f.body_nodes() if isinstance(n, ast.If)]
    chosen = None
    for n in ifs:
        if 'to_short_hex' in src_of(ast.Module(body=n.body, type_ignores=[])):
            chosen = n
    if chosen is None:
        raise AnalysisError('NUM-SHORTHEX: no branch selects to_short_hex in as_hex')
    t = chosen.test
    conj = sorted(src_of(v) for v in (t.values if isinstance(t, ast.BoolOp) and isinstance(t.op, ast.And) else [t]))
    want = sorted(['short', 'is_short_hex(token.r)', 'is_short_hex(token.g)', 'is_short_hex(token.b)'])
    if conj != want:
        res.bad(F('NUM-SHORTHEX', f, chosen, src_of(t), 'short form requires `short` and is_short_hex of r, g and b; the test has %s' % conj))
    else:
        res.ok('short hex under ' + ' and '.join(want))
    if 'to_hex' not in src_of(ast.Module(body=chosen.orelse, type_ignores=[])):
        res.bad(F('NUM-SHORTHEX', f, chosen, 'else branch of short-hex test', 'long form must use to_hex'))
    else:
        res.ok('else -> to_hex')
    rets = [n for n in f.body_nodes() if isinstance(n, ast.Return)]
    if len(rets) == 1 and src_of(rets[0].value) == "'#%s%s%s' % (fn(token.r), fn(token.g), fn(token.b))":
        res.ok(src_of(rets[0].value))
    else:
        res.bad(F('NUM-SHORTHEX', f, rets[0] if rets else f.node, src_of(rets[0].value) if rets else 'return', "hex colour is '#' + fn(r) + fn(g) + fn(b)"))
    ev = MiniEval(p, hooks={'emmet.stylesheet.color.frac': lambda num, digits=4: str(num)})
    ish = p.func('stylesheet.color.is_short_hex')
    tsh = p.func('stylesheet.color.to_short_hex')
    # finite table: all 256 channel values
    bad = [n for n in range(256) if bool(ev.call(ish, [n])) != (n % 17 == 0)]
    if bad:
        res.bad(F('NUM-SHORTHEX', ish, ish.node, 'is_short_hex(%d)' % bad[0], 'a channel is short-hex-able iff both nibbles are equal (n %% 17 == 0); wrong for %d values' % len(bad)))
    else:
        res.ok('is_short_hex == (n % 17 == 0) for all 256 channel values')
    bad = [n for n in range(0, 256, 17) if ev.call(tsh, [n]) != '%x' % (n >> 4)]
    if bad:
        res.bad(F('NUM-SHORTHEX', tsh, tsh.node, 'to_short_hex(%d)' % bad[0], 'short form of a channel is its high nibble'))
    else:
        res.ok('to_short_hex(n) == hex(n >> 4) for the 16 short-able values')
    th = p.func('stylesheet.color.to_hex')
    try:
        bad = [n for n in range(256) if ev.call(th, [n]) != '%02x' % n]
    except AnalysisError:
        bad = None
    if bad is None:
        raise AnalysisError('NUM-SHORTHEX: to_hex outside the evaluable subset')
    if bad:
        res.bad(F('NUM-SHORTHEX', th, th.node, 'to_hex(%d) -> %r' % (bad[0], ev.call(th, [bad[0]])),
                  'to_hex must print the two-digit hex value of the channel; wrong for %d of 256 values' % len(bad), failing_input='c#e7bc0b'))
    else:
        res.ok('to_hex(n) == %02x for all 256 channel values')
    # color(): transparent only for all-zero incl. alpha; alpha 1 -> hex; else rgba
    c = p.func('stylesheet.color.color')
    tbl_ok = True
    for r_, g_, b_, a_ in ((0, 0, 0, 0), (0, 0, 0, 1), (1, 0, 0, 0), (0, 0, 0, 0.5), (255, 255, 255, 1), (0, 0, 1, 0.5)):
        got = ev.call(c, [Rec(r=r_, g=g_, b=b_, a=a_), True]) if True else None
        if (r_, g_, b_, a_) == (0, 0, 0, 0):
            exp = 'transparent'
        elif a_ == 1:
            exp = '#'
        else:
            exp = 'rgba('
        if not (got == exp or (isinstance(got, str) and got.startswith(exp) and exp != 'transparent')):
            tbl_ok = False
            res.bad(F('NUM-SHORTHEX', c, c.node, 'color(r=%r,g=%r,b=%r,a=%r) -> %r' % (r_, g_, b_, a_, got), 'expected output form %r' % exp))
    if tbl_ok:
        res.ok('color(): transparent / #hex / rgba( decision table (6 classes)')
    ar = p.func('stylesheet.color.as_rgb')
    s = src_of(ar.node)
    if 'values = [str(token.r), str(token.g), str(token.b)]' in s and 'values.append(frac(token.a, 8))' in s:
        res.ok('as_rgb: r, g, b, alpha order')
    else:
        res.bad(F('NUM-SHORTHEX', ar, ar.node, 'as_rgb value list', 'rgba components must be r, g, b then alpha'))
    res.require_floor(8)


# ------------------------------------------------------------- NUM-FIELDIDX
@rule('NUM-FIELDIDX', 'D', 'tabstop numbers: state.field + relative index, advanced by largest relative index + 1')
def num_fieldidx(p, res):
    f = p.func('markup.format.utils.push_tokens')
    calls = [n for n in f.body_nodes() if isinstance(n, ast.Call) and isinstance(n.func, ast.Attribute) and n.func.attr == 'push_field']
    if len(calls) != 1:
        raise AnalysisError('NUM-FIELDIDX: push_tokens has %d push_field calls' % len(calls))
    c = calls[0]
    lin = linear(c.args[0]) if c.args else None
    loopvar = None
    for n in f.body_nodes():
        if isinstance(n, ast.For) and isinstance(n.target, ast.Name):
            loopvar = n.target.id
    if lin != {'state.field': 1, '%s.index' % loopvar: 1}:
        res.bad(F('NUM-FIELDIDX', f, c, src_of(c), 'emitted tabstop number must be state.field + token.index, is %s' % show(lin)))
    else:
        res.ok('push_field(state.field + t.index, ..)')
    if len(c.args) < 2 or src_of(c.args[1]) != '%s.name' % loopvar:
        res.bad(F('NUM-FIELDIDX', f, c, src_of(c), 'placeholder must be the token name'))
    else:
        res.ok('placeholder = t.name')
    s = src_of(f.node)
    li = [n for n in f.body_nodes() if isinstance(n, ast.Assign) and src_of(n.targets[0]) == 'largest_index']
    init_ok = li and p.try_const(f, li[0].value) == -1
    cmp_ok = any(isinstance(n, ast.If) and src_of(n.test) == '%s.index > largest_index' % loopvar
                 and [src_of(x) for x in n.body] == ['largest_index = %s.index' % loopvar] for n in f.body_nodes())
    adv = [n for n in f.body_nodes() if isinstance(n, ast.AugAssign) and src_of(n.target) == 'state.field']
    adv_ok = len(adv) == 1 and isinstance(adv[0].op, ast.Add) and linear(adv[0].value) == {'largest_index': 1, '1': 1}
    guard_ok = any(isinstance(n, ast.If) and src_of(n.test) in ('largest_index != -1', 'largest_index >= 0', 'largest_index > -1') and adv and adv[0] in n.body for n in f.body_nodes())
    for okk, what, msg in ((init_ok, 'largest_index = -1', 'largest relative index starts at -1'),
                           (cmp_ok, 'if t.index > largest_index: largest_index = t.index', 'the running maximum compares *relative* indexes'),
                           (adv_ok, 'state.field += largest_index + 1', 'the next value starts after the largest index used'),
                           (guard_ok, 'if largest_index != -1', 'the counter only advances when a field was emitted')):
        if okk:
            res.ok(what)
        else:
            res.bad(F('NUM-FIELDIDX', f, f.node, what, msg))
    # the loop is a plain for over the tokens with no early exit
    if any(isinstance(n, (ast.Break, ast.Continue, ast.Return)) for n in f.body_nodes()):
        res.bad(F('NUM-FIELDIDX', f, f.node, 'early exit in push_tokens', 'every token of the value must be emitted'))
    else:
        res.ok('no early exit')
    ws = p.cls('markup.format.walk.WalkState').methods['__init__']
    if 'self.field = 1' in src_of(ws.node):
        res.ok('WalkState.field starts at 1')
    else:
        res.bad(F('NUM-FIELDIDX', ws, ws.node, 'self.field = 1', 'tabstops are numbered from 1'))
    m, node = p.module_const('markup.format.utils', 'caret')
    if src_of(node) == "[Field('', 0)]":
        res.ok("caret = [Field('', 0)]")
    else:
        res.bad(Finding('NUM-FIELDIDX', m.relpath, 'markup.format.utils.caret', src_of(node), 'the default caret is one field with relative index 0', node.lineno))
    res.require_floor(9)
