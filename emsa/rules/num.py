"""NUM-* : counter formulas, zero padding, hex printing, field numbering."""
import ast

from . import rule
from ..core import AnalysisError, src_of, Func
from ..report import Finding
from ..linear import linear, show
from ..minieval import MiniEval, Rec


def F(rule_name, f, node, construct, message, **kw):
    return Finding(rule_name, f.module.relpath, f.short, construct, message, getattr(node, 'lineno', 0), **kw)


def single_defs(p, f):
    """local name -> value expr for names assigned exactly once (plain Assign)."""
    out = {}
    counts = {}
    for n in f.body_nodes():
        if isinstance(n, ast.Assign) and len(n.targets) == 1 and isinstance(n.targets[0], ast.Name):
            counts[n.targets[0].id] = counts.get(n.targets[0].id, 0) + 1
            out[n.targets[0].id] = n.value
        elif isinstance(n, (ast.AugAssign, ast.For)):
            t = n.target
            for x in ast.walk(t):
                if isinstance(x, ast.Name):
                    counts[x.id] = counts.get(x.id, 0) + 2
    return {k: v for k, v in out.items() if counts.get(k) == 1 and k not in f.all_params() and k not in f.rebound_by_nested()}


class _Subst(ast.NodeTransformer):
    def __init__(self, defs, depth=4):
        self.defs = defs
        self.depth = depth

    def visit_Name(self, node):
        if isinstance(node.ctx, ast.Load) and node.id in self.defs and self.depth > 0:
            import copy
            sub = copy.deepcopy(self.defs[node.id])
            return _Subst(self.defs, self.depth - 1).visit(sub)
        return node


def inline(p, f, expr):
    import copy
    return _Subst(single_defs(p, f)).visit(copy.deepcopy(expr))


# -------------------------------------------------------------- NUM-LEFTPAD
def _is_zero_string(p, f, e, zero_names):
    if isinstance(e, ast.BinOp) and isinstance(e.op, ast.Mult):
        for x in (e.left, e.right):
            if p.try_const(f, x) == '0':
                return True
    if isinstance(e, ast.Name) and e.id in zero_names:
        return True
    return False


@rule('NUM-LEFTPAD', 'D', "numerals padded with '0' are padded on the left and never truncated")
def num_leftpad(p, res):
    for f in p.funcs.values():
        zero_names = set()
        for n in f.body_nodes():
            if isinstance(n, ast.Assign) and len(n.targets) == 1 and isinstance(n.targets[0], ast.Name) and _is_zero_string(p, f, n.value, set()):
                zero_names.add(n.targets[0].id)
        pm = None
        for n in f.body_nodes():
            pad = None
            if isinstance(n, ast.Call) and isinstance(n.func, ast.Attribute) and n.func.attr in ('ljust', 'rjust', 'center') and len(n.args) == 2 \
                    and p.try_const(f, n.args[1]) == '0':
                if n.func.attr != 'rjust':
                    res.bad(F('NUM-LEFTPAD', f, n, src_of(n), "zeros are appended on the right: the number's value changes (0xb -> 'b0')",
                              failing_input='c#e7bc0b'))
                else:
                    res.ok('%s: %s' % (f.short, src_of(n)))
                pad = n
            elif isinstance(n, ast.Call) and isinstance(n.func, ast.Attribute) and n.func.attr == 'zfill':
                res.ok('%s: %s' % (f.short, src_of(n)))
                pad = n
            elif isinstance(n, ast.BinOp) and isinstance(n.op, ast.Add):
                lz = _is_zero_string(p, f, n.left, zero_names)
                rz = _is_zero_string(p, f, n.right, zero_names)
                if rz and not lz:
                    res.bad(F('NUM-LEFTPAD', f, n, src_of(n), "zeros are appended after the digits: the number's value changes"))
                    pad = n
                elif lz:
                    res.ok('%s: %s' % (f.short, src_of(n)))
                    pad = n
            if pad is not None:
                pm = pm or p.parents(f)
                par = pm.get(pad)
                # a padded numeral must not be sliced/truncated
                while isinstance(par, ast.BinOp) and isinstance(par.op, ast.Add):
                    par = pm.get(par)
                if isinstance(par, ast.Subscript) and par.value is not None and isinstance(par.slice, ast.Slice):
                    res.bad(F('NUM-LEFTPAD', f, par, src_of(par), 'the padded numeral is sliced: counters wider than the pad width lose digits'))
    # RepeaterNumber: on every path the result is str(V) left-padded with '0' to token.size digits, never truncated
    f = p.func('abbreviation.stringify.RepeaterNumber')
    n_ok = 0
    for q, V, how in repeater_number_paths(p, f, res, 'NUM-LEFTPAD'):
        n_ok += 1
    if n_ok:
        res.ok('RepeaterNumber: str(V) left-padded to token.size on %d paths' % n_ok)
    res.require_floor(4)


def _padded(ret):
    """ret == str(V) left-padded with zeros to token.size  ->  ('ok', V) | ('bad', why) | None"""
    from ..pattern import match_expr
    for pat in ("'0' * max(0, $w - len(str($v))) + str($v)", "'0' * max($w - len(str($v)), 0) + str($v)", "str($v).rjust($w, '0')", "str($v).zfill($w)"):
        b = match_expr(pat, ret)
        if b is not None:
            if src_of(b['w']) == 'token.size':
                return ('ok', b['v'])
            return ('bad', 'the pad width is %s, not the number of $ characters (token.size)' % src_of(b['w']))
    for pat, why in (("str($v) + '0' * $n", "zeros are appended after the digits: the number's value changes"),
                     ("str($v).ljust($w, '0')", "zeros are appended after the digits: the number's value changes"),
                     ("'0' * ($w - len(str($v))) + str($v)", None),
                     ("$x[$a:]", 'the padded numeral is sliced: counters wider than the pad width lose digits'),
                     ("$x[:$a]", 'the padded numeral is sliced: counters wider than the pad width lose digits'),
                     ("str($v)", None)):
        b = match_expr(pat, ret)
        if b is not None:
            if pat == "str($v)":
                return ('nopad', b['v'])
            if why is None:
                return ('ok', b['v']) if src_of(b['w']) == 'token.size' else None     # '0' * negative == '' : same as max(0, ..)
            return ('bad', why)
    return None


def repeater_number_paths(p, f, res, rname):
    """yield (path, V, form) for every feasible path of RepeaterNumber whose result is a correctly padded str(V); report the others"""
    from .. import sympath
    try:
        paths = sympath.feasible(sympath.summaries(p, f))
    except sympath.Unsupported as e:
        res.undecided('RepeaterNumber', str(e))
        return
    if not paths:
        raise AnalysisError('%s: RepeaterNumber has no path' % rname)
    for q in paths:
        if q.ret is None:
            res.undecided('RepeaterNumber [%s]' % q.cond_str(), 'path does not return a string')
            continue
        r = _padded(q.ret)
        if r is None:
            res.undecided('RepeaterNumber [%s] returns %s' % (q.cond_str(), src_of(q.ret)), 'result is not recognisably str(V) padded with zeros')
        elif r[0] == 'bad':
            if rname == 'NUM-LEFTPAD':
                res.bad(F(rname, f, f.node, 'return %s' % src_of(q.ret), r[1], details=['when ' + q.cond_str()]))
        elif r[0] == 'nopad':
            # unpadded on this path: fine only when the path assumes width <= 1 ... cannot be decided from the text
            if rname == 'NUM-LEFTPAD':
                res.undecided('RepeaterNumber [%s] returns %s' % (q.cond_str(), src_of(q.ret)), 'unpadded result on a path whose width condition is not understood')
        else:
            yield q, r[1], r[0]


# --------------------------------------------------------------- NUM-LINEAR
@rule('NUM-LINEAR', 'D', 'repeater counter formulas: forward base+i, reverse base+count-i-1, nearest repeater, parent clamp')
def num_linear(p, res):
    f = p.func('abbreviation.stringify.RepeaterNumber')
    STACK = 'state.repeaters'
    TOP = ('state.repeaters[-1]', 'state.repeaters[len(state.repeaters) - 1]')

    def cmp_lin(src):
        """integer comparison -> (linear form without constant, k) meaning  form > k ; None when not of that kind"""
        try:
            e = ast.parse(src, mode='eval').body
        except SyntaxError:
            return None
        if not (isinstance(e, ast.Compare) and len(e.ops) == 1):
            return None
        d = linear(ast.BinOp(left=e.left, op=ast.Sub(), right=e.comparators[0]))
        if d is None:
            return None
        k = -d.pop('1', 0)
        op = type(e.ops[0])
        if op is ast.Gt:
            return (d, k, '>')
        if op is ast.GtE:
            return (d, k - 1, '>')
        if op is ast.Lt:
            return ({a: -v for a, v in d.items()}, -k, '>')
        if op is ast.LtE:
            return ({a: -v for a, v in d.items()}, -k - 1, '>')
        if op is ast.NotEq:
            return (d, k, '!=')
        if op is ast.Eq:
            return (d, k, '==')
        return None

    def nonempty(q):
        """does the path assume the repeater stack non-empty?  True / False / None"""
        for src, pol in q.conds:
            if src == STACK:
                return pol
            c = cmp_lin(src)
            if c and c[0] == {'len(%s)' % STACK: 1} and c[2] == '>':
                if c[1] == 0:
                    return pol
                if c[1] > 0 and pol:
                    return True
                if c[1] < 0 and not pol:
                    return False
        return None

    def top(e):
        return src_of(e) in TOP

    n_paths = 0
    for q, V, _ in repeater_number_paths(p, f, res, 'NUM-LINEAR'):
        n_paths += 1
        ne = nonempty(q)
        where = ['when ' + q.cond_str()]
        reads = [x for x in ast.walk(V) if isinstance(x, ast.Subscript) and src_of(x.value) == STACK]
        if reads and ne is not True:
            res.bad(F('NUM-LINEAR', f, f.node, 'V = %s' % src_of(V), 'the repeater stack is indexed on a path that does not establish it is non-empty: `$` outside any repeater raises IndexError', details=where))
            continue
        if ne is False or not reads:
            if p.try_const(f, V) == 1 and ne is False:
                res.ok('no repeater: counter is 1')
            elif ne is False and isinstance(p.try_const(f, V), int):
                res.bad(F('NUM-LINEAR', f, f.node, 'V = %s' % src_of(V), 'counter without any repeater is 1', details=where))
            elif ne is False and linear(V) is not None:
                res.bad(F('NUM-LINEAR', f, f.node, 'V = %s' % src_of(V), 'counter without any repeater is 1 (the base only applies inside a repeater)', details=where))
            else:
                res.undecided('V = %s [%s]' % (src_of(V), q.cond_str()), 'path without stack read is not recognisably the no-repeater case')
            continue
        # split V into the own-repeater part and the parent contribution (a product  R.count * state.repeaters[PIX].value)
        lin = linear(V)
        if lin is None:
            res.undecided('V = %s' % src_of(V), 'counter expression is not linear')
            continue
        prod = {k: v for k, v in lin.items() if '*' in k}
        own = {k: v for k, v in lin.items() if '*' not in k}
        rev = q.cond('token.reverse')
        par = q.cond('token.parent')
        R = TOP[0]
        own_n = {}
        for k, v in own.items():
            for t in TOP:
                k = k.replace(t, R)
            own_n[k] = own_n.get(k, 0) + v
        want_rev = {'token.base': 1, R + '.count': 1, R + '.value': -1, '1': -1}
        want_fwd = {'token.base': 1, R + '.value': 1}
        if rev is None:
            if own_n in (want_rev, want_fwd):
                res.bad(F('NUM-LINEAR', f, f.node, 'V = %s' % show(own_n), 'the counter direction does not depend on token.reverse on this path', details=where))
            else:
                res.undecided('V = %s [%s]' % (show(own_n), q.cond_str()), 'path does not test token.reverse')
            continue
        want = want_rev if rev else want_fwd
        label = 'reverse' if rev else 'forward'
        if own_n != want:
            res.bad(F('NUM-LINEAR', f, f.node, 'V = %s' % show(own_n), '%s counter must be %s, is %s' % (label, show(want), show(own_n)), details=where))
            continue
        # parent contribution
        differs = None
        pix_ok = None
        for src, pol in q.conds:
            c = cmp_lin(src)
            if c and c[2] in ('!=', '==') and any(a.startswith('max(') for a in c[0]):
                differs = pol if c[2] == '!=' else (not pol)
        if not prod:
            if par is True and differs is True:
                res.bad(F('NUM-LINEAR', f, f.node, 'V = %s' % show(lin), 'the contribution of the parent repeater (`$@^`) is missing', details=where))
            else:
                res.ok('%s: V = %s' % (label, show(own_n)))
            continue
        if len(prod) != 1 or list(prod.values()) != [1]:
            res.undecided('V = %s' % show(lin), 'parent contribution not recognised')
            continue
        term = list(prod)[0]
        fa = sorted(term.split('*'))
        idx = [x for x in ast.walk(V) if isinstance(x, ast.Subscript) and src_of(x.value) == STACK and src_of(x) not in TOP]
        cnt_ok = any(x in (t + '.count' for t in TOP) for x in fa)
        if not cnt_ok or len(idx) != 1 or (src_of(idx[0]) + '.value') not in fa:
            res.undecided('V = %s' % show(lin), 'parent contribution must be <own>.count * state.repeaters[<parent index>].value')
            continue
        ix = idx[0].slice
        clamp = None
        if isinstance(ix, ast.Call) and isinstance(ix.func, ast.Name) and ix.func.id == 'max' and len(ix.args) == 2:
            for a0, a1 in ((ix.args[0], ix.args[1]), (ix.args[1], ix.args[0])):
                if p.try_const(f, a0) == 0 and linear(a1) == {'len(%s)' % STACK: 1, '1': -1, 'token.parent': -1}:
                    clamp = True
        elif linear(ix) is not None and 'token.parent' in linear(ix):
            clamp = False
        if clamp is True:
            if par is False:
                res.bad(F('NUM-LINEAR', f, f.node, 'V = %s' % show(lin), 'a parent contribution is added although the token has no `^`', details=where))
            elif differs is True:
                res.ok('%s with parent: V = %s' % (label, show(lin)))
            else:
                res.bad(F('NUM-LINEAR', f, f.node, 'V = %s' % show(lin), 'the parent contribution is added without checking that the (clamped) parent differs from the own repeater: `$@^` inside a single repeater counts twice', details=where))
        elif clamp is False:
            res.bad(F('NUM-LINEAR', f, idx[0], 'state.repeaters[%s]' % src_of(ix),
                      'the parent repeater index must be clamped: max(0, last_ix - token.parent); without the clamp `$@^^` on a shallow nesting indexes outside the repeater stack (or wraps around to an inner repeater)', details=where))
        else:
            res.undecided('state.repeaters[%s]' % src_of(ix), 'parent index not recognised')
    if n_paths < 3:
        res.undecided('RepeaterNumber', 'fewer than 3 recognised paths (no-repeater, forward, reverse)')
    # tokenizer side, decided on the symbolic path summaries of repeater_number(): the constructor receives
    # (characters consumed by the $ run, result of eating '-', the digit run after '@' or 1, number of '^', ...)
    from .. import sympath
    t = p.func('abbreviation.tokenizer.repeater_number')
    try:
        tpaths = sympath.feasible(sympath.summaries(p, t, inline=True))
    except sympath.Unsupported as e:
        tpaths = []
        res.undecided('repeater_number', str(e))
    roles_seen = None
    n_ctor = 0
    for q in tpaths:
        ctor = [(sym, n) for sym, n, _ in q.events if isinstance(n, ast.Call) and src_of(n.func).endswith('RepeaterNumber')]
        if not ctor:
            continue
        if len(ctor) != 1 or len(ctor[0][1].args) < 4:
            res.undecided('repeater_number [%s]' % q.cond_str(), 'one RepeaterNumber(size, reverse, base, parent, ..) expected')
            continue
        n_ctor += 1
        c = ctor[0][1]
        ev = list(q.events)
        first = next((n for _, n, _ in ev if isinstance(n, ast.Call)), None)
        dollar = first is not None and src_of(first) in ('scanner.eat_while(Chars.Dollar)',)
        # size
        a0 = c.args[0]
        sz = None
        if isinstance(a0, ast.Name) and a0.id in q.snaps:
            nm, val, at = q.snaps[a0.id]
            lin = linear(val)
            starts = [k for k in (lin or {}) if k in q.snaps and src_of(q.snaps[k][1]) == 'scanner.pos' and q.snaps[k][2] == 0]
            if lin is not None and dollar and at == 1 and len(starts) == 1 and lin == {'scanner.pos': 1, starts[0]: -1}:
                sz = True
            elif lin is not None and dollar and at == 1 and len(starts) == 1 and lin.get('scanner.pos') == 1 and lin.get(starts[0]) == -1:
                sz = 'off'
        if sz is True:
            res.ok('size = characters consumed by the $ run')
        elif sz == 'off':
            res.bad(F('NUM-LINEAR', t, c, 'size = %s' % src_of(q.snaps[a0.id][1]), 'width of a $ run is exactly the number of characters consumed'))
        else:
            res.undecided('size argument %s' % src_of(a0), 'not recognisably the length of the $ run')
        # base
        a2 = c.args[2]
        cv = p.try_const(t, a2)
        if isinstance(cv, int) and not isinstance(cv, bool):
            if cv == 1:
                res.ok('base defaults to 1')
            else:
                res.bad(F('NUM-LINEAR', t, c, 'base = %r [%s]' % (cv, q.cond_str()), 'numbering starts at 1 unless @M is given'))
        elif isinstance(a2, ast.Call) and isinstance(a2.func, ast.Name) and a2.func.id == 'int':
            res.ok('base = int(<digit run>)  (run checked by EXC-NUMCONV)')
        else:
            res.undecided('base argument %s' % src_of(a2), 'neither 1 nor the digit run')
        # reverse
        a1 = c.args[1]
        if isinstance(a1, ast.Constant) and a1.value is False:
            res.ok('reverse = False without @-')
        elif isinstance(a1, ast.Name) and any(sym == a1.id and src_of(n) == 'scanner.eat(Chars.Dash)' for sym, n, _ in ev):
            res.ok("reverse = whether '-' was eaten")
        elif isinstance(a1, ast.Constant) and a1.value is True:
            res.bad(F('NUM-LINEAR', t, c, 'reverse = True [%s]' % q.cond_str(), 'numbering is reversed although no `@-` was read'))
        else:
            res.undecided('reverse argument %s' % src_of(a1), "not the result of eating '-'")
    if tpaths and n_ctor == 0:
        res.undecided('repeater_number', 'no path builds a RepeaterNumber token')
    from ..pattern import find_stmt
    tn = t.node
    if find_stmt('while $s.eat(Chars.Climb):\n    $p += 1', tn):
        res.ok('parent = number of ^ eaten')
    else:
        res.undecided('parent count loop', 'while scanner.eat(Chars.Climb): parent += 1')
    # constructor: positional parameter i is stored in the field RepeaterNumber() reads for role i
    init = p.cls('abbreviation.tokenizer.tokens.RepeaterNumber').methods['__init__']
    stores = {}
    for n in init.body_nodes():
        if isinstance(n, ast.Assign) and len(n.targets) == 1 and isinstance(n.targets[0], ast.Attribute) and src_of(n.targets[0].value) == 'self' and isinstance(n.value, ast.Name):
            stores[n.value.id] = n.targets[0].attr
    roles = ['size', 'reverse', 'base', 'parent']
    got = [stores.get(x) for x in init.params[1:5]]
    if got == roles:
        res.ok('RepeaterNumber.__init__: positional arguments land in the fields (size, reverse, base, parent)')
    elif None in got:
        res.undecided('RepeaterNumber.__init__', 'fields are not plain copies of the parameters')
    else:
        res.bad(F('NUM-LINEAR', init, init.node, 'RepeaterNumber.__init__ stores %s' % got, 'the tokenizer passes (size, reverse, base, parent) positionally; the fields read by the stringifier must receive them in this order'))
    # convert_statement: the copy index starts at 0 and is what the running repeater publishes as .value
    cs = p.func('abbreviation.convert.convert_statement')
    whiles = [n for n in cs.body_nodes() if isinstance(n, ast.While) and isinstance(n.test, ast.Compare) and isinstance(n.test.left, ast.Name)
              and len(n.test.ops) == 1 and isinstance(n.test.ops[0], ast.Lt) and src_of(n.test.comparators[0]).endswith('.count')]
    if len(whiles) != 1:
        res.undecided('copy loop of convert_statement', 'while <i> < <repeater>.count')
    else:
        w = whiles[0]
        ctr = w.test.left.id
        pm = p.parents(cs)
        blk = pm.get(w)
        body = next((getattr(blk, fld) for fld in ('body', 'orelse') if isinstance(getattr(blk, fld, None), list) and w in getattr(blk, fld)), None)
        init_ = [st for st in (body[:body.index(w)] if body else []) if isinstance(st, ast.Assign) and src_of(st.targets[0]) == ctr]
        iv = p.try_const(cs, init_[-1].value) if init_ else None
        if iv == 0:
            res.ok('copy index starts at 0')
        elif isinstance(iv, int):
            res.bad(F('NUM-LINEAR', cs, init_[-1], src_of(init_[-1]), 'the copy index must start at 0 (RepeaterNumber adds the base)'))
        else:
            res.undecided('initial value of the copy index', 'constant 0 expected')
        pub = [st for st in ast.walk(w) if isinstance(st, ast.Assign) and isinstance(st.targets[0], ast.Attribute) and st.targets[0].attr == 'value'
               and src_of(st.targets[0].value) == src_of(w.test.comparators[0])[:-len('.count')]]
        if len(pub) == 1 and linear(pub[0].value) == {ctr: 1}:
            res.ok('the running repeater publishes the copy index: %s' % src_of(pub[0]))
        elif len(pub) == 1 and linear(pub[0].value) is not None and linear(pub[0].value).get(ctr) == 1:
            res.bad(F('NUM-LINEAR', cs, pub[0], src_of(pub[0]), 'the published copy number must be the 0-based copy index itself'))
        else:
            res.undecided('publication of the copy index', '<repeater>.value = <i> inside the loop')
    res.require_floor(12)


# ----------------------------------------------------------------- NUM-FRAC
@rule('NUM-FRAC', 'N', 'fractional numbers are printed in fixed-point notation with a number of decimals (never in significant-digit / exponent notation)')
def num_frac(p, res):
    from .. import shape
    f = p.func('stylesheet.color.frac')
    defs = shape.defs_of(f.node, params=f.params)
    n = 0
    for b in f.body_nodes():
        if not (isinstance(b, ast.BinOp) and isinstance(b.op, ast.Mod)):
            continue
        left = shape.expand(b.left, defs)
        parts = shape.strparts(left) if isinstance(left, (ast.BinOp, ast.JoinedStr)) else ([left.value] if isinstance(left, ast.Constant) and isinstance(left.value, str) else None)
        if not parts or not isinstance(parts[-1], str) or not isinstance(parts[0], str):
            continue
        n += 1
        conv = parts[-1][-1:]
        if conv == 'f' and parts[0].startswith('%.'):
            res.ok('frac: %s (fixed point, <digits> decimals)' % src_of(b))
        elif conv in ('g', 'G', 'e', 'E', 'r', 's'):
            res.bad(F('NUM-FRAC', f, b, src_of(b), "conversion '%s' does not print a fixed number of decimals: a value with more significant digits is rounded differently or printed with an exponent" % conv,
                      failing_input="expand('c#1.12345', {'type': 'stylesheet'})"))
        else:
            res.undecided('frac: %s' % src_of(b), "'%.<digits>f' expected")
    if n == 0:
        res.undecided('stylesheet.color.frac', 'no %-format found: how the number is printed is not decided')
    res.require_floor(1)


# ------------------------------------------------------------- NUM-SHORTHEX
@rule('NUM-SHORTHEX', 'D', 'short hex is chosen only when every channel allows it; channels printed in r,g,b order')
def num_shorthex(p, res):
    from .. import sympath, shape
    f = p.func('stylesheet.color.as_hex')
    tok, sh = f.params[0], f.params[1]
    try:
        paths = sympath.feasible(sympath.summaries(p, f, inline=False, pure=('is_short_hex', 'to_short_hex', 'to_hex')))
    except sympath.Unsupported as e:
        paths = []
        res.undecided('as_hex', str(e))
    need = {sh: True, 'is_short_hex(%s.r)' % tok: True, 'is_short_hex(%s.g)' % tok: True, 'is_short_hex(%s.b)' % tok: True}
    n_short = n_long = 0
    for q in paths:
        parts = shape.strparts(q.ret) if q.ret is not None else None
        where = ['path: ' + q.cond_str()]
        if parts is None or len(parts) != 4 or parts[0] != '#' or not all(isinstance(x, tuple) for x in parts[1:]):
            res.undecided('as_hex returns %s' % (src_of(q.ret) if q.ret is not None else None), "'#' + fn(r) + fn(g) + fn(b)")
            continue
        calls = [ast.parse(x[1], mode='eval').body for x in parts[1:]]
        if not all(isinstance(c, ast.Call) and isinstance(c.func, ast.Name) and len(c.args) == 1 for c in calls):
            res.undecided('as_hex returns %s' % src_of(q.ret), 'three formatted channels')
            continue
        fns = {c.func.id for c in calls}
        chans = [src_of(c.args[0]) for c in calls]
        if chans != ['%s.r' % tok, '%s.g' % tok, '%s.b' % tok]:
            res.bad(F('NUM-SHORTHEX', f, f.node, src_of(q.ret), 'channels must be printed in r, g, b order, each once (is %s)' % chans, details=where))
            continue
        if len(fns) != 1:
            res.bad(F('NUM-SHORTHEX', f, f.node, src_of(q.ret), 'short and long channel forms are mixed in one colour', details=where))
            continue
        fn_ = fns.pop()
        rc = q.rconds()
        have = {k: rc.get(k) for k in need}
        if fn_ == 'to_short_hex':
            missing = [k for k, v in have.items() if v is not True]
            if missing:
                res.bad(F('NUM-SHORTHEX', f, f.node, 'short form [%s]' % q.cond_str(), 'short form requires `short` and is_short_hex of r, g and b; this path does not establish %s' % missing, details=where))
            else:
                n_short += 1
        elif fn_ == 'to_hex':
            if all(v is True for v in have.values()):
                res.bad(F('NUM-SHORTHEX', f, f.node, 'long form [%s]' % q.cond_str(), 'the short form is requested and possible but the long form is printed', details=where))
            else:
                n_long += 1
        else:
            res.undecided('as_hex formats channels with %s' % fn_, 'to_hex / to_short_hex')
    if n_short and n_long:
        res.ok('as_hex: short form exactly under short and is_short_hex(r), (g), (b); channels in r, g, b order', n=3)
    ev = MiniEval(p, hooks={'emmet.stylesheet.color.frac': lambda num, digits=4: str(num)})
    if res.undecideds and not res.findings:
        # Fallback when the paths of as_hex are no longer readable symbolically: as_hex may touch the channel values only by handing
        # them to is_short_hex / to_hex / to_short_hex (checked structurally); these three are tabulated over all 256 values below, so
        # as_hex is decided by its table over the 2 x 2^3 classes (short requested?, r/g/b short-able?) with one representative each.
        helpers = {'is_short_hex', 'to_hex', 'to_short_hex'}
        pm = p.parents(f)
        only_args = True
        for n in f.body_nodes():
            if isinstance(n, ast.Attribute) and isinstance(n.value, ast.Name) and n.value.id == tok and n.attr in ('r', 'g', 'b'):
                par = pm.get(n)
                while isinstance(par, (ast.Tuple, ast.List)):
                    par = pm.get(par)
                ok_use = isinstance(par, ast.Call) and isinstance(par.func, ast.Name) and (par.func.id in helpers or par.func.id in ('map', 'tuple', 'list')) \
                    or isinstance(par, ast.Assign)
                if not ok_use:
                    only_args = False
        if only_args and not any(isinstance(n, (ast.Compare, ast.AugAssign)) or (isinstance(n, ast.BinOp) and not isinstance(n.op, (ast.Add, ast.Mod))) for n in f.body_nodes()):
            try:
                wrong = None
                for want_short in (True, False):
                    for mask in range(8):
                        ch = [0x11 if mask & (1 << i) else 0x12 for i in range(3)]
                        got = ev.call(f, [Rec(r=ch[0], g=ch[1], b=ch[2], a=1), want_short])
                        use_short = want_short and mask == 7
                        exp = '#' + ''.join(('%x' % (c >> 4)) if use_short else ('%02x' % c) for c in ch)
                        if got != exp and wrong is None:
                            wrong = (want_short, ch, got, exp)
                if wrong is None:
                    res.undecideds[:] = [u for u in res.undecideds if not u[0].startswith('as_hex')]
                    res.ok('as_hex: table over the 16 classes (short requested, r/g/b short-able): short form exactly when requested and every channel allows it', n=3)
                else:
                    res.undecideds[:] = [u for u in res.undecideds if not u[0].startswith('as_hex')]
                    res.bad(F('NUM-SHORTHEX', f, f.node, 'as_hex(r=%#x, g=%#x, b=%#x, short=%r) -> %r' % (wrong[1][0], wrong[1][1], wrong[1][2], wrong[0], wrong[2]),
                              'expected %r: the short form must be chosen exactly when it is requested and every channel is short-able, channels in r, g, b order' % wrong[3]))
            except AnalysisError:
                pass
    ish = p.func('stylesheet.color.is_short_hex')
    tsh = p.func('stylesheet.color.to_short_hex')
    # finite table: all 256 channel values
    bad = [n for n in range(256) if bool(ev.call(ish, [n])) != (n % 17 == 0)]
    if bad:
        res.bad(F('NUM-SHORTHEX', ish, ish.node, 'is_short_hex(%d)' % bad[0], 'a channel is short-hex-able iff both nibbles are equal (n %% 17 == 0); wrong for %d values' % len(bad)))
    else:
        res.ok('is_short_hex == (n % 17 == 0) for all 256 channel values')
    bad = [n for n in range(0, 256, 17) if ev.call(tsh, [n]) != '%x' % (n >> 4)]
    if bad:
        res.bad(F('NUM-SHORTHEX', tsh, tsh.node, 'to_short_hex(%d)' % bad[0], 'short form of a channel is its high nibble'))
    else:
        res.ok('to_short_hex(n) == hex(n >> 4) for the 16 short-able values')
    th = p.func('stylesheet.color.to_hex')
    try:
        bad = [n for n in range(256) if ev.call(th, [n]) != '%02x' % n]
    except AnalysisError:
        bad = None
    if bad is None:
        raise AnalysisError('NUM-SHORTHEX: to_hex outside the evaluable subset')
    if bad:
        res.bad(F('NUM-SHORTHEX', th, th.node, 'to_hex(%d) -> %r' % (bad[0], ev.call(th, [bad[0]])),
                  'to_hex must print the two-digit hex value of the channel; wrong for %d of 256 values' % len(bad), failing_input='c#e7bc0b'))
    else:
        res.ok('to_hex(n) == %02x for all 256 channel values')
    # color(): transparent only for all-zero incl. alpha; alpha 1 -> hex; else rgba
    c = p.func('stylesheet.color.color')
    tbl_ok = True
    for r_, g_, b_, a_ in ((0, 0, 0, 0), (0, 0, 0, 1), (1, 0, 0, 0), (0, 0, 0, 0.5), (255, 255, 255, 1), (0, 0, 1, 0.5)):
        got = ev.call(c, [Rec(r=r_, g=g_, b=b_, a=a_), True]) if True else None
        if (r_, g_, b_, a_) == (0, 0, 0, 0):
            exp = 'transparent'
        elif a_ == 1:
            exp = '#'
        else:
            exp = 'rgba('
        if not (got == exp or (isinstance(got, str) and got.startswith(exp) and exp != 'transparent')):
            tbl_ok = False
            res.bad(F('NUM-SHORTHEX', c, c.node, 'color(r=%r,g=%r,b=%r,a=%r) -> %r' % (r_, g_, b_, a_, got), 'expected output form %r' % exp))
    if tbl_ok:
        res.ok('color(): transparent / #hex / rgba( decision table (6 classes)')
    ar = p.func('stylesheet.color.as_rgb')
    VA = shape.View(p, ar, inline=False)
    t2 = ar.params[0]
    lst = VA.find_stmt('$v = [str(%s.r), str(%s.g), str(%s.b)]' % (t2, t2, t2))
    apps = [c for c in VA.calls('append')]
    if len(lst) == 1 and len(apps) == 1 and src_of(apps[0].func.value) == src_of(lst[0][1]['v']) and src_of(apps[0].args[0]).startswith('frac(%s.a' % t2) \
            and any(isinstance(n, ast.Call) and isinstance(n.func, ast.Attribute) and n.func.attr == 'join' and n.args and src_of(n.args[0]) == src_of(lst[0][1]['v']) for n in VA.nodes):
        res.ok('as_rgb: r, g, b, alpha order')
    else:
        disp = [n for n in VA.nodes if isinstance(n, ast.List) and len(n.elts) >= 3 and all(isinstance(e, ast.Call) and src_of(e.func) == 'str' for e in n.elts[:3])]
        if disp and [src_of(e.args[0]) for e in disp[0].elts[:3]] != ['%s.r' % t2, '%s.g' % t2, '%s.b' % t2]:
            res.bad(F('NUM-SHORTHEX', ar, disp[0], src_of(disp[0]), 'rgba components must be r, g, b then alpha'))
        else:
            res.undecided('as_rgb value list', 'rgba components must be r, g, b then alpha')
    res.require_floor(8)


# ------------------------------------------------------------- NUM-FIELDIDX
@rule('NUM-FIELDIDX', 'D', 'tabstop numbers: state.field + relative index, advanced by largest relative index + 1')
def num_fieldidx(p, res):
    """Decided on symbolic summaries of push_tokens: (a) the statements before the loop give the start value of the running
    accumulator, (b) one generic iteration with the accumulator symbolic gives the emitted number and the update, (c) the
    statements after the loop give the advance of state.field."""
    from .. import sympath, norm, shape
    f = p.func('markup.format.utils.push_tokens')
    fn = norm.nf(p, f, inline=True)
    body = [st for st in fn.body if not (isinstance(st, ast.Expr) and isinstance(st.value, ast.Constant))]
    loops = [i for i, st in enumerate(body) if isinstance(st, ast.For)]
    if len(loops) != 1 or not isinstance(body[loops[0]].target, ast.Name) or src_of(body[loops[0]].iter) != f.params[0]:
        res.undecided('push_tokens', 'one top-level loop over the tokens expected')
        res.require_floor(9)
        return
    li = loops[0]
    lp = body[li]
    T = lp.target.id
    ST = f.params[1]
    try:
        pre = sympath.feasible(sympath.block_summaries(p, f, body[:li]))
        carried = sorted({n.id for n in ast.walk(ast.Module(body=lp.body, type_ignores=[])) if isinstance(n, ast.Name) and isinstance(n.ctx, ast.Store)} - {T})
        env0 = dict(pre[0].env) if len(pre) == 1 else {}
        acc_env = dict(env0)
        for c in carried:
            acc_env[c] = ast.Name(id='_acc_' + c, ctx=ast.Load())
        its = sympath.feasible(sympath.block_summaries(p, f, lp.body, env=acc_env))
        post_env = dict(env0)
        for c in carried:
            post_env[c] = ast.Name(id='_fin_' + c, ctx=ast.Load())
        post = sympath.feasible(sympath.block_summaries(p, f, body[li + 1:], env=post_env))
    except sympath.Unsupported as e:
        res.undecided('push_tokens', str(e))
        res.require_floor(9)
        return
    if len(pre) != 1:
        res.undecided('push_tokens', 'statements before the loop are conditional')
    FIELD = '%s.field' % ST
    acc = None           # the carried variable that holds the running maximum
    n_field = n_str = 0
    for q in its:
        rc = q.rconds()
        isstr = rc.get('isinstance(%s, str)' % T)
        emitted = [(q.resolve(n)) for sym, n, _ in q.events if sym.startswith('_c')]
        where = ['iteration path: ' + q.cond_str()]
        if q.exit not in ('end', 'continue'):
            res.bad(F('NUM-FIELDIDX', f, lp, '%s [%s]' % (q.exit, q.cond_str()), 'every token of the value must be emitted: the loop may not stop early', details=where))
            continue
        if isstr is True:
            if len(emitted) == 1 and src_of(emitted[0].func).endswith('.push_string') and src_of(emitted[0].args[0]) == T \
                    and all(src_of(q.env.get(c)) == '_acc_' + c for c in carried):
                n_str += 1
            elif not emitted:
                res.bad(F('NUM-FIELDIDX', f, lp, 'string token [%s]' % q.cond_str(), 'a text token is not printed', details=where))
            else:
                res.undecided('string token: %s' % [src_of(x) for x in emitted], 'push_string(token) and nothing else')
            continue
        if isstr is None:
            res.undecided('iteration path %s' % q.cond_str(), 'does not distinguish text from fields')
            continue
        pf = [x for x in emitted if src_of(x.func).endswith('.push_field')]
        if len(pf) != 1 or len(emitted) != 1:
            if not pf:
                res.bad(F('NUM-FIELDIDX', f, lp, 'field token [%s]' % q.cond_str(), 'a field token is not printed', details=where))
            else:
                res.undecided('field token: %s' % [src_of(x) for x in emitted], 'one push_field')
            continue
        c0 = pf[0]
        lin = linear(c0.args[0]) if c0.args else None
        if lin != {FIELD: 1, '%s.index' % T: 1}:
            res.bad(F('NUM-FIELDIDX', f, lp, src_of(c0), 'emitted tabstop number must be state.field + token.index, is %s' % show(lin), details=where))
            continue
        if len(c0.args) < 2 or src_of(c0.args[1]) != '%s.name' % T:
            res.bad(F('NUM-FIELDIDX', f, lp, src_of(c0), 'placeholder must be the token name', details=where))
            continue
        # accumulator update
        changed = {c: q.resolve(q.env[c]) for c in carried if src_of(q.env.get(c)) != '_acc_' + c}
        IDX = '%s.index' % T
        for c in carried:
            A = '_acc_' + c
            new = src_of(q.resolve(q.env[c]))
            gt = rc.get('%s > %s' % (IDX, A))
            if gt is None and rc.get('%s < %s' % (A, IDX)) is not None:
                gt = rc['%s < %s' % (A, IDX)]
            if gt is None and rc.get('%s >= %s' % (A, IDX)) is not None:
                gt = not rc['%s >= %s' % (A, IDX)]
            if gt is None and rc.get('%s <= %s' % (IDX, A)) is not None:
                gt = not rc['%s <= %s' % (IDX, A)]
            if new in ('max(%s, %s)' % (A, IDX), 'max(%s, %s)' % (IDX, A)) or (gt is True and new == IDX) or (gt is False and new == A):
                acc = c
                n_field += 1
            elif new == A and gt is None:
                continue            # not the accumulator
            elif new in (IDX, T) and gt is None:
                res.bad(F('NUM-FIELDIDX', f, lp, '%s = %s' % (c, new), 'the counter must advance past the *largest* index used, not the last one: ${2} ${1} would hand out tabstop 2 twice', details=where))
            elif FIELD in new or any(FIELD in k for k in rc if A in k):
                res.bad(F('NUM-FIELDIDX', f, lp, '%s = %s [%s]' % (c, new, q.cond_str()), 'the running maximum compares *relative* indexes (the absolute number is state.field + index)', details=where))
            else:
                res.undecided('%s = %s [%s]' % (c, new, q.cond_str()), 'running maximum of token.index')
    if n_str and n_field and acc:
        res.ok('push_tokens: text through push_string, fields as push_field(state.field + index, name), %s = running maximum of the relative indexes' % acc, n=4)
    elif not acc:
        res.undecided('push_tokens', 'no running maximum recognised')
    if acc:
        init = p.try_const(f, env0.get(acc)) if env0.get(acc) is not None else None
        if init == -1:
            res.ok('largest relative index starts at -1')
        elif isinstance(init, int):
            res.bad(F('NUM-FIELDIDX', f, f.node, '%s = %r' % (acc, init), 'largest relative index starts at -1 (index 0 is a valid field)'))
        else:
            res.undecided('%s initial value' % acc, '-1')
        FIN = '_fin_' + acc
        adv = 0
        for q in post:
            rc = {}
            for k, v in q.rconds().items():
                try:
                    e = ast.parse(k, mode='eval').body
                except SyntaxError:
                    continue
                if isinstance(e, ast.Compare) and len(e.ops) == 1:
                    cv = p.try_const(f, e.comparators[0])
                    if isinstance(cv, int):
                        e = ast.Compare(left=e.left, ops=e.ops, comparators=[ast.Constant(value=cv)])
                rc[src_of(e)] = v
            some = None
            for k, v in rc.items():
                if k in ('%s != -1' % FIN, '%s >= 0' % FIN, '%s > -1' % FIN):
                    some = v
                elif k in ('%s == -1' % FIN, '%s < 0' % FIN):
                    some = not v
            st = [q.resolve(n) for sym, n, _ in q.events if sym == '=' and src_of(n.targets[0]) == FIELD]
            if some is True:
                if len(st) == 1 and linear(st[0].value) == {FIELD: 1, FIN: 1, '1': 1}:
                    adv += 1
                elif len(st) == 1:
                    res.bad(F('NUM-FIELDIDX', f, f.node, '%s = %s' % (FIELD, src_of(st[0].value).replace(FIN, acc)), 'the next value starts after the largest index used: state.field += largest + 1'))
                else:
                    res.bad(F('NUM-FIELDIDX', f, f.node, 'no advance [%s]' % q.cond_str().replace(FIN, acc), 'the field counter does not advance although fields were emitted: the next value re-uses their numbers'))
            elif some is False:
                if st:
                    res.bad(F('NUM-FIELDIDX', f, f.node, '%s = %s' % (FIELD, src_of(st[0].value).replace(FIN, acc)), 'the counter only advances when a field was emitted'))
                else:
                    adv += 1
            else:
                if st and linear(st[0].value) == {FIELD: 1, FIN: 1, '1': 1}:
                    adv += 2        # unconditional: -1 + 1 == 0, same thing
                else:
                    res.undecided('after the loop [%s]' % q.cond_str().replace(FIN, acc), 'if largest != -1: state.field += largest + 1')
        if adv >= 2:
            res.ok('state.field += largest + 1 exactly when a field was emitted', n=2)
    ws = p.cls('markup.format.walk.WalkState').methods['__init__']
    st = [n for n in ws.body_nodes() if isinstance(n, ast.Assign) and src_of(n.targets[0]) == 'self.field']
    if len(st) == 1 and p.try_const(ws, st[0].value) == 1:
        res.ok('WalkState.field starts at 1')
    elif len(st) == 1 and isinstance(p.try_const(ws, st[0].value), int):
        res.bad(F('NUM-FIELDIDX', ws, st[0], src_of(st[0]), 'tabstops are numbered from 1'))
    else:
        res.undecided('WalkState.field', 'self.field = 1')
    m, node = p.module_const('markup.format.utils', 'caret')
    if isinstance(node, ast.List) and len(node.elts) == 1 and isinstance(node.elts[0], ast.Call) and src_of(node.elts[0].func) == 'Field':
        c = node.elts[0]
        args = {**{k.arg: k.value for k in c.keywords}}
        fi = p.cls('abbreviation.tokenizer.tokens.Field').methods['__init__'].params[1:]
        for nm, a in zip(fi, c.args):
            args[nm] = a
        if p.try_const(m, args.get('index')) == 0:
            res.ok("caret = one field with relative index 0")
        else:
            res.bad(Finding('NUM-FIELDIDX', m.relpath, 'markup.format.utils.caret', src_of(node), 'the default caret is one field with relative index 0', node.lineno))
    else:
        res.undecided('caret = %s' % src_of(node), 'one Field with index 0')
    res.require_floor(9)
