"""RNG-* : ranges, sentinels, clamps (the syntactic members of the family; the
path-sensitive ones live in scn.py / path.py)."""
import ast

from . import rule
from ..core import AnalysisError, src_of, Func, Class
from ..report import Finding
from .. import callgraph


def F(rule_name, f, node, construct, message, **kw):
    return Finding(rule_name, f.module.relpath, f.short, construct, message, getattr(node, 'lineno', 0), **kw)


# --------------------------------------------------------------- RNG-STRICT
def pos_bounds(f, posname='pos'):
    """All comparisons on `posname` inside f: list of (node, lo_expr|None, hi_expr|None, strict_lo, strict_hi)."""
    out = []
    for n in f.body_nodes():
        if not isinstance(n, ast.Compare):
            continue
        terms = [n.left] + list(n.comparators)
        if not any(isinstance(t, ast.Name) and t.id == posname for t in terms):
            continue
        los, his = [], []
        for i, op in enumerate(n.ops):
            a, b = terms[i], terms[i + 1]
            a_is = isinstance(a, ast.Name) and a.id == posname
            b_is = isinstance(b, ast.Name) and b.id == posname
            if not (a_is or b_is):
                continue
            if isinstance(op, (ast.Lt, ast.LtE)):
                strict = isinstance(op, ast.Lt)
                if b_is:
                    los.append((a, strict))      # a < pos
                else:
                    his.append((b, strict))      # pos < b
            elif isinstance(op, (ast.Gt, ast.GtE)):
                strict = isinstance(op, ast.Gt)
                if b_is:
                    his.append((a, strict))      # a > pos
                else:
                    los.append((b, strict))      # pos > b
            else:
                los.append((None, None))
        out.append((n, los, his))
    return out


def _containment_sites(p, f):
    """pair lo/hi bounds that occur in one test (chained compare or `and`)."""
    sites = []
    pm = p.parents(f)
    used = set()
    for n, los, his in pos_bounds(f):
        if id(n) in used:
            continue
        par = pm.get(n)
        if isinstance(par, ast.BoolOp) and isinstance(par.op, ast.And):
            allb = [(x, l, h) for x, l, h in pos_bounds(f) if pm.get(x) is par]
            if len(allb) > 1:
                L, H = [], []
                for x, l, h in allb:
                    used.add(id(x))
                    L += l
                    H += h
                sites.append((par, L, H))
                continue
        sites.append((n, los, his))
    return sites


def _strict_rule(p, res, rname, funcs, want_pairs=None):
    seen_pairs = {}
    for fq in funcs:
        f = p.func(fq)
        pairs = set()
        for node, los, his in _containment_sites(p, f):
            if len(los) == 1 and len(his) == 1 and los[0][0] is not None:
                (lo, slo), (hi, shi) = los[0], his[0]
                if not (slo and shi):
                    res.bad(F(rname, f, node, src_of(node), 'the position must lie strictly inside the range: both comparisons must be strict (<)'))
                else:
                    res.ok('%s: %s' % (f.short, src_of(node)))
                pairs.add((src_of(lo), src_of(hi)))
            # one-sided tests (e.g. the early-stop `pos < end`) are not containment decisions; a containment test that
            # lost one side shows up as a missing (lower, upper) pair in the caller's comparison of bound sets
        seen_pairs[fq] = pairs
    return seen_pairs


@rule('RNG-STRICT/html', 'N', 'HTML match / balanced_outward test the position with one strict predicate start < pos < end')
def rng_strict_html(p, res):
    pairs = _strict_rule(p, res, 'RNG-STRICT/html', ['html_matcher.match.scan_callback', 'html_matcher.balanced_outward.scan_callback'])
    a, b = pairs['html_matcher.match.scan_callback'], pairs['html_matcher.balanced_outward.scan_callback']
    want = {('start', 'end'), ('tag.start', 'end')}
    for fq, got in pairs.items():
        if got != want and got < want:
            res.undecided('%s: containment bounds %s' % (fq, sorted(got)), 'expected %s in this function' % sorted(want))
        elif got != want:
            res.bad(F('RNG-STRICT/html', p.func(fq), p.func(fq).node, 'containment bounds %s' % sorted(got),
                      'self-closing tags are tested against their own range and pairs against open-tag start .. close-tag end: expected %s' % sorted(want)))
        else:
            res.ok('%s bounds %s' % (fq, sorted(got)))
    res.require_floor(6)


@rule('RNG-STRICT/css', 'N', 'CSS match / balanced_outward test the position strictly inside selector..block-end and name..value-end')
def rng_strict_css(p, res):
    pairs = _strict_rule(p, res, 'RNG-STRICT/css', ['css_matcher.match.scan_callback', 'css_matcher.balanced_outward.scan_callback'])
    for fq, got in pairs.items():
        los = sorted(x[0] for x in got)
        if len(got) != 2 and not any(not l.endswith('[0]') for l in los):
            res.undecided('%s: containment bounds %s' % (fq, sorted(got)), 'two containment tests (selector .. block end, name .. value end) expected in this function')
        elif len(got) == 2 and not any(l.endswith('[1]') or l.endswith('[2]') for l in los) and not all(l.endswith('[0]') for l in los):
            # the pending range is no longer a list (a small class, a tuple with named fields): which field is the start is not
            # visible here; TBL-CSSSCAN / RNG-FRAME look at the values
            res.undecided('%s: containment bounds %s' % (fq, sorted(got)), 'the lower bounds are not subscripts [0] of the pending selector / property range')
        elif len(got) != 2 or not all(l.endswith('[0]') for l in los):
            res.bad(F('RNG-STRICT/css', p.func(fq), p.func(fq).node, 'containment bounds %s' % sorted(got),
                      'lower bounds must be the start ([0]) of the pending selector / property range'))
        else:
            res.ok('%s bounds %s' % (fq, sorted(got)))
    res.require_floor(6)


@rule('RNG-STRICT/actions', 'N', 'get_open_tag tests the position strictly inside the tag')
def rng_strict_actions(p, res):
    pairs = _strict_rule_lenient(p, res)
    res.require_floor(1)


def _strict_rule_lenient(p, res):
    f = p.func('action_utils.html.get_open_tag.scan_callback')
    n = 0
    for node, los, his in _containment_sites(p, f):
        if len(los) == 1 and len(his) == 1:
            (lo, slo), (hi, shi) = los[0], his[0]
            n += 1
            if not (slo and shi) or (src_of(lo), src_of(hi)) != ('start', 'end'):
                res.bad(F('RNG-STRICT/actions', f, node, src_of(node), 'the open tag must strictly contain the position: start < pos < end'))
            else:
                res.ok('%s: %s' % (f.short, src_of(node)))
    if n == 0:
        res.undecided('%s: no two-sided test of the position' % f.short, 'the containment test start < pos < end is spelled as separate one-sided tests; TBL-ACTIONS compares the cases')
    elif n != 1:
        raise AnalysisError('RNG-STRICT/actions: %d containment tests in get_open_tag' % n)


# ----------------------------------------------------------------- RNG-SENT
def css_scan_callbacks(p):
    scan = p.func('css_matcher.scan.scan')
    out = []
    for f, call in callgraph.get(p).callers_of(scan):
        if len(call.args) >= 2:
            e = p.resolve_expr(f, call.args[1])
            if e is not None and e.kind == 'func':
                out.append((f, call, e.obj))
            # a callable object / bound method / table entry is not followed: the caller reports fewer callbacks than reviewed
    return out


def sentinel_types(p):
    """Token types that css scan() can notify with delimiter == -1, and a check
    that those notifies are terminal (after the main loop)."""
    scan = p.func('css_matcher.scan.scan')
    loops = [s for s in scan.node.body if isinstance(s, ast.While)]
    if len(loops) != 1:
        raise AnalysisError('RNG-SENT: css scan() has %d top-level loops' % len(loops))
    after = scan.node.body[scan.node.body.index(loops[0]) + 1:]
    types = set()
    terminal = True
    cbname = scan.params[1] if len(scan.params) > 1 else 'callback'
    for n in scan.body_nodes():
        direct = isinstance(n, ast.Call) and src_of(n.func) == cbname and len(n.args) == 4 and scan.nested.get('notify') is None
        if (isinstance(n, ast.Call) and src_of(n.func) == 'notify' and len(n.args) >= 2) or direct:
            d = p.try_const(scan, n.args[3] if direct else n.args[1])
            if d == -1:
                st = p.enclosing_stmt(scan, n)
                inside_after = any(st is x or any(y is st for y in ast.walk(x)) for x in after)
                if not inside_after:
                    terminal = False
                t = n.args[0]
                alts = [t.body, t.orelse] if isinstance(t, ast.IfExp) else [t]
                for a in alts:
                    types.add(src_of(a))
    # notify() default: delimiter = scanner.start (never -1)
    nf = scan.nested.get('notify')
    if nf is not None and 'if delimiter is None:\n        delimiter = scanner.start' not in src_of(nf.node):
        from .. import norm, shape
        nn = norm.nf(p, nf, inline=False)
        defs = [src_of(x.value) for x in shape.own_nodes(nn) if isinstance(x, ast.Assign) and src_of(x.targets[0]) == 'delimiter']
        if not defs or any('-1' in d for d in defs) or not all('scanner.start' in d or 'delimiter' in d for d in defs):
            raise AnalysisError('RNG-SENT: notify() default delimiter changed')
    return types, terminal


def _neg1_guarded(p, f, node, valsrc):
    """node lies on a branch where `valsrc` was compared with -1 and found different."""
    pm = p.parents(f)
    n = node
    pos_tests = ('%s != -1' % valsrc, '%s >= 0' % valsrc, '%s > -1' % valsrc, '-1 != %s' % valsrc)
    neg_tests = ('%s == -1' % valsrc, '%s < 0' % valsrc, '-1 == %s' % valsrc)
    while n is not None:
        par = pm.get(n)
        if isinstance(par, ast.IfExp):
            t = src_of(par.test)
            if (n is par.body and t in pos_tests) or (n is par.orelse and t in neg_tests):
                return True
        if isinstance(par, ast.If):
            t = src_of(par.test)
            tests = [src_of(v) for v in par.test.values] if isinstance(par.test, ast.BoolOp) and isinstance(par.test.op, ast.And) else [t]
            if n in par.body and any(x in pos_tests for x in tests):
                return True
            if n in par.orelse and t in neg_tests:
                return True
        n = par
    return False


def _branch_types(p, f, node):
    """token types of the enclosing `if token_type == X / in (..)` branch (None = unknown/any)."""
    pm = p.parents(f)
    n = node
    while n is not None:
        par = pm.get(n)
        if isinstance(par, ast.If) and n in par.body:
            t = par.test
            if isinstance(t, ast.Compare) and len(t.ops) == 1 and src_of(t.left) == 'token_type':
                if isinstance(t.ops[0], ast.Eq):
                    return {src_of(t.comparators[0])}
                if isinstance(t.ops[0], ast.In) and isinstance(t.comparators[0], (ast.Tuple, ast.List)):
                    return {src_of(e) for e in t.comparators[0].elts}
        n = par
    return None


@rule('RNG-SENT', 'N', 'arithmetic on a delimiter that may be the -1 sentinel is guarded by a comparison with -1')
def rng_sent(p, res):
    types, terminal = sentinel_types(p)
    res.stats['types_with_sentinel_delimiter'] = sorted(types)
    res.stats['sentinel_notifies_terminal'] = terminal
    if not types:
        raise AnalysisError('RNG-SENT: scan() passes the -1 sentinel nowhere; rule has nothing to decide')
    cbs = css_scan_callbacks(p)
    res.stats['callbacks'] = [cb.short for _, _, cb in cbs]
    if len(cbs) < 7:
        res.undecided('callbacks of the css scanner', 'only %d of the 7 reviewed callers pass a function the call graph resolves (a callable object or a dispatch table is not followed): the delimiter flow into the others is not decided' % len(cbs))

    def arith_sites(f, valsrc, visited, origin, from_types):
        """yield findings for unguarded arithmetic on expression text `valsrc` in f"""
        key = (f.qualname, valsrc)
        if key in visited:
            return
        visited.add(key)
        for n in f.body_nodes():
            if isinstance(n, ast.BinOp) and isinstance(n.op, (ast.Add, ast.Sub)) and valsrc in (src_of(n.left), src_of(n.right)):
                bt = _branch_types(p, f, n) if from_types else None
                if bt is not None and not (bt & types):
                    res.ok('%s: %s on a branch for %s (delimiter is never -1 there)' % (f.short, src_of(n), sorted(bt)))
                    continue
                if _neg1_guarded(p, f, n, valsrc):
                    res.ok('%s: %s guarded by a comparison with -1' % (f.short, src_of(n)))
                    continue
                # dead-store exemption: result only stored into a state field that is read only inside callbacks, and the sentinel notify is terminal
                st = p.enclosing_stmt(f, n)
                if terminal and isinstance(st, ast.Assign) and len(st.targets) == 1 and isinstance(st.targets[0], ast.Attribute) \
                        and isinstance(st.targets[0].value, ast.Name) and f.parent is not None:
                    fld = st.targets[0].attr
                    holder = st.targets[0].value.id
                    outer_reads = [x for x in f.parent.body_nodes() if isinstance(x, ast.Attribute) and x.attr == fld and isinstance(x.ctx, ast.Load)
                                   and isinstance(x.value, ast.Name) and x.value.id == holder]
                    if not outer_reads:
                        res.ok('%s: %s stored in %s.%s, read only by later callbacks; the sentinel notify is the last one' % (f.short, src_of(n), holder, fld))
                        continue
                res.bad(F('RNG-SENT', f, n, src_of(n), 'the delimiter can be the -1 sentinel here (%s at end of input); %s then yields a bogus offset that reaches the result (%s)'
                          % (' / '.join(sorted(types)), src_of(n), origin),
                          failing_input="css_matcher.match('a{b:c', 4)"))
            # passed on to a callee
            if isinstance(n, ast.Call):
                tgt = p.resolve_call(f, n)
                callee = None
                if isinstance(tgt, Class):
                    callee = p.find_method(tgt, '__init__')
                    shift = 1
                elif isinstance(tgt, list) and len(tgt) == 1:
                    callee = tgt[0]
                    shift = 1 if (callee.cls is not None and isinstance(n.func, ast.Attribute)) else 0
                if callee is None:
                    continue
                bt = _branch_types(p, f, n) if from_types else None
                if bt is not None and not (bt & types):
                    continue
                for i, a in enumerate(n.args):
                    if src_of(a) == valsrc and not _neg1_guarded(p, f, n, valsrc) and i + shift < len(callee.params):
                        yield_from = arith_sites(callee, callee.params[i + shift], visited, origin + ' -> ' + callee.short, False)
            # stored into a field read after the scan returns
            if isinstance(n, ast.Assign) and src_of(n.value) == valsrc and len(n.targets) == 1 and isinstance(n.targets[0], ast.Attribute) and f.parent is not None:
                fld = src_of(n.targets[0])
                arith_sites(f.parent, fld, visited, origin + ' -> ' + fld, False)

    for outer, call, cb in cbs:
        if len(cb.params) < 4:
            raise AnalysisError('RNG-SENT: callback %s has %d parameters' % (cb.short, len(cb.params)))
        arith_sites(cb, cb.params[3], set(), cb.short, True)
    res.require_floor(8)


# ---------------------------------------------------------------- RNG-CLAMP
def _is_clamp(expr, pos, text_len_srcs):
    s = src_of(expr)
    for L in text_len_srcs:
        if s in ('min(%s, max(0, %s))' % (L, pos), 'max(0, min(%s, %s))' % (L, pos), 'min(max(0, %s), %s)' % (pos, L),
                 'max(min(%s, %s), 0)' % (L, pos), 'max(0, min(%s, %s))' % (pos, L), 'min(max(%s, 0), %s)' % (pos, L)):
            return True
    return False


@rule('RNG-CLAMP', 'D', 'a caller-supplied position that becomes a cursor or an index is clamped into the text first')
def rng_clamp(p, res):
    targets = [('extract_abbreviation.extract_abbreviation', 'pos', 'line'), ('math_expression.extract.extract', 'pos', 'text')]
    for fq, pos, text in targets:
        f = p.func(fq)
        if pos not in f.params or text not in f.params:
            raise AnalysisError('RNG-CLAMP: parameters of %s changed' % fq)
        clamp = None
        for st in f.node.body:
            if isinstance(st, ast.Assign) and src_of(st.targets[0]) == pos and _is_clamp(st.value, pos, ['len(%s)' % text]):
                clamp = st
                break
        # first use of pos as cursor / index
        first_use = None
        for st in f.node.body:
            for n in ast.walk(st):
                is_use = False
                if isinstance(n, ast.Call):
                    tgt = p.resolve_call(f, n)
                    if isinstance(tgt, Class) and any(src_of(a) == pos for a in n.args):
                        is_use = True
                    if isinstance(tgt, list) and any(src_of(a) == pos for a in n.args):
                        is_use = True
                if isinstance(n, ast.Subscript) and pos in [x.id for x in ast.walk(n.slice) if isinstance(x, ast.Name)]:
                    is_use = True
                if isinstance(n, ast.Assign) and any(isinstance(t, ast.Attribute) and t.attr == 'pos' for t in n.targets) and src_of(n.value) == pos:
                    is_use = True
                if is_use and first_use is None:
                    first_use = st
        if first_use is None:
            raise AnalysisError('RNG-CLAMP: %s no longer uses %s as a cursor' % (fq, pos))
        if clamp is not None and f.node.body.index(clamp) < f.node.body.index(first_use):
            res.ok('%s: %s precedes the first use' % (f.short, src_of(clamp)))
        else:
            res.bad(F('RNG-CLAMP', f, first_use, src_of(first_use).split('\n')[0],
                      'position parameter `%s` is used as a cursor/index without being clamped to 0..len(%s): an out-of-range position raises IndexError' % (pos, text),
                      failing_input="math_expression.extract('1+2', 10)"))
        # None default handled before
        dflt = [st for st in f.node.body if isinstance(st, ast.If) and src_of(st.test) == '%s is None' % pos]
        if dflt and src_of(dflt[0].body[0]) == '%s = len(%s)' % (pos, text):
            res.ok('%s: pos defaults to len(%s)' % (f.short, text))
        else:
            res.bad(F('RNG-CLAMP', f, f.node, 'if %s is None: %s = len(%s)' % (pos, pos, text), 'a missing position must default to the end of the text'))
    res.require_floor(4)


# ---------------------------------------------------------------- RNG-PAREN
@rule('RNG-PAREN', 'N', 'css scan: { } ; delimit only outside parenthesised expressions')
def rng_paren(p, res):
    scan = p.func('css_matcher.scan.scan')
    loops = [s for s in scan.node.body if isinstance(s, ast.While)]
    if len(loops) != 1:
        raise AnalysisError('RNG-PAREN: css scan() has %d top-level loops' % len(loops))
    pm = p.parents(scan)
    sites = []
    for n in ast.walk(loops[0]):
        if isinstance(n, ast.Call) and src_of(n.func) == 'scanner.eat' and n.args and src_of(n.args[0]) in ('Chars.RightCurly', 'Chars.Semicolon', 'Chars.LeftCurly', 'Chars.Colon'):
            sites.append(n)
    if len(sites) < 4:
        raise AnalysisError('RNG-PAREN: delimiter tests of css scan() not recognised')
    isk = p.func('css_matcher.scan.is_known_selector_colon')
    colon_guard = 'state.expression' in src_of(isk.node)
    for n in sites:
        ch = src_of(n.args[0])
        # the statement / test that holds the eat
        st = p.enclosing_stmt(scan, n)
        test_src = src_of(st.test) if isinstance(st, (ast.If, ast.While)) else src_of(st)
        guarded = 'state.expression' in test_src
        if ch == 'Chars.Colon':
            guarded = guarded or ('is_known_selector_colon' in test_src and colon_guard)
        if ch == 'Chars.RightCurly' and isinstance(st, ast.Assign):
            # block_end = scanner.eat('}') ; the if that follows tests block_end
            guarded = False
        if guarded:
            res.ok('%s edge guarded by the parenthesis depth' % ch)
        else:
            res.bad(F('RNG-PAREN', scan, n, src_of(n), '%s delimits even inside a parenthesised expression (state.expression is not consulted)' % ch,
                      failing_input="css_matcher.match('a{b:url(x;y)}', 9)"))
    # depth bookkeeping: somewhere in the scanner module the depth field is stepped up and down by one
    ups = downs = 0
    for g in p.funcs.values():
        if g.module is not scan.module:
            continue
        for n in g.body_nodes():
            if isinstance(n, ast.AugAssign) and isinstance(n.target, ast.Attribute) and n.target.attr == 'expression' and p.try_const(g, n.value) == 1:
                ups += isinstance(n.op, ast.Add)
                downs += isinstance(n.op, ast.Sub)
    if ups and downs:
        res.ok('( increments and ) decrements state.expression')
    elif ups or downs:
        res.bad(F('RNG-PAREN', scan, loops[0], 'state.expression bookkeeping', 'the parenthesis depth is only ever %s: ( and ) must step it up and down' % ('incremented' if ups else 'decremented')))
    else:
        res.undecided('css scan: state.expression bookkeeping', 'no += 1 / -= 1 on the depth field found in the scanner module')
    res.require_floor(5)


# ---------------------------------------------------------------- RNG-FRAME
POS_FIELDS = ('name_start', 'name_end', 'value_start', 'value_end')


def _lin(p, f, e):
    from ..linear import linear
    return linear(e)


def _old_rng_frame(p, res):
    from ..linear import show
    # 1. in-place shifting helpers: each of the four position fields += offset exactly once, value fields only when a value exists
    for fq, off in (('html_matcher.get_attributes', 'start'), ('action_utils.html.shift_attribute_ranges', 'offset')):
        f = p.func(fq)
        pm = p.parents(f)
        augs = [n for n in f.body_nodes() if isinstance(n, ast.AugAssign) and isinstance(n.target, ast.Attribute) and n.target.attr in POS_FIELDS]
        seen = {}
        for n in augs:
            seen.setdefault(n.target.attr, []).append(n)
        for fld in POS_FIELDS:
            sts = seen.get(fld, [])
            if len(sts) != 1 or not isinstance(sts[0].op, ast.Add) or src_of(sts[0].value) != off:
                res.bad(F('RNG-FRAME', f, sts[0] if sts else f.node, ' ; '.join(src_of(x) for x in sts) or ('%s += %s' % (fld, off)),
                          'attribute offset %s must be shifted by `%s` exactly once (%d shifts found)' % (fld, off, len(sts))))
            else:
                guard = pm.get(sts[0])
                if fld.startswith('value') and not (isinstance(guard, ast.If) and src_of(guard.test) == 'attr.value is not None'):
                    res.bad(F('RNG-FRAME', f, sts[0], src_of(sts[0]), 'value offsets exist only when the attribute has a value: the shift must be guarded by `attr.value is not None`'))
                else:
                    res.ok('%s: attr.%s += %s once' % (f.short, fld, off))
    # the slice base equals the shift
    ga = p.func('html_matcher.get_attributes')
    if 'attrs = attributes(source[start:end], name)' in src_of(ga.node):
        res.ok('get_attributes: parses source[start:end] and shifts by start')
    else:
        res.bad(F('RNG-FRAME', ga, ga.node, 'attributes(source[start:end], name)', 'the parsed slice must start at the offset used for shifting'))
    got = p.func('action_utils.html.get_open_tag.scan_callback')
    if 'shift_attribute_ranges(attributes(code[start:end], name), start)' in src_of(got.node):
        res.ok('get_open_tag: attributes(code[start:end]) shifted by start')
    else:
        res.bad(F('RNG-FRAME', got, got.node, 'shift_attribute_ranges(attributes(code[start:end], name), start)', 'slice base and shift must be the same `start`'))
    # 2. get_tag_selection_model: every reported endpoint is  start + <offset relative to the tag>
    f = p.func('action_utils.html.get_tag_selection_model')
    if 'tag_src = code[start:end]' not in src_of(f.node) or 'attributes(tag_src, name)' not in src_of(f.node):
        raise AnalysisError('RNG-FRAME: get_tag_selection_model no longer parses code[start:end]')
    rel_atoms = {'attr.name_start', 'attr.name_end', 'attr.value_start', 'attr.value_end', 'val[0]', 'val[1]'}
    for c in f.body_nodes():
        if isinstance(c, ast.Call) and src_of(c.func) == 'push_range' and len(c.args) == 2 and isinstance(c.args[1], ast.Tuple):
            for e in c.args[1].elts:
                lin = _lin(p, f, e)
                rel = [k for k in (lin or {}) if k in rel_atoms]
                if lin is None or lin.get('start') != 1 or len(rel) != 1 or lin.get(rel[0]) != 1 or set(lin) - {'start', rel[0]}:
                    res.bad(F('RNG-FRAME', f, c, src_of(c), 'endpoint `%s` = %s: an offset relative to the tag must be shifted by `start` exactly once' % (src_of(e), show(lin))))
                else:
                    res.ok('%s = start + %s' % (src_of(e), rel[0]))
        if isinstance(c, ast.Call) and src_of(c.func) == 'token_list' and len(c.args) == 2:
            sl, off = c.args
            lo = _lin(p, f, off)
            if isinstance(sl, ast.Subscript) and isinstance(sl.slice, ast.Slice) and src_of(sl.value) == 'tag_src' \
                    and lo == {'start': 1, src_of(sl.slice.lower): 1} and src_of(sl.slice.lower) in rel_atoms and src_of(sl.slice.upper) in rel_atoms:
                res.ok('token_list(tag_src[%s:%s], start + %s)' % (src_of(sl.slice.lower), src_of(sl.slice.upper), src_of(sl.slice.lower)))
            else:
                res.bad(F('RNG-FRAME', f, c, src_of(c), 'class tokens are split from a slice of the tag; their offset must be start + the slice lower bound'))
    tl = p.func('action_utils.utils.token_list')
    s = src_of(tl.node)
    if s.count('(offset + start, offset + end)') == 1 and s.count('(offset + start, offset + pos)') == 1:
        res.ok('token_list shifts both ends of every token by offset')
    else:
        res.bad(F('RNG-FRAME', tl, tl.node, 'ranges.append((offset + start, offset + end))', 'both ends of every token must be shifted by offset'))
    first = [c for c in f.body_nodes() if isinstance(c, ast.Assign) and src_of(c.targets[0]) == 'ranges']
    if first and src_of(first[0].value) == '[(start + 1, start + 1 + len(name))]':
        res.ok('tag name range = (start + 1, start + 1 + len(name))')
    else:
        res.bad(F('RNG-FRAME', f, first[0] if first else f.node, src_of(first[0].value) if first else '?', 'the tag name starts right after `<`'))
    # 3. value_range: quotes / braces stripped inside the value range
    vr = p.func('action_utils.html.value_range')
    s = src_of(vr.node)
    if 'attr.value_start + 1' in s and 'attr.value_end - (1 if last_ch == ch else 0)' in s and 'attr.value_end - 1' in s and 'return (attr.value_start, attr.value_end)' in s:
        res.ok('value_range strips one quote/brace on each side, only when present')
    else:
        res.bad(F('RNG-FRAME', vr, vr.node, 'value_range body', 'the unquoted value range is the value range minus the quotes/braces that are actually there'))
    # 4. css: CSSProperty shifts every relative offset by `offset`; split_value gets the document offset of its slice
    cp = p.func('action_utils.css.CSSProperty.__init__')
    s = src_of(cp.node)
    afters = [n for n in cp.body_nodes() if isinstance(n, ast.Assign) and src_of(n.targets[0]) == 'self.after']
    if len(afters) == 1:
        from ..linear import linear
        v = afters[0].value
        branches = [v.body, v.orelse] if isinstance(v, ast.IfExp) else [v]
        if isinstance(v, ast.BinOp) and isinstance(v.op, ast.Add) and isinstance(v.right, ast.IfExp):
            branches = [ast.BinOp(left=v.left, op=ast.Add(), right=v.right.body), ast.BinOp(left=v.left, op=ast.Add(), right=v.right.orelse)]
        lins = [linear(b) for b in branches]
        if all(l is not None and l.get('offset') == 1 for l in lins):
            res.ok('CSSProperty.after: every branch is offset + <fragment offset>')
        else:
            res.bad(F('RNG-FRAME', cp, afters[0], src_of(afters[0]), '`after` is a document offset: every branch of the expression must add `offset` exactly once (operator precedence: a conditional expression binds weaker than +)'))
    else:
        res.bad(F('RNG-FRAME', cp, cp.node, 'self.after = ...', 'after offset missing'))
    for w in ('self.name = (offset + name[0], offset + name[1])', 'self.value = (offset + start, offset + end)',
              'self.value_tokens = split_value(code[start:end], offset + start)', 'self.before = before'):
        if w in s:
            res.ok('CSSProperty: ' + w)
        else:
            res.bad(F('RNG-FRAME', cp, cp.node, w, 'declaration offsets are measured in the body fragment and must be shifted by `offset` exactly once'))
    pp = p.func('action_utils.css.parse_properties')
    s = src_of(pp.node)
    for w in ('fragment = code[parse_from:parse_to]', 'scan(fragment, scan_callback)', 'state = ParsePropertiesState(parse_from)'):
        if w in s:
            res.ok('parse_properties: ' + w)
        else:
            res.bad(F('RNG-FRAME', pp, pp.node, w, 'the scanned fragment starts at parse_from; `before` starts there too'))
    cb = pp.nested.get('scan_callback')
    if cb is None:
        raise AnalysisError('RNG-FRAME: parse_properties.scan_callback vanished')
    for c in cb.body_nodes():
        if isinstance(c, ast.Call) and src_of(c.func) == 'CSSProperty':
            if len(c.args) == 7 and src_of(c.args[0]) == 'fragment' and src_of(c.args[6]) == 'parse_from' and src_of(c.args[2]) == 'state.before':
                res.ok('CSSProperty(fragment, .., state.before, .., parse_from)')
            else:
                res.bad(F('RNG-FRAME', cb, c, src_of(c).replace('\n', ' '), 'CSSProperty takes the fragment, offsets relative to it, and parse_from as the shift'))
        if isinstance(c, ast.Assign) and src_of(c.targets[0]) == 'state.before':
            lin = _lin(p, cb, c.value)
            if lin is not None and lin.get('parse_from') == 1:
                res.ok('state.before = %s' % src_of(c.value))
            else:
                res.bad(F('RNG-FRAME', cb, c, src_of(c), '`before` is a document offset: a fragment offset must be shifted by parse_from once'))
    # select items: value fragments shifted by the value start
    for fq, base in (('action_utils.css.select_next_item.scan_callback', 'start'), ('action_utils.css.select_previous_item', 'state.value_start')):
        f = p.func(fq)
        s = src_of(f.node)
        sl = 'split_value(code[%s:%s])' % (base, 'end' if base == 'start' else 'state.value_end')
        if sl in s and ('(r[0] + %s, r[1] + %s)' % (base, base)) in s:
            res.ok('%s: fragments of %s shifted by %s' % (f.short, sl, base))
        else:
            res.bad(F('RNG-FRAME', f, f.node, sl, 'value fragments are measured in the value slice and must be shifted by its start on both ends'))
    gs = p.func('action_utils.css.get_css_section')
    s = src_of(gs.node) + src_of(gs.nested['scan_callback'].node)
    if 'CSSSection(sel[0], end, sel[2] + 1, start)' in s and 'parse_properties(code, section.body_start, section.body_end)' in s:
        res.ok('CSSSection(selector start, block end, after "{", before "}") and its body range handed to parse_properties')
    else:
        res.bad(F('RNG-FRAME', gs, gs.node, 'CSSSection(sel[0], end, sel[2] + 1, start)', 'section = selector start .. block end, body = after the opening brace .. before the closing brace'))
    res.require_floor(30)
