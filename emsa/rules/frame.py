"""RNG-FRAME: offsets measured in a slice are shifted by the slice base exactly once before they are reported.

Decided by the affine frame analysis of emsa/frames.py over the functions that report ranges to the user
(action_utils.*, html_matcher.get_attributes): every expression that reaches a *sink* (a range pushed into a result,
a field of a result model, an argument of a model constructor) must be a document point."""
import ast

from . import rule
from ..core import AnalysisError, src_of, Class, Func
from ..report import Finding
from ..linear import linear, show
from .. import shape, sympath, norm
from ..frames import FrameEnv, Frame, DOC, PARSERS, SCANNERS, POS_FIELDS


def F(rule_name, f, node, construct, message, **kw):
    return Finding(rule_name, f.module.relpath, f.short, construct, message, getattr(node, 'lineno', 0), **kw)


MODELS = ('SelectItemModel', 'CSSSection')          # constructors whose int parameters are document positions
MODEL_FIELDS = {'start', 'end', 'body_start', 'body_end', 'before', 'after'}


class Group:
    """an outer function and the callbacks nested in it share strings, points and the fields of their state objects"""

    def __init__(self, p, outer, strings=None, rel_params=None, points=None):
        self.p, self.outer = p, outer
        self.envs = {}
        env = FrameEnv(p, outer, string_params=strings, rel_params=rel_params)
        env.points |= set(points or [])
        self.envs[outer.qualname] = env
        self.members = [outer] + list(outer.nested.values())
        # callbacks registered with a scanner
        for n in env.V.nodes:
            if isinstance(n, ast.Call):
                tgt = p.resolve_call(outer, n)
                q = tgt[0].qualname if isinstance(tgt, list) and len(tgt) == 1 else None
                if q in SCANNERS:
                    si, ci, offs = SCANNERS[q]
                    if ci < len(n.args) and isinstance(n.args[ci], ast.Name) and n.args[ci].id in outer.nested:
                        cb = outer.nested[n.args[ci].id]
                        fr = env.string_frame(n.args[si])
                        cenv = FrameEnv(p, cb, string_params=[k for k, v in env.strings.items() if v.doc and k not in cb.locals])
                        for k, v in env.strings.items():
                            if k not in cb.locals:
                                cenv.strings[k] = v
                        cenv.points |= {a for a in env.points if a.split('.')[0].split('[')[0] not in cb.locals}
                        for k, v in env.rel.items():
                            if k.lstrip('*').split('.')[0].split('[')[0] not in cb.locals:
                                cenv.rel.setdefault(k, v)
                        if fr is None:
                            cenv.notes.append('string scanned by %s not understood' % src_of(n))
                        else:
                            for i in offs:
                                if i < len(cb.params):
                                    if fr.doc:
                                        cenv.points.add(cb.params[i])
                                    else:
                                        cenv.rel[cb.params[i]] = fr
                        cenv._infer()
                        self.envs[cb.qualname] = cenv
        for g in outer.nested.values():
            if g.qualname not in self.envs:
                cenv = FrameEnv(p, g)
                for k, v in env.strings.items():
                    if k not in g.locals:
                        cenv.strings[k] = v
                cenv.points |= env.points
                self.envs[g.qualname] = cenv
        self._heap()

    def _heap(self):
        """frames carried through fields of shared objects, list helpers and small containers (two rounds are enough here)"""
        for _ in range(3):
            for g in self.members:
                env = self.envs[g.qualname]
                for n in env.V.nodes:
                    # obj.field = e   /  obj[key] = e      (obj shared by the group)
                    if isinstance(n, ast.Assign):
                        for t in n.targets:
                            if isinstance(t, ast.Subscript) and isinstance(t.value, ast.Name) and isinstance(t.slice, ast.Constant) and isinstance(t.slice.value, int):
                                self._flow(env, t.value.id, n.value)            # L[i] = v : the container carries the frame of its elements
                            elif isinstance(t, (ast.Attribute, ast.Subscript)) and isinstance(t.value, ast.Name):
                                self._flow(env, src_of(t), n.value)
                            elif isinstance(t, ast.Name):
                                self._flow(env, t.id, n.value, local_of=g)
                    elif isinstance(n, ast.Call) and isinstance(n.func, ast.Attribute) and n.func.attr == 'append' and isinstance(n.func.value, ast.Name) and n.args:
                        self._flow(env, n.func.value.id, n.args[0])

    def _share(self, key, kind):
        for env in self.envs.values():
            root = key.split('.')[0].split('[')[0]
            if kind == 'doc':
                env.points.add(key)
            elif isinstance(kind, Frame):
                env.rel[key] = kind

    def _flow(self, env, key, value, local_of=None):
        """record the frame of `key` from the value assigned to it"""
        v = value
        # x = a and a.pop()   /   x = L.pop()   /  x = L[0]
        if isinstance(v, ast.BoolOp):
            v = v.values[-1]
        if isinstance(v, ast.Call) and isinstance(v.func, ast.Attribute) and v.func.attr == 'pop' and isinstance(v.func.value, ast.Name):
            k = self._elem(env, v.func.value.id)
            if k is not None:
                self._share_elems(key, k)
            return
        if isinstance(v, ast.Subscript) and not isinstance(v.slice, ast.Slice) and env.atom_frame(src_of(v)) is not None and not isinstance(v.slice, ast.Slice):
            fr = env.atom_frame(src_of(v))
            # an element of a framed container: the element object carries the same frame (only for containers of pairs, not ints)
            if isinstance(v.value, ast.Name) and key.split('.')[0] != v.value.id and isinstance(v.slice, ast.Constant) and local_of is not None and not self._is_int_use(env, key):
                self._share_elems(key, 'doc' if fr.doc else fr)
                return
        if isinstance(v, ast.Call):
            # helper that returns a list of (some of) its arguments:  alloc_range(pool, start, end, delimiter)
            tgt = env.p.resolve_call(env.f, v)
            if isinstance(tgt, list) and len(tgt) == 1:
                g = tgt[0]
                rets = [r.value for r in g.body_nodes() if isinstance(r, ast.Return)]
                disp = [r for r in rets if isinstance(r, (ast.List, ast.Tuple)) and r.elts and all(isinstance(e, ast.Name) and e.id in g.params for e in r.elts)]
                if disp and all(isinstance(r, ast.Name) or r in disp for r in rets):
                    kinds = []
                    for e in disp[0].elts:
                        ai = g.params.index(e.id)
                        if ai < len(v.args):
                            kinds.append(self._kind(env, v.args[ai]))
                    ks = {repr(k) for k in kinds}
                    if kinds and len(ks) == 1 and kinds[0] is not None:
                        self._share_elems(key, kinds[0])
                    return
        if isinstance(v, ast.IfExp):
            ka, kb = self._kind(env, v.body), self._kind(env, v.orelse)
            if ka is not None and repr(ka) == repr(kb) and ka != 'vec':
                self._share(key, ka)
            return
        if isinstance(v, ast.Call) and isinstance(env.p.resolve_call(env.f, v), Class) and env.p.resolve_call(env.f, v).name in MODELS:
            # obj = Model(a, b, ..): the fields the constructor fills from its int parameters carry the frames of the arguments
            cls = env.p.resolve_call(env.f, v)
            init = cls.methods.get('__init__')
            if init is not None:
                fld = {src_of(n.value): n.targets[0].attr for n in init.body_nodes() if isinstance(n, ast.Assign) and isinstance(n.targets[0], ast.Attribute) and isinstance(n.value, ast.Name)}
                for i, a in enumerate(v.args):
                    pn = init.params[i + 1] if i + 1 < len(init.params) else None
                    if pn in fld:
                        for br in ([a.body, a.orelse] if isinstance(a, ast.IfExp) else [a]):
                            k = self._kind(env, br)
                            if k is not None and k != 'vec':
                                self._share('%s.%s' % (key, fld[pn]), k)
            return
        if isinstance(v, (ast.Tuple, ast.List)) and v.elts:
            kinds = [self._kind(env, e) for e in v.elts]
            if len({repr(k) for k in kinds}) == 1 and kinds[0] is not None:
                self._share_elems(key, kinds[0])
            return
        k = self._kind(env, v)
        if k is not None and k != 'vec':
            self._share(key, k)

    def _is_int_use(self, env, name):
        """is local `name` used as a number (in arithmetic / comparisons) rather than subscripted?"""
        for n in env.V.nodes:
            if isinstance(n, ast.Subscript) and isinstance(n.value, ast.Name) and n.value.id == name:
                return False
        return True

    def _share_elems(self, key, kind):
        """key is a container whose elements have frame `kind`"""
        for env in self.envs.values():
            if kind == 'doc':
                env.rel[key] = DOC
            elif isinstance(kind, Frame):
                env.rel[key] = kind

    def _elem(self, env, key):
        fr = env.rel.get(key)
        if fr is None:
            return None
        return 'doc' if fr.doc else fr

    def _kind(self, env, e):
        """'doc' | Frame | 'vec' | None for the value of an int expression"""
        if isinstance(e, ast.Name) and e.id in env.rel and ('[' not in e.id):
            fr = env.rel[e.id]
            return 'doc' if fr.doc else fr
        st, why = env.point_check(e)
        if st == 'ok':
            return 'doc'
        l = env.lin(e)
        if l is None:
            return None
        kinds = [env.classify(a) for a in l if a != '1' and not a.startswith('len(')]
        if not kinds:
            return 'vec'
        if len(kinds) == 1 and isinstance(kinds[0], Frame) and list(v for k, v in l.items() if k != '1' and not k.startswith('len('))[0] == 1:
            return kinds[0]
        return None


def _sinks(env, f):
    """(node, expression, description) of everything that is reported as a position by function f"""
    out = []
    p = env.p
    for n in env.V.nodes:
        if isinstance(n, ast.Call):
            fn = n.func
            nm = fn.id if isinstance(fn, ast.Name) else (fn.attr if isinstance(fn, ast.Attribute) else None)
            if nm == 'push_range' and len(n.args) == 2:
                a = n.args[1]
                if isinstance(a, ast.Tuple):
                    for e in a.elts:
                        out.append((n, e, 'range end in %s' % src_of(n)))
                else:
                    out.append((n, a, 'range %s' % src_of(n)))
            tgt = p.resolve_call(f, n)
            if isinstance(tgt, Class) and tgt.name in MODELS:
                init = tgt.methods.get('__init__')
                for i, a in enumerate(n.args):
                    pn = init.params[i + 1] if init and i + 1 < len(init.params) else None
                    ann = next((x.annotation for x in init.node.args.args if x.arg == pn), None) if init else None
                    if ann is not None and src_of(ann) == 'int':
                        out.append((n, a, '%s of %s' % (pn, src_of(n))))
                    elif isinstance(a, ast.List):
                        for t in a.elts:
                            if isinstance(t, ast.Tuple):
                                for e in t.elts:
                                    out.append((n, e, 'range end in %s' % src_of(n)))
        elif isinstance(n, ast.Assign):
            for t in n.targets:
                if isinstance(t, ast.Attribute) and t.attr in MODEL_FIELDS and isinstance(t.value, ast.Name):
                    rt = p.type_of(f, t.value)
                    if (isinstance(rt, Class) and rt.name in MODELS + ('CSSProperty', 'ParsePropertiesState')) or t.value.id in ('result', 'section') or (t.value.id == 'self' and f.cls is not None and f.cls.name == 'CSSProperty'):
                        v = n.value
                        for e in ([v.body, v.orelse] if isinstance(v, ast.IfExp) else [v]):
                            out.append((n, e, src_of(t)))
                elif isinstance(t, ast.Name) and isinstance(n.value, ast.List) and n.value.elts and all(isinstance(x, ast.Tuple) for x in n.value.elts) and 'range' in t.id:
                    for x in n.value.elts:
                        for e in x.elts:
                            out.append((n, e, 'range end in %s' % src_of(n)))
                elif isinstance(t, ast.Attribute) and t.attr in ('name', 'value') and isinstance(t.value, ast.Name) and t.value.id == 'self' and f.cls is not None and f.cls.name == 'CSSProperty' \
                        and isinstance(n.value, ast.Tuple):
                    for e in n.value.elts:
                        out.append((n, e, src_of(t)))
    return out


def _report(res, f, env, node, e, what, seen):
    e = env.x(e)
    if isinstance(e, ast.IfExp):
        _report(res, f, env, node, e.body, what + ' [if %s]' % src_of(e.test), seen)
        _report(res, f, env, node, e.orelse, what + ' [unless %s]' % src_of(e.test), seen)
        return
    if isinstance(e, ast.BinOp) and isinstance(e.op, ast.Add) and (isinstance(e.right, ast.IfExp) or isinstance(e.left, ast.IfExp)):
        a, b = (e.left, e.right) if isinstance(e.right, ast.IfExp) else (e.right, e.left)
        _report(res, f, env, node, ast.BinOp(left=a, op=ast.Add(), right=b.body), what + ' [if %s]' % src_of(b.test), seen)
        _report(res, f, env, node, ast.BinOp(left=a, op=ast.Add(), right=b.orelse), what + ' [unless %s]' % src_of(b.test), seen)
        return
    st, why = env.point_check(e)
    key = (f.short, src_of(e), what)
    if key in seen:
        return
    seen.add(key)
    if st == 'ok':
        res.ok('%s: %s = %s (%s)' % (f.short, what[:40], src_of(e), why))
    elif st == 'bad':
        res.bad(F('RNG-FRAME', f, node, '%s: %s' % (what, src_of(env.x(e))), why))
    else:
        res.undecided('%s: %s = %s' % (f.short, what, src_of(e)), why)


def _shifter(p, res, f, off_param, frame_of_tokens, what):
    """in-place shift of token position fields: each field += off exactly once, value fields only when the token has a value"""
    fn = norm.nf(p, f, inline=True)
    loops = [n for n in shape.own_nodes(fn) if isinstance(n, ast.For) and isinstance(n.target, ast.Name)]
    loops = [lp for lp in loops if any(isinstance(x, ast.AugAssign) and isinstance(x.target, ast.Attribute) and x.target.attr in POS_FIELDS for x in ast.walk(lp))]
    if len(loops) != 1:
        res.undecided('%s: shifting loop' % f.short, 'one loop over the tokens expected')
        return None
    lp = loops[0]
    T = lp.target.id
    try:
        its = sympath.feasible(sympath.block_summaries(p, f, lp.body))
    except sympath.Unsupported as e:
        res.undecided('%s: shifting loop' % f.short, str(e))
        return None
    good = True
    for q in its:
        rc = q.rconds()
        hasval = rc.get('%s.value is not None' % T)
        if hasval is None and rc.get('%s.value is None' % T) is not None:
            hasval = not rc['%s.value is None' % T]
        if hasval is None and rc.get('%s.value' % T) is not None:
            hasval = None if rc['%s.value' % T] is False else True      # truthiness: an empty value '' still has offsets
        shifts = {}
        for tgt, val, _ in q.stores:
            ts = src_of(tgt)
            if ts.startswith(T + '.') and ts.split('.', 1)[1] in POS_FIELDS:
                l = linear(q.resolve(val))
                shifts.setdefault(ts.split('.', 1)[1], []).append(l)
        where = ['iteration path: ' + q.cond_str()]
        for fld in POS_FIELDS:
            want = [{'%s.%s' % (T, fld): 1, off_param: 1}]
            got = shifts.get(fld, [])
            isval = fld.startswith('value')
            if isval and hasval is False:
                if got:
                    good = False
                    res.bad(F('RNG-FRAME', f, lp, '%s.%s shifted [%s]' % (T, fld, q.cond_str()), 'value offsets exist only when the attribute has a value', details=where))
                continue
            if isval and hasval is None and got:
                good = False
                res.bad(F('RNG-FRAME', f, lp, '%s.%s += %s [%s]' % (T, fld, off_param, q.cond_str()), 'value offsets exist only when the attribute has a value: the shift must be guarded by `%s.value is not None` (None + int raises TypeError)' % T, details=where))
                continue
            if isval and hasval is None and not got:
                continue
            if got == want:
                continue
            good = False
            if not got:
                res.bad(F('RNG-FRAME', f, lp, '%s.%s not shifted [%s]' % (T, fld, q.cond_str()), 'attribute offset %s must be shifted by `%s` exactly once (0 shifts on this path)' % (fld, off_param), details=where))
            elif len(got) > 1 or (got[0] or {}).get(off_param, 0) != 1:
                res.bad(F('RNG-FRAME', f, lp, '%s.%s = %s' % (T, fld, ' ; '.join(show(g) for g in got)), 'attribute offset %s must be shifted by `%s` exactly once' % (fld, off_param), details=where))
            else:
                res.undecided('%s.%s = %s' % (T, fld, show(got[0])), 'shift by %s' % off_param)
    if good and its:
        res.ok('%s: every position field of a token is shifted by %s exactly once (%s)' % (f.short, off_param, what), n=4)
    return lp


@rule('RNG-FRAME', 'N', 'offsets measured in a slice are shifted by the slice base exactly once before they are reported')
def rng_frame(p, res):
    seen = set()
    # 1. in-place shifters -------------------------------------------------------------------------------------------
    ga = p.func('html_matcher.get_attributes')
    env = FrameEnv(p, ga)
    lp = _shifter(p, res, ga, ga.params[1], None, 'tokens parsed from source[start:end]')
    if lp is not None:
        it = env.V.xe(lp.iter)
        fr = env.rel.get(lp.target.id) or (env.rel.get('*' + lp.iter.id) if isinstance(lp.iter, ast.Name) else None)
        if fr is None:
            res.undecided('get_attributes: what the shifted tokens were parsed from', 'attributes(source[start:end], ..)')
        elif not fr.doc and {k: v for k, v in fr.base.items()} == {ga.params[1]: 1}:
            res.ok('get_attributes: tokens are parsed from the slice starting at `%s` and shifted by the same `%s`' % (ga.params[1], ga.params[1]))
        else:
            res.bad(F('RNG-FRAME', ga, lp, 'tokens of %s shifted by %s' % (fr, ga.params[1]), 'the parsed slice must start at the offset used for shifting'))
    sh = p.func('action_utils.html.shift_attribute_ranges')
    _shifter(p, res, sh, sh.params[1], None, 'tokens handed in by the caller')
    from .. import callgraph
    n_sites = 0
    for caller, call in callgraph.get(p).callers_of(sh):
        outer = caller
        while isinstance(outer.parent, Func):
            outer = outer.parent
        g = Group(p, outer)
        cenv = g.envs.get(caller.qualname) or FrameEnv(p, caller)
        n_sites += 1
        if len(call.args) < 2:
            res.undecided('%s: %s' % (caller.short, src_of(call)), 'shift_attribute_ranges(tokens, base)')
            continue
        a0 = cenv.V.xe(call.args[0])
        fr = None
        if isinstance(a0, ast.Call):
            tgt = p.resolve_call(caller, a0)
            q = tgt[0].qualname if isinstance(tgt, list) and len(tgt) == 1 else None
            if q in PARSERS and PARSERS[q][0] < len(a0.args):
                fr = cenv.string_frame(a0.args[PARSERS[q][0]])
        elif isinstance(a0, ast.Name):
            fr = cenv.rel.get('*' + a0.id) or cenv.rel.get(a0.id)
        lb = cenv.lin(call.args[1])
        if fr is None or lb is None:
            res.undecided('%s: %s' % (caller.short, src_of(call)), 'frame of the tokens / base not understood')
        elif fr.doc:
            res.bad(F('RNG-FRAME', caller, call, src_of(call), 'tokens that are already document positions are shifted again'))
        elif fr.base == lb:
            res.ok('%s: tokens parsed from the slice at %s are shifted by %s' % (caller.short, fr.base_src, src_of(call.args[1])))
        else:
            res.bad(F('RNG-FRAME', caller, call, src_of(call), 'slice base (%s) and shift (%s) must be the same' % (fr.base_src, src_of(call.args[1]))))
    if not n_sites:
        res.undecided('shift_attribute_ranges', 'no call site')
    # 2. sinks of the functions that build the reported models ------------------------------------------------------------
    outers = ['action_utils.html.get_tag_selection_model', 'action_utils.html.select_next_item', 'action_utils.html.select_previous_item',
              'action_utils.css.select_next_item', 'action_utils.css.select_previous_item', 'action_utils.css.get_css_section',
              'action_utils.css.parse_properties']
    n_sinks = 0
    for oq in outers:
        o = p.func(oq)
        g = Group(p, o)
        for m in g.members:
            env = g.envs[m.qualname]
            for node, e, what in _sinks(env, m):
                n_sinks += 1
                _report(res, m, env, node, e, what, seen)
            for note in env.notes:
                res.undecided('%s: %s' % (m.short, note), 'frame inference')
        # CSSProperty(...) built by this group: the callee is checked in the frame the call site establishes
        for m in g.members:
            env = g.envs[m.qualname]
            for n in env.V.nodes:
                if isinstance(n, ast.Call) and isinstance(p.resolve_call(m, n), Class) and p.resolve_call(m, n).name == 'CSSProperty':
                    _css_property(p, res, m, env, n, seen)
    # token_list / split_value shift both ends of every pair by their offset parameter
    for fq in ('action_utils.utils.token_list', 'css_matcher.parse.split_value'):
        f = p.func(fq)
        off = f.params[1]
        apps = [n for n in f.body_nodes() if isinstance(n, ast.Call) and isinstance(n.func, ast.Attribute) and n.func.attr == 'append' and n.args and isinstance(n.args[0], ast.Tuple)]
        okk = bool(apps)
        for a in apps:
            for e in a.args[0].elts:
                l = linear(e)
                if l is None or l.get(off) != 1:
                    okk = False
                    res.bad(F('RNG-FRAME', f, a, src_of(a), 'both ends of every reported pair must be shifted by `%s` exactly once (this end is %s)' % (off, show(l))))
        if okk:
            res.ok('%s shifts both ends of every pair by %s' % (f.short, off), n=2)
        elif not apps:
            res.undecided(f.short, 'no pair is appended')
    # value_range: only constants are added to the value offsets, quotes/braces stripped when present
    vr = p.func('action_utils.html.value_range')
    envv = FrameEnv(p, vr, rel_params={vr.params[0]: Frame({'B': 1}, 'B')})
    if envv._preserves_frame(ast.Call(func=ast.Name(id='value_range', ctx=ast.Load()), args=[ast.Name(id='x', ctx=ast.Load())], keywords=[])):
        res.ok('value_range returns (value_start + k, value_end - k): same frame as its argument')
    else:
        res.undecided('value_range', 'tuple of value offsets plus constants')
    if n_sinks < 20:
        raise AnalysisError('RNG-FRAME: only %d sinks found' % n_sinks)
    res.require_floor(30)


def _css_property(p, res, m, env, call, seen):
    """CSSProperty(fragment, name, before, start, end, delimiter, offset): the callee's parameters get the frames the call
    site establishes; its stores are sinks"""
    cls = p.resolve_call(m, call)
    init = cls.methods['__init__']
    params = init.params[1:]
    args = dict(zip(params, call.args))
    strp = [pn for pn, a in args.items() if env.string_frame(a) is not None]
    if len(strp) != 1:
        res.undecided('%s: %s' % (m.short, src_of(call).replace('\n', ' ')), 'one string argument expected')
        return
    fr = env.string_frame(args[strp[0]])
    if fr.doc:
        base_param = None
    else:
        base_param = next((pn for pn, a in args.items() if pn != strp[0] and env.lin(a) == fr.base), None)
        if base_param is None:
            res.bad(F('RNG-FRAME', m, call, src_of(call).replace('\n', ' '), 'the fragment starts at %s but no argument passes that base: the declaration offsets cannot be shifted correctly' % fr.base_src))
            return
    cfr = DOC if fr.doc else Frame({base_param: 1}, base_param)
    rel, pts = {}, set()
    for pn, a in args.items():
        if pn in (strp[0], base_param):
            continue
        k = Group._kind(None, env, a) if not isinstance(a, ast.Name) or a.id not in env.rel else ('doc' if env.rel[a.id].doc else env.rel[a.id])
        if isinstance(a, (ast.Attribute, ast.Subscript)) and src_of(a) in env.rel:
            fr2 = env.rel[src_of(a)]
            k = 'doc' if fr2.doc else fr2
        if k == 'doc':
            pts.add(pn)
            if isinstance(a, (ast.Attribute, ast.Subscript)) and src_of(a) in env.rel:
                rel[pn] = DOC
        elif isinstance(k, Frame):
            if k.base == fr.base:
                rel[pn] = cfr
            else:
                res.bad(F('RNG-FRAME', m, call, '%s=%s' % (pn, src_of(a)), 'argument is relative to the slice at %s, the fragment handed over starts at %s' % (k.base_src, fr.base_src)))
                return
        else:
            res.undecided('%s: argument %s=%s' % (m.short, pn, src_of(a)), 'frame not known')
    if base_param:
        pts.add(base_param)
    cenv = FrameEnv(p, init, string_params=[], rel_params=rel)
    cenv.strings[strp[0]] = cfr
    cenv.points |= pts
    cenv._infer()
    for node, e, what in _sinks(cenv, init):
        _report(res, init, cenv, node, e, what + ' [called from %s]' % m.short, seen)
    # split_value(code[a:b], off): the pairs it returns must be document points
    for n in cenv.V.nodes:
        if isinstance(n, ast.Assign) and isinstance(n.value, ast.Call) and isinstance(n.targets[0], ast.Attribute):
            tgt = p.resolve_call(init, n.value)
            q = tgt[0].qualname if isinstance(tgt, list) and len(tgt) == 1 else None
            if q in PARSERS:
                si, oi, kind = PARSERS[q]
                sfr = cenv.string_frame(n.value.args[si]) if si < len(n.value.args) else None
                off = n.value.args[oi] if oi is not None and oi < len(n.value.args) else None
                key = (init.short, src_of(n), m.short)
                if key in seen:
                    continue
                seen.add(key)
                if sfr is None:
                    res.undecided('%s: %s' % (init.short, src_of(n)), 'frame of the parsed slice')
                    continue
                # document base of the slice = base(sfr) resolved through the fragment base
                lo = cenv.lin(off) if off is not None else {}
                # sfr.base is expressed in atoms of the callee: relative atoms of cfr + cfr base
                st, why = cenv.point_check(off) if off is not None else ('bad', 'no offset passed: the pairs stay relative to the value slice')
                want = sfr.base if not sfr.doc else {}
                if off is not None and st == 'ok' and all(lo.get(k, 0) == v for k, v in want.items() if k not in (cfr.base or {})):
                    res.ok('%s: %s: pairs shifted to document positions' % (init.short, src_of(n)))
                elif st == 'bad':
                    res.bad(F('RNG-FRAME', init, n, src_of(n), 'the offset handed to the value splitter must be the document position of the slice start: ' + why))
                else:
                    res.undecided('%s: %s' % (init.short, src_of(n)), why)
