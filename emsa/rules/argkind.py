"""EXC-ARGKIND : a parameter declared as a plain number / string never receives an object of a project class.

The error factories (`Scanner.error(message, pos: int)`, `TokenScanner.error(message, token)`), the token constructors and the
range helpers are annotated; the two scanner families have *sibling* factories with the same name and different conventions
(an offset vs. a token).  Passing a token where an offset is expected raises TypeError when the message is formatted -- an
exception that is not the documented one (C07) and never shows in the tests, because error paths are sampled once.

The rule is a who-passes-what check over resolved call sites: for every argument whose parameter is annotated `int`, `str`,
`float` or `bool`, the argument must not *definitely* be an instance of a project class.  "Definitely" means: the call is
dominated by `isinstance(<name>, <project class>)` with no store to the name in between, or the nominal type inference /
constructor tracking of core.py resolves the expression to one project class.  Everything else (unknown types, sloppy
int-vs-str annotations) is not looked at: the rule only fires on a positively identified object."""
import ast

from . import rule
from ..core import src_of, Class
from ..report import Finding
from .. import shape

SCALARS = ('int', 'str', 'float', 'bool')


def _definitely_object(p, f, call, arg, pm):
    t = p.type_of(f, arg)
    if isinstance(t, Class):
        return t
    if isinstance(arg, ast.Name):
        for src, truth in shape.implied(call, pm):
            if not truth or not src.startswith('isinstance('):
                continue
            try:
                e = ast.parse(src, mode='eval').body
            except SyntaxError:
                continue
            if not (isinstance(e, ast.Call) and len(e.args) == 2 and isinstance(e.args[0], ast.Name) and e.args[0].id == arg.id):
                continue
            classes = e.args[1].elts if isinstance(e.args[1], ast.Tuple) else [e.args[1]]
            resolved = [p.resolve_expr(f, c) for c in classes]
            if not resolved or not all(r is not None and r.kind == 'class' for r in resolved):
                continue
            # no store to the name between the test and the call: the innermost If that makes the test
            n = call
            guard = None
            while n is not None:
                par = pm.get(n)
                if isinstance(par, (ast.If, ast.While)) and src in [s for s, _ in shape.conjuncts(par.test, True)] and n in par.body:
                    guard = par
                    break
                n = par
            if guard is None:
                continue
            stored = any(isinstance(x, ast.Name) and x.id == arg.id and isinstance(x.ctx, ast.Store) for st in guard.body for x in ast.walk(st))
            if not stored:
                return resolved[0].obj
    return None


@rule('EXC-ARGKIND', 'N', 'an argument declared int / str / float / bool is never a definitely-known object of a project class (a token passed where an offset is expected)')
def exc_argkind(p, res):
    n = 0
    for f in sorted(p.funcs.values(), key=lambda x: x.qualname):
        pm = None
        for c in f.body_nodes():
            if not isinstance(c, ast.Call):
                continue
            tgt = p.resolve_call(f, c)
            if not isinstance(tgt, list) or len(tgt) != 1 or not hasattr(tgt[0], 'params'):
                continue
            g = tgt[0]
            params = g.params[1:] if g.cls is not None and (isinstance(c.func, ast.Attribute) or g.name == '__init__') and g.params and g.params[0] in ('self', 'cls') else g.params
            pairs = [(params[i], a) for i, a in enumerate(c.args) if i < len(params) and not isinstance(a, ast.Starred)]
            pairs += [(k.arg, k.value) for k in c.keywords if k.arg in params]
            for pn, a in pairs:
                ann = g.annotations.get(pn)
                if ann is None or src_of(ann) not in SCALARS:
                    continue
                n += 1
                if pm is None:
                    pm = shape.parent_map(f.node)
                cls = _definitely_object(p, f, c, a, pm)
                if cls is not None:
                    res.bad(Finding('EXC-ARGKIND', f.module.relpath, f.short, src_of(c).split('\n')[0][:120],
                                    'argument `%s` is a %s object but parameter `%s` of %s is declared %s: the callee computes with it as a %s (TypeError instead of the documented error)'
                                    % (src_of(a), getattr(cls, 'name', cls), pn, g.short, src_of(ann), src_of(ann)), getattr(c, 'lineno', 0)))
                else:
                    res.ok()
    res.stats['annotated_scalar_arguments'] = n
    res.require_floor(300)
