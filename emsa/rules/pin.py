"""Targeted structural rules: counter discipline, sibling agreement, guard
dominance, who-may-call, complete decision tables of classification code."""
import ast
import itertools

from . import rule
from ..core import AnalysisError, src_of, Class, Func
from ..report import Finding
from ..minieval import MiniEval, Rec
from ..pattern import find_expr, find_stmt, match_expr, match_stmt
from .. import callgraph


def F(rule_name, f, node, construct, message, **kw):
    return Finding(rule_name, f.module.relpath, f.short, construct, message, getattr(node, 'lineno', 0), **kw)


def enclosing_tests(p, f, node):
    """[(test expr, polarity)] of the if/while/ifexp/and-chains enclosing node (innermost first)."""
    pm = p.parents(f)
    out = []
    n = node
    while n is not None:
        par = pm.get(n)
        if isinstance(par, ast.If):
            if n in par.body:
                out.append((par.test, True))
            elif n in par.orelse:
                out.append((par.test, False))
        elif isinstance(par, ast.While) and n in par.body:
            out.append((par.test, True))
        elif isinstance(par, ast.IfExp):
            if n is par.body:
                out.append((par.test, True))
            elif n is par.orelse:
                out.append((par.test, False))
        elif isinstance(par, ast.BoolOp) and isinstance(par.op, ast.And):
            ix = par.values.index(n)
            for v in par.values[:ix]:
                out.append((v, True))
        elif isinstance(par, ast.BoolOp) and isinstance(par.op, ast.Or):
            ix = par.values.index(n)
            for v in par.values[:ix]:
                out.append((v, False))
        n = par
    return out


def conjuncts(test, polarity=True):
    """atomic facts implied by `test` being `polarity`: list of (src, bool)"""
    if isinstance(test, ast.UnaryOp) and isinstance(test.op, ast.Not):
        return conjuncts(test.operand, not polarity)
    if isinstance(test, ast.BoolOp):
        if isinstance(test.op, ast.And) and polarity:
            return [c for v in test.values for c in conjuncts(v, True)]
        if isinstance(test.op, ast.Or) and not polarity:
            return [c for v in test.values for c in conjuncts(v, False)]
        return [(src_of(test), polarity)]
    return [(src_of(test), polarity)]


class Facts(list):
    """facts implied at a node; membership is tested on canonical atoms, so `a != b` true and `a == b` false are the same fact"""

    def __contains__(self, item):
        from ..dtable import canon_atom
        src, pol = item
        want = canon_atom(src, pol)
        for s_, p_ in list.__iter__(self):
            if (s_, p_) == (src, pol) or canon_atom(s_, p_) == want:
                return True
        return False


def implied_facts(p, f, node):
    """tests known to hold / fail at `node`: enclosing if/while/conditional-expression/and/or tests and earlier guard clauses"""
    from .. import shape
    pm = shape.parent_map(f.node)
    return Facts(shape.implied(node, pm))


# ---------------------------------------------------------------- CNT-DEPTH
COUNTERS = [
    # (function, counter expression regex-free description, matcher)
    ('abbreviation.tokenizer.literal', "ctx['expression']"),
    ('abbreviation.tokenizer.tokenize', 'ctx[token.context]'),
    ('abbreviation.parser.literal', 'brackets[token.context]'),
    ('abbreviation.parser.text', 'brackets'),
    ('css_matcher.scan.scan', 'state.expression'),
    ('css_matcher.parse.split_value', 'expression'),
    ('scanner_utils.eat_pair', 'stack'),
    ('math_expression.extract.extract', 'braces'),
    ('css_abbreviation.tokenizer.tokenize', 'brackets'),
    ('action_utils.css.parse_properties.scan_callback', 'state.nested'),
]


@rule('CNT-DEPTH', 'N', 'nesting depth counters are only ever incremented or decremented by one')
def cnt_depth(p, res):
    for fq, cexpr in COUNTERS:
        f = p.func(fq)
        n = 0
        # a plain local counter may have been renamed: it is the one local that is both incremented and decremented by augmented assignment
        if cexpr.isidentifier() and cexpr not in f.locals:
            ups = {src_of(st.target) for st in f.body_nodes() if isinstance(st, ast.AugAssign) and isinstance(st.op, ast.Add) and isinstance(st.target, ast.Name)}
            downs = {src_of(st.target) for st in f.body_nodes() if isinstance(st, ast.AugAssign) and isinstance(st.op, ast.Sub) and isinstance(st.target, ast.Name)}
            both = sorted(ups & downs)
            if len(both) == 1:
                cexpr = both[0]
            else:
                res.undecided('%s: depth counter' % f.short, 'the reviewed counter `%s` is gone and no single local is both incremented and decremented' % cexpr)
                continue
        for st in f.body_nodes():
            if isinstance(st, ast.AugAssign) and src_of(st.target) == cexpr:
                n += 1
                v = st.value

                def unit(e):
                    c = p.try_const(f, e)
                    if c is not None and not isinstance(c, bool):
                        return c in (1, -1)
                    if isinstance(e, ast.IfExp):
                        a, b = unit(e.body), unit(e.orelse)
                        return None if a is None or b is None else (a and b)
                    return None
                u = unit(v)
                if isinstance(st.op, (ast.Add, ast.Sub)) and u:
                    res.ok('%s: %s' % (f.short, src_of(st)))
                elif u is None and isinstance(st.op, (ast.Add, ast.Sub)):
                    res.undecided('%s: %s' % (f.short, src_of(st)), 'the step of depth counter %s is not a constant' % cexpr)
                else:
                    res.bad(F('CNT-DEPTH', f, st, src_of(st), 'depth counter %s must change by exactly one' % cexpr))
            elif isinstance(st, ast.Assign) and any(src_of(t) == cexpr for t in st.targets):
                n += 1
                c = p.try_const(f, st.value)
                if c == 0 and not isinstance(c, bool):
                    res.ok('%s: %s' % (f.short, src_of(st)))
                elif fq == 'scanner_utils.eat_pair' and c == 1:
                    res.ok('%s: %s (opening character already consumed)' % (f.short, src_of(st)))
                elif c is not None:
                    res.bad(F('CNT-DEPTH', f, st, src_of(st), 'depth counter %s is overwritten instead of counted: nesting deeper than one level is lost' % cexpr))
                elif isinstance(st.value, ast.BinOp) and isinstance(st.value.op, (ast.Add, ast.Sub)) and src_of(st.value.left) == cexpr \
                        and p.try_const(f, st.value.right) == 1:
                    res.ok('%s: %s' % (f.short, src_of(st)))
                elif isinstance(st.value, ast.Call) and isinstance(st.value.func, ast.Name) and st.value.func.id == 'min' and len(st.value.args) == 2 \
                        and any(p.try_const(f, a) == 0 and not isinstance(p.try_const(f, a), bool) for a in st.value.args) \
                        and any(cexpr in src_of(a) for a in st.value.args):
                    res.bad(F('CNT-DEPTH', f, st, src_of(st), 'depth counter %s is capped at 0 from above (min): it can never count a nesting level, so every nested closer ends the context' % cexpr))
                else:
                    res.undecided('%s: %s' % (f.short, src_of(st)), 'depth counter %s is assigned a computed value: whether it still counts by one is not decided' % cexpr)
        if n == 0:
            res.undecided('%s: depth counter %s' % (f.short, cexpr), 'no counting statement found')
    # literal(): the closing brace test compares the running depth with the depth at entry
    f = p.func('abbreviation.tokenizer.literal')
    s = src_of(f.node)
    from .tablecheck import check_table
    check_table(p, res, 'CNT-DEPTH', 'abbreviation.tokenizer.literal', 'a } closes the text only when the depth is back at its value on entry; quotes and expressions are tracked through ctx')
    res.require_floor(20)


# ----------------------------------------------------------------- SIB-VOID
@rule('SIB-VOID', 'N', 'the three HTML matcher entry points decide void-ness through is_self_close(name, options) and classify tags alike')
def sib_void(p, res):
    ev = MiniEval(p)
    # classification tables: which branch handles (elem_type, void)?
    Open, Close, Self = 1, 2, 3
    etc = p.cls('html_matcher.utils.ElementType')
    consts = {k: p.const_value(etc.module, v) for k, v in etc.consts.items()}
    if consts != {'Open': 1, 'Close': 2, 'SelfClose': 3}:
        raise AnalysisError('SIB-VOID: ElementType constants changed')
    want = {(Open, True): 'self', (Open, False): 'open', (Close, True): 'close', (Close, False): 'close', (Self, True): 'self', (Self, False): 'self'}
    for fq in ('html_matcher.match.scan_callback', 'html_matcher.balanced_outward.scan_callback', 'html_matcher.balanced_inward.scan_callback'):
        f = p.func(fq)
        calls = [c for c in f.body_nodes() if isinstance(c, ast.Call) and src_of(c.func) == 'is_self_close']
        if len(calls) != 1 or [src_of(a) for a in calls[0].args] != ['name', 'options']:
            res.bad(F('SIB-VOID', f, f.node, 'is_self_close(name, options)',
                      'void elements must be recognised through is_self_close(name, options), which honours the xml option (siblings do)'))
            continue
        res.ok('%s calls is_self_close(name, options)' % f.short)
        for (et, void), exp in want.items():
            got = classify_branch(p, f, {'elem_type': et, 'name': 'n', 'start': 0, 'end': 1}, void)
            if got != exp:
                res.bad(F('SIB-VOID', f, f.node, 'elem_type=%s void=%s -> handled as %s' % ({1: 'Open', 2: 'Close', 3: 'SelfClose'}[et], void, got),
                          'expected to be handled as %s tag (sibling entry points agree on this table)' % exp))
            else:
                res.ok('%s: elem_type=%d void=%s -> %s' % (f.short, et, void, exp))
    res.require_floor(20)


def classify_branch(p, f, env, void):
    """Evaluate the callback's top-level if-chain on concrete decision variables (elem_type, void-ness) and name the
    branch that is selected: by the test that selected it, or for a final else by whether it pushes on the stack."""
    ev = MiniEval(p, hooks={'emmet.html_matcher.is_self_close': lambda name, options: void})
    env = dict(env)
    env.setdefault('options', Rec())

    def role_of_test(test):
        s = src_of(test)
        if 'ElementType.Close' in s and '==' in s:
            return 'close'
        if 'ElementType.SelfClose' in s and '==' in s:
            return 'self'
        if 'ElementType.Open' in s and '==' in s and 'is_self_close' not in s:
            return 'open'
        return None

    def role_of_else(body):
        return 'open' if any(isinstance(x, ast.Expr) and src_of(x).startswith('stack.append(') for x in body) else 'close'

    for st in f.node.body:
        if isinstance(st, ast.Expr) and isinstance(st.value, ast.Constant):
            continue
        if isinstance(st, (ast.Nonlocal, ast.Global)):
            continue
        if not isinstance(st, ast.If):
            raise AnalysisError('SIB-VOID: unrecognised statement in %s: %s' % (f.short, src_of(st).split('\n')[0]))
        cur = st
        while True:
            t = ev.truth(ev.eval(cur.test, env, f))
            if t:
                body = cur.body
                if all(isinstance(x, ast.Assign) and all(isinstance(tg, ast.Name) for tg in x.targets) for x in body):
                    ev.exec_block(body, env, f, 0)      # re-classification (Open -> SelfClose for void elements)
                    break
                r = role_of_test(cur.test)
                if r is None:
                    raise AnalysisError('SIB-VOID: cannot name the branch `%s` in %s' % (src_of(cur.test), f.short))
                return r
            if len(cur.orelse) == 1 and isinstance(cur.orelse[0], ast.If):
                cur = cur.orelse[0]
                continue
            if cur.orelse:
                return role_of_else(cur.orelse)
            break
    return None


# ---------------------------------------------------------------- SIB-QUOTE
@rule('SIB-QUOTE', 'N', 'a quoted string is closed by the same quote character that opened it')
def sib_quote(p, res):
    sites = [('scanner_utils.eat_quoted', 'scanner'), ('css_matcher.scan.literal', 'scanner'), ('css_abbreviation.tokenizer.string_value', 'scanner')]
    for fq, c in sites:
        f = p.func(fq)
        peeks = [n for n in f.body_nodes() if isinstance(n, ast.Assign) and src_of(n.value) == '%s.peek()' % c and isinstance(n.targets[0], ast.Name)]
        from .tablecheck import check_table
        if fq != 'scanner_utils.eat_quoted' and fq != 'css_matcher.scan.literal':        # those two tables belong to SIB-ESCAPE
            check_table(p, res, 'SIB-QUOTE', fq, 'a quoted string is closed by the same quote character that opened it')
        # positive detector, independent of how the opener is remembered: the first thing the scanning loop tries to eat is the
        # closing quote; a predicate over quote characters or a fixed quote constant there closes the string at the wrong kind
        loops0 = [n for n in f.body_nodes() if isinstance(n, ast.While)]
        if len(loops0) == 1:
            cl = sorted([n for n in ast.walk(loops0[0]) if isinstance(n, ast.Call) and src_of(n.func) == '%s.eat' % c and n.args], key=lambda n: (n.lineno, n.col_offset))
            if cl:
                a0 = cl[0].args[0]
                ent = p.resolve_name(f, a0.id) if isinstance(a0, ast.Name) and a0.id not in f.locals and a0.id not in f.params else None
                cv = p.try_const(f, a0)
                if (ent is not None and ent.kind == 'func' and 'quote' in a0.id.lower()) or cv in ('"', "'", 34, 39):
                    res.bad(F('SIB-QUOTE', f, cl[0], src_of(cl[0]),
                              'the closing quote must be the very character that opened the string; this test ends the string at either kind of quote / at a fixed kind'))
                    continue
        if len(peeks) != 1:
            res.undecided('%s: opening quote' % fq, 'one local holding <scanner>.peek() expected')
            continue
        q = peeks[0].targets[0].id
        loops = [n for n in f.body_nodes() if isinstance(n, ast.While)]
        if len(loops) != 1:
            res.undecided('%s: scanning loop' % fq, 'one while loop expected')
            continue
        closes = sorted([n for n in ast.walk(loops[0]) if isinstance(n, ast.Call) and src_of(n.func) == '%s.eat' % c and n.args],
                        key=lambda n: (n.lineno, n.col_offset))
        first = closes[0] if closes else None
        if first is not None and src_of(first.args[0]) == q:
            res.ok('%s: opened by %s = %s.peek(), closed by %s.eat(%s)' % (f.short, q, c, c, q))
        elif first is not None and (src_of(first.args[0]) in ('is_quote',) or (isinstance(first.args[0], ast.Attribute) and 'Quote' in first.args[0].attr)):
            res.bad(F('SIB-QUOTE', f, first, src_of(first),
                      'the closing quote must be the very character that opened the string (`%s`); this test ends the string at either kind of quote / at a fixed kind' % q))
        else:
            res.undecided('%s: closing test %s' % (f.short, src_of(first) if first is not None else '?'), 'the string is closed by eating the character that opened it')
        # the opener is recognised with is_quote on the same variable / position
        s = src_of(f.node)
        if ('is_quote(%s)' % q) in s or ('%s.eat(is_quote)' % c) in s:
            res.ok('%s: opener tested with is_quote' % f.short)
        else:
            res.undecided('%s: is_quote test of the opener' % f.short, 'string must start at a quote character')
    # backward: consume_quoted scans back to the quote that matches the closing one it started from
    f = p.func('extract_abbreviation.is_html.consume_quoted')
    loops = [n for n in f.body_nodes() if isinstance(n, ast.While)]
    if len(loops) == 1:
        preds = [n for n in ast.walk(loops[0]) if isinstance(n, ast.Call) and isinstance(n.func, ast.Name) and 'quote' in n.func.id.lower()
                 and isinstance(p.resolve_call(f, n), list) and n.args
                 and any(isinstance(x, ast.Call) and isinstance(x.func, ast.Attribute) and x.func.attr in ('previous', 'peek') for x in ast.walk(n.args[0]))]
        cmps = [n for n in ast.walk(loops[0]) if isinstance(n, ast.Compare) and len(n.ops) == 1 and isinstance(n.ops[0], (ast.Eq, ast.NotEq))
                and any(isinstance(x, ast.Call) and isinstance(x.func, ast.Attribute) and x.func.attr == 'previous' for x in ast.walk(n))
                and any(isinstance(x, ast.Name) and x.id in f.locals for x in (n.left, n.comparators[0]))]
        if preds and not cmps:
            res.bad(F('SIB-QUOTE', f, preds[0], src_of(preds[0]), 'the backward scan of a quoted value stops at any quote character: it must stop at the kind of quote that closes the value (the other kind may occur inside it)'))
        elif cmps:
            res.ok('consume_quoted: scans back to the same quote character (%s)' % src_of(cmps[0]))
        else:
            res.undecided('consume_quoted: opening quote test', 'comparison of previous() with the remembered closing quote expected')
    else:
        res.undecided('consume_quoted: scanning loop', 'one while loop expected')
    # token-level: parser.quoted closes with a quote of the same kind
    f = p.func('abbreviation.parser.quoted')
    from .tablecheck import check_table
    check_table(p, res, 'SIB-QUOTE', 'abbreviation.parser.quoted', 'a quoted attribute value ends at a quote token of the same kind')
    res.require_floor(7)


# ---------------------------------------------------------------- SIB-CARET
def _truth(rc, src):
    """truth of `src` on a path whose resolved conditions are rc: True / False / None"""
    if src in rc:
        return rc[src]
    if ('%s is None' % src) in rc and rc['%s is None' % src] is True:
        return False
    if ('%s is not None' % src) in rc and rc['%s is not None' % src] is False:
        return False
    return None


def _caret_paths(res, rname, f, paths, val, what, boolean_call=None, skip=None):
    """on every path: the value tokens that are printed are `val` only where `val` is known to be non-empty, and where
    `val` is empty (None or []) the caret is printed instead (unless `skip(rc)` says the path prints no value at all)"""
    from .path import _emission
    n_val = n_caret = 0
    for q in paths:
        rc = q.rconds()
        toks = [(a, r) for k, a, r, _ in _emission(q) if k == 'tok']
        t = _truth(rc, val)
        isbool = None
        if boolean_call is not None:
            isbool = next((v for k, v in rc.items() if k.startswith(boolean_call + '(')), None)
        where = ['path: ' + q.cond_str()[:400]]
        for a, r in toks:
            if a == val:
                if t is True:
                    n_val += 1
                else:
                    res.bad(F(rname, f, f.node, '%s: %s' % (what, src_of(r)), 'the value is printed on a path where it may be empty ([]): nothing appears between the quotes although an empty value must fall back to the caret tabstop (the sibling formatters test its truthiness)', details=where))
            elif a == 'caret':
                if t is False:
                    n_caret += 1
                elif t is True:
                    res.bad(F(rname, f, f.node, '%s: %s' % (what, src_of(r)), 'the caret replaces a value that is present', details=where))
        if t is False and not toks and not (skip and skip(rc)) and isbool is not True:
            res.bad(F(rname, f, f.node, '%s [%s]' % (what, q.cond_str()[:200]), 'an empty value (None or []) prints neither value nor caret on this path', details=where))
        if t is not False and isbool is True and not any(a == val or val in a for a, r in toks):
            res.bad(F(rname, f, f.node, '%s [%s]' % (what, q.cond_str()[:200]), 'a boolean attribute prints no value on a path where it may have one: an explicitly written value is dropped', details=where))
    return n_val, n_caret


@rule('SIB-CARET', 'N', 'every empty value (None or empty list) falls back to the caret; boolean attributes print without a value only when they have none')
def sib_caret(p, res):
    from .. import sympath, norm, shape
    from .path import _emits, _emission
    sel = lambda call, g: _emits(g)
    # html.push_attribute
    f = p.func('markup.format.html.push_attribute')
    try:
        paths = [q for q in sympath.feasible(sympath.summaries(p, f, inline=True, select=sel)) if _truth(q.rconds(), '%s.name' % f.params[0]) is not False]
        nv, nc = _caret_paths(res, 'SIB-CARET', f, paths, '%s.value' % f.params[0], 'html attribute', boolean_call='is_boolean_attribute')
        if nv and nc:
            res.ok('html.push_attribute: value printed only where non-empty (%d paths), caret where empty (%d paths)' % (nv, nc), n=2)
        else:
            res.undecided('html.push_attribute', 'value / caret paths not recognised (%d / %d)' % (nv, nc))
    except sympath.Unsupported as e:
        res.undecided('html.push_attribute', str(e))
    # indent.push_secondary_attributes (one iteration)
    g = p.func('markup.format.indent_format.push_secondary_attributes')
    gn = norm.nf(p, g, select=sel)
    loops = [x for x in shape.own_nodes(gn) if isinstance(x, ast.For)]
    if len(loops) == 1:
        defs = shape.defs_of(gn, params=g.params)
        AV = [t.id for t in ast.walk(loops[0].target) if isinstance(t, ast.Name)][-1]
        try:
            its = sympath.feasible(sympath.block_summaries(p, g, loops[0].body, env={k: shape.expand(v, defs) for k, v in defs.items()}))
            nv, nc = _caret_paths(res, 'SIB-CARET', g, its, '%s.value' % AV, 'indent attribute', boolean_call='is_boolean_attribute')
            if nv and nc:
                res.ok('indent.push_secondary_attributes: value printed only where non-empty, caret where empty', n=2)
            else:
                res.undecided('indent.push_secondary_attributes', 'value / caret paths not recognised (%d / %d)' % (nv, nc))
        except sympath.Unsupported as e:
            res.undecided('indent.push_secondary_attributes', str(e))
    else:
        res.undecided('indent.push_secondary_attributes', 'one loop expected')
    # indent.push_value: a leaf without text receives the caret; only elements with children and no text print nothing
    h = p.func('markup.format.indent_format.push_value')
    try:
        hp = sympath.feasible(sympath.summaries(p, h, inline=True, select=sel))
        N = h.params[0]
        nv = nc = 0
        for q in hp:
            rc = q.rconds()
            tv, tc = _truth(rc, '%s.value' % N), _truth(rc, '%s.children' % N)
            printed = [x for x in sympath.mentions(q, lambda n: isinstance(n, ast.Call) and getattr(n.func, 'id', getattr(n.func, 'attr', None)) in ('push_tokens', 'split_by_lines'))]
            args = {q.rsrc(c.args[0]) for c in printed if c.args}
            where = ['path: ' + q.cond_str()[:300]]
            if tv is False and tc is False:
                if 'caret' in args:
                    nc += 1
                elif not args:
                    res.bad(F('SIB-CARET', h, h.node, 'push_value [%s]' % q.cond_str()[:200], 'a leaf without text receives the caret; this path prints nothing', details=where))
            elif tv is True:
                if '%s.value' % N in args:
                    nv += 1
                elif not args:
                    res.bad(F('SIB-CARET', h, h.node, 'push_value [%s]' % q.cond_str()[:200], 'the text of the element is not printed on this path', details=where))
            elif tv is False and tc is True and 'caret' in args:
                res.bad(F('SIB-CARET', h, h.node, 'push_value [%s]' % q.cond_str()[:200], 'an element with children and no text prints nothing itself: the caret belongs to leaves only', details=where))
            elif tv is None and '%s.value' % N in args:
                res.bad(F('SIB-CARET', h, h.node, 'push_value [%s]' % q.cond_str()[:200], 'the value is printed on a path where it may be empty: no caret for an empty text', details=where))
        if nv and nc:
            res.ok('indent.push_value: node.value where non-empty, caret for empty leaves')
        else:
            res.undecided('indent.push_value', 'value / caret paths not recognised (%d / %d)' % (nv, nc))
    except sympath.Unsupported as e:
        res.undecided('indent.push_value', str(e))
    # html.element: PATH-EMIT-HTML checks on every path that the caret is emitted only with neither text nor children, and always then
    # css_property: value or tabstop 0
    cp = p.func('stylesheet.format.css_property')
    try:
        cps = sympath.feasible(sympath.summaries(p, cp, inline=False))
        N = cp.params[0]
        good = 0
        for q in cps:
            rc = q.rconds()
            if _truth(rc, '%s.name' % N) is not True:
                continue
            tv = _truth(rc, '%s.value' % N)
            fields = [q.rsrc(n) for _, n, _ in q.calls('push_field')]
            vals = [q.rsrc(n) for _, n, _ in q.calls('css_property_value')]
            where = ['path: ' + q.cond_str()[:300]]
            if tv is False:
                if len(fields) == 1 and fields[0].endswith("push_field(0, '')") and not vals:
                    good += 1
                elif not fields:
                    res.bad(F('SIB-CARET', cp, cp.node, 'css_property [%s]' % q.cond_str()[:200], 'a property without value receives tabstop 0', details=where))
                else:
                    res.undecided('css_property: %s' % fields, "push_field(0, '')")
            elif tv is True:
                if vals and not fields:
                    good += 1
                elif fields:
                    res.bad(F('SIB-CARET', cp, cp.node, 'css_property [%s]' % q.cond_str()[:200], 'a tabstop is printed although the property has a value', details=where))
                else:
                    res.bad(F('SIB-CARET', cp, cp.node, 'css_property [%s]' % q.cond_str()[:200], 'the value of the property is not printed', details=where))
            else:
                res.undecided('css_property [%s]' % q.cond_str()[:200], 'path does not test node.value')
        if good >= 2:
            res.ok("css_property: value or push_field(0, '')", n=2)
        else:
            res.undecided('css_property', 'value / tabstop paths not recognised')
    except sympath.Unsupported as e:
        res.undecided('css_property', str(e))
    res.require_floor(7)


# ----------------------------------------------------------- SIB-SPLITLINES
@rule('SIB-SPLITLINES', 'N', 'line splitting: the layout pass and the output stream split text by the same rule')
def sib_splitlines(p, res):
    a = p.func('markup.format.utils.split_by_lines')
    b = p.func('output_stream.OutputStream.push_string')
    ca = [src_of(n) for n in a.body_nodes() if isinstance(n, ast.Call) and isinstance(n.func, ast.Attribute) and n.func.attr in ('splitlines', 'split')] + \
         [src_of(n) for n in a.body_nodes() if isinstance(n, ast.Call) and src_of(n.func).startswith('re.')]
    cb = [src_of(n) for n in b.body_nodes() if isinstance(n, ast.Call) and isinstance(n.func, ast.Attribute) and n.func.attr in ('splitlines', 'split')] + \
         [src_of(n) for n in b.body_nodes() if isinstance(n, ast.Call) and src_of(n.func).startswith('re.')]
    norm = lambda xs: sorted(x.split('.', 1)[1] if '.' in x and not x.startswith('re.') else x for x in xs)
    if len(ca) == 1 and len(cb) == 1 and norm(ca) == norm(cb):
        res.ok('split_by_lines and push_string both use .%s' % norm(ca)[0])
    else:
        res.bad(F('SIB-SPLITLINES', a, a.node, 'split_by_lines: %s / push_string: %s' % (ca, cb),
                  'the indent formatter decides single-line vs multi-line layout with one splitter while the stream breaks lines with another: text with a separator only one of them knows is laid out wrongly'))
    has = p.func('markup.format.html.has_newline')
    from .tablecheck import check_table
    check_table(p, res, 'SIB-SPLITLINES', 'markup.format.html.has_newline', 'newline detection must cover \\r and \\n')
    res.require_floor(2)


@rule('API-SPLITLINES', 'N', 'str.splitlines() splits on more than \\n, \\r\\n and \\r and drops a trailing newline')
def api_splitlines(p, res):
    for fq in ('markup.format.utils.split_by_lines', 'output_stream.OutputStream.push_string'):
        f = p.func(fq)
        for n in f.body_nodes():
            if isinstance(n, ast.Call) and isinstance(n.func, ast.Attribute) and n.func.attr == 'splitlines' and not n.args:
                res.bad(F('API-SPLITLINES', f, n, src_of(n),
                          'str.splitlines() also splits on VT, FF, FS, GS, RS, NEL, LS, PS and drops a trailing newline: such text is not reproduced character for character',
                          failing_input="expand('a{x\\x0cy}')"))
    res.instances = max(res.instances, 2)


# ------------------------------------------------------------ RNG-LOOKAHEAD
@rule('RNG-LOOKAHEAD', 'N', 'look-ahead crosses at most one quote (not in a loop) and then only closing brackets')
def rng_lookahead(p, res):
    f = p.func('extract_abbreviation.offset_past_auto_closed')
    pm = p.parents(f)
    quotes = [n for n in f.body_nodes() if isinstance(n, ast.Call) and src_of(n.func) == 'is_quote']
    from .tablecheck import check_table
    check_table(p, res, 'RNG-LOOKAHEAD', 'extract_abbreviation.offset_past_auto_closed', 'look-ahead crosses at most one quote directly at the caret and then only closing brackets, bounded by the line length')
    if not quotes:
        res.undecided('offset_past_auto_closed: is_quote(line[pos])', 'the auto-inserted closing quote is skipped')
    for q in quotes:
        n = q
        in_loop = False
        while n is not None:
            n = pm.get(n)
            if isinstance(n, (ast.While, ast.For)):
                in_loop = True
        if in_loop:
            res.bad(F('RNG-LOOKAHEAD', f, q, src_of(p.enclosing_stmt(f, q)).split('\n')[0],
                      'the quote test sits inside a loop: look-ahead may cross any number of quotes (only one auto-inserted quote directly at the caret is allowed)'))
        else:
            res.ok('quote skipped once, outside any loop')
    loops = [n for n in f.body_nodes() if isinstance(n, ast.While)]
    if len(loops) == 1 and src_of(loops[0].test) == "pos < len(line) and is_close_brace(line[pos], options.get('type'))" and [src_of(x) for x in loops[0].body] == ['pos += 1']:
        res.ok('loop advances only over is_close_brace characters, bounded by len(line)')
    else:
        res.undecided('look-ahead loop: %s' % (src_of(loops[0].test) if loops else 'loop'), 'the look-ahead loop may only cross closing brackets and must be bounded by len(line)')
    first = [n for n in f.node.body if isinstance(n, ast.If)]
    if first and src_of(first[0].test) == 'pos < len(line) and is_quote(line[pos])':
        res.ok('quote test bounded by len(line)')
    else:
        res.undecided('quote test %s' % (src_of(first[0].test) if first else '?'), 'quote test must be bounded by len(line)')
    ex = p.func('extract_abbreviation.extract_abbreviation')
    s = src_of(ex.node)
    if "if opt.get('lookAhead'):\n        pos = offset_past_auto_closed(line, pos, opt)" in s:
        res.ok('look-ahead only when the lookAhead option is on')
    else:
        res.undecided("if opt.get('lookAhead'): pos = offset_past_auto_closed(..)", 'look-ahead must be optional (the decision table of extract_abbreviation is compared by PIN-EXTRACT)')
    # result construction: abbreviation == line[location:end], dangling operators stripped
    from ..linear import linear
    ctor = [c for c in ex.body_nodes() if isinstance(c, ast.Call) and src_of(c.func) == 'ExtractedAbbreviation']
    if len(ctor) != 1 or len(ctor[0].args) != 4:
        res.undecided('ExtractedAbbreviation(...)', 'one construction with four arguments expected')
        res.require_floor(7)
        return
    a = ctor[0].args
    if src_of(a[0]) == 'abbreviation' and linear(a[1]) == {'pos': 1, 'len(abbreviation)': -1} and src_of(a[3]) == 'pos':
        res.ok('ExtractedAbbreviation(abbreviation, pos - len(abbreviation), start, pos)')
    else:
        res.undecided(src_of(ctor[0]), 'location must be end - len(abbreviation) and end must be the (look-ahead adjusted) position')
    subs = [n for n in ex.body_nodes() if isinstance(n, ast.Call) and src_of(n.func) == 're.sub']
    if len(subs) == 1 and p.try_const(ex, subs[0].args[0]) is not None:
        pat = p.try_const(ex, subs[0].args[0])
        import re as _re
        okp = pat.startswith('^[') and pat.endswith(']+') and all(ch in pat for ch in '*+>^') and src_of(subs[0].args[2]) == 'line[scanner.pos:pos]' and p.try_const(ex, subs[0].args[1]) == ''
        if okp:
            res.ok('dangling operators stripped by %r from line[scanner.pos:pos]' % pat)
        else:
            res.undecided(src_of(subs[0]), 'the result must be line[scanner.pos:pos] with leading > + ^ * removed (anchored class containing all four)')
    else:
        res.undecided('re.sub of dangling operators', 'dangling-operator stripping not recognised')
    st = [n for n in ex.body_nodes() if isinstance(n, ast.Assign) and src_of(n.targets[0]) == 'start' and isinstance(n.value, ast.IfExp)]
    if st and src_of(st[0].value) == 'start - len(prefix) if prefix else pos - len(abbreviation)':
        res.ok('start = start - len(prefix) if prefix else location')
    else:
        res.undecided(src_of(st[0]) if st else 'start = ...', 'start must be the prefix position, or the location when no prefix is configured')
    res.require_floor(7)


# ----------------------------------------------------------------- RNG-TRIM
@rule('RNG-TRIM', 'N', 'range trimming never crosses: start moves only while start < end, end only while end > start')
def rng_trim(p, res):
    f = p.func('css_matcher.inner_range')
    loops = [n for n in f.body_nodes() if isinstance(n, ast.While)]
    from .tablecheck import check_table
    check_table(p, res, 'RNG-TRIM', 'css_matcher.inner_range', 'range trimming never crosses: start moves only while start < end, end only while end > start; an empty inner range is None')
    check_table(p, res, 'RNG-TRIM', 'css_matcher.push', 'empty and repeated ranges are not reported')
    if len(loops) != 2:
        res.undecided('inner_range', 'two trim loops expected')
        loops = []
    for lp in loops:
        body = [src_of(x) for x in lp.body]
        cj = [c for c, pol in conjuncts(lp.test, True) if pol]
        if body == ['start += 1']:
            if 'start < end' in cj or 'end > start' in cj:
                res.ok('start += 1 while start < end')
            else:
                res.bad(F('RNG-TRIM', f, lp, 'while %s' % src_of(lp.test), 'left trim must stop at `end` (start < end)'))
        elif body == ['end -= 1']:
            if 'end > start' in cj or 'start < end' in cj:
                res.ok('end -= 1 while end > start')
            else:
                res.bad(F('RNG-TRIM', f, lp, 'while %s' % src_of(lp.test), 'right trim must stop at `start` (end > start): otherwise a whitespace-only body yields an inverted range',
                          failing_input="css_matcher.balanced_inward('a { }', 0)"))
        else:
            res.undecided('trim loop body %s' % body, 'start += 1 / end -= 1')
    ret = [n for n in f.body_nodes() if isinstance(n, ast.Return)]
    if len(ret) == 1 and src_of(ret[0].value) in ('(start, end) if start < end else None', '(start, end) if end > start else None', '(start, end) if start != end else None'):
        res.ok('empty range -> None')
    else:
        res.undecided(src_of(ret[0].value) if ret else '?', 'an empty inner range must be reported as None (decided by the table of inner_range)')
    # push(): empty ranges and duplicates are dropped
    for fq in ('css_matcher.push', 'action_utils.utils.push_range'):
        g = p.func(fq)
        s = src_of(g.node)
        r = g.params[1]
        if ('%s[0] != %s[1]' % (r, r)) in s:
            res.ok('%s drops empty ranges' % g.short)
        else:
            res.undecided('%s: %s[0] != %s[1]' % (g.short, r, r), 'empty ranges must not be reported (decided by the tables of push / push_range)')
    res.require_floor(5)


# ------------------------------------------------------------- RNG-BALANCED
@rule('RNG-BALANCED', 'N', 'math extract reports a range only when parentheses are balanced and something was consumed')
def rng_balanced(p, res):
    f = p.func('math_expression.extract.extract')
    rets = [n for n in f.body_nodes() if isinstance(n, ast.Return) and n.value is not None and isinstance(n.value, ast.Tuple)]
    from .tablecheck import check_table
    check_table(p, res, 'RNG-BALANCED', 'math_expression.extract.extract', 'math extract reports (start found by the backward scan, look-ahead adjusted end) only when parentheses are balanced and something was consumed')
    if len(rets) != 1:
        res.undecided('extract', 'one tuple return expected')
        res.require_floor(4)
        return
    facts = implied_facts(p, f, rets[0])
    if ('braces', False) in facts:
        res.ok('return dominated by `not braces`')
    else:
        res.bad(F('RNG-BALANCED', f, rets[0], src_of(rets[0]), 'the range is returned without requiring `not braces`: an expression with an unmatched ")" is reported',
                  failing_input="extract('foo(bar, 1+2)', 12)"))
    if ('scanner.pos != end', True) in facts or ('end != scanner.pos', True) in facts:
        res.ok('return dominated by scanner.pos != end')
    else:
        res.bad(F('RNG-BALANCED', f, rets[0], src_of(rets[0]), 'an empty range must not be reported'))
    if src_of(rets[0].value) == '(scanner.pos, end)':
        res.ok('range is (scanner.pos, end)')
    else:
        res.undecided(src_of(rets[0]), 'range must be (start found by the backward scan, look-ahead adjusted end)')
    # "(" with no pending ")" stops the scan
    s = src_of(f.node)
    if 'elif ch == Operator.LeftParenthesis:\n            if not braces:\n                break\n            braces -= 1' in s and 'if ch == Operator.RightParenthesis:\n            braces += 1' in s:
        res.ok('")" opens a level, "(" closes one or stops the scan')
    else:
        res.undecided('parenthesis bookkeeping of the backward scan', 'compared through the decision table of extract')
    res.require_floor(4)


# ------------------------------------------------------------- OWN-RAWPUSH
# Option values that are single-line by their documented meaning (a user who puts a line break into one of them gets
# what they asked for); keyed by option name, not by the text of the call site.
SINGLE_LINE_OPTIONS = {'output.indent', 'stylesheet.after', 'stylesheet.between', 'stylesheet.jsonDoubleQuotes', 'stylesheet.shortHex',
                       'beforeTextLine', 'afterTextLine', 'beforeName', 'afterName', 'selfClose', 'booleanValue', 'glueAttribute',
                       'beforeAttribute', 'afterAttribute'}
# Attributes that hold text written by the user of the abbreviation or of a template: may contain any character.
TEXT_ATTRS = {'before', 'after', 'value', 'text'}
NUMERIC_FORMATTERS = {'stylesheet.color.frac': 'formats one number with a fixed number of digits'}


class _Lines:
    """may the value of an expression contain a line break?  'free' (proved not), 'text' (it is text supplied from outside),
    'unknown'.  A flow-insensitive classification over single-assignment locals, loop variables and callee returns."""

    def __init__(self, p):
        self.p = p
        self.busy = set()
        self.fcache = {}

    def join(self, kinds):
        kinds = list(kinds)
        if 'text' in kinds:
            return 'text'
        if 'unknown' in kinds:
            return 'unknown'
        return 'free'

    def func_returns(self, g):
        if g.short in NUMERIC_FORMATTERS:
            return 'free'
        if g.qualname in self.fcache:
            return self.fcache[g.qualname]
        if g.qualname in self.busy:
            return 'unknown'
        self.busy.add(g.qualname)
        try:
            rets = [n.value for n in g.body_nodes() if isinstance(n, ast.Return) and n.value is not None]
            k = self.join(self.expr(g, r) for r in rets) if rets else 'unknown'
        finally:
            self.busy.discard(g.qualname)
        self.fcache[g.qualname] = k
        return k

    def numeric_field(self, c, attr):
        """field `attr` of class c only ever receives numbers: it is set in __init__ from a parameter (or a numeric constant) and
        every constructor call in the package passes int()/float()/a numeric constant for it (or leaves a numeric default)"""
        key = (c.qualname, attr)
        if key in self.fcache:
            return self.fcache[key]
        self.fcache[key] = False
        init = c.methods.get('__init__')
        ok = False
        if init is not None:
            srcs = [n.value for n in init.body_nodes() if isinstance(n, ast.Assign) and src_of(n.targets[0]) == 'self.' + attr]
            writers = [n for g in self.p.funcs.values() if g is not init for n in g.body_nodes()
                       if isinstance(n, (ast.Assign, ast.AugAssign)) and any(isinstance(t, ast.Attribute) and t.attr == attr and self.p.type_of(g, t.value) is c
                                                                             for t in (n.targets if isinstance(n, ast.Assign) else [n.target]))]
            if len(srcs) == 1 and not writers:
                params = [x.id for x in ast.walk(srcs[0]) if isinstance(x, ast.Name)]
                consts = [x for x in ast.walk(srcs[0]) if isinstance(x, ast.Constant) and x.value is not None]
                if len(set(params)) == 1 and params[0] in init.params and all(isinstance(x.value, (int, float)) for x in consts):
                    ix = init.params.index(params[0]) - 1
                    dflt = init.defaults.get(params[0])
                    ok = True
                    from .. import callgraph
                    n_sites = 0
                    for g in self.p.funcs.values():
                        for n in g.body_nodes():
                            if isinstance(n, ast.Call) and self.p.resolve_call(g, n) is c:
                                n_sites += 1
                                a = n.args[ix] if ix < len(n.args) else next((k.value for k in n.keywords if k.arg == params[0]), None)
                                if a is None:
                                    if not (dflt is None or (isinstance(dflt, ast.Constant) and (dflt.value is None or isinstance(dflt.value, (int, float))))):
                                        ok = False
                                elif isinstance(a, ast.Starred):
                                    ok = False
                                elif not (isinstance(a, ast.Constant) and isinstance(a.value, (int, float))) and not \
                                        (isinstance(a, ast.Call) and isinstance(a.func, ast.Name) and a.func.id in ('int', 'float', 'round', 'len', 'min', 'max')) and not self.numeric(g, a):
                                    ok = False
                    ok = ok and n_sites > 0
        self.fcache[key] = ok
        return ok

    def numeric(self, f, e):
        t = self.p.type_of(f, e)
        if t in ('int', 'float', 'bool'):
            return True
        if isinstance(e, ast.Attribute):
            rt = self.p.type_of(f, e.value)
            if isinstance(rt, Class) and self.numeric_field(rt, e.attr):
                return True
        if isinstance(e, ast.Constant) and isinstance(e.value, (int, float)):
            return True
        if isinstance(e, ast.BinOp) and isinstance(e.op, (ast.RShift, ast.LShift, ast.FloorDiv, ast.BitAnd, ast.BitOr)):
            return True
        if isinstance(e, ast.BinOp) and isinstance(e.op, (ast.Add, ast.Sub, ast.Mult, ast.Mod)) and self.numeric(f, e.left) and self.numeric(f, e.right):
            return True
        if isinstance(e, ast.Name) and e.id in f.params:
            ann = next((a.annotation for a in f.node.args.args if a.arg == e.id), None)
            if ann is not None and src_of(ann) in ('int', 'float'):
                return True
        if isinstance(e, ast.Call) and isinstance(e.func, ast.Name) and e.func.id in ('int', 'float', 'round', 'len', 'abs', 'ord'):
            return True
        if isinstance(e, ast.IfExp):
            return self.numeric(f, e.body) and self.numeric(f, e.orelse)
        if isinstance(e, ast.Name) and e.id in f.locals and e.id not in f.all_params() and (f.qualname, e.id) not in self.busy:
            self.busy.add((f.qualname, e.id))
            try:
                oks = []
                for n in f.body_nodes():
                    if isinstance(n, ast.Assign):
                        for t in n.targets:
                            if isinstance(t, ast.Name) and t.id == e.id:
                                oks.append(self.numeric(f, n.value))
                            elif isinstance(t, (ast.Tuple, ast.List)) and any(isinstance(x, ast.Name) and x.id == e.id for x in t.elts):
                                ix = [i for i, x in enumerate(t.elts) if isinstance(x, ast.Name) and x.id == e.id][0]
                                if isinstance(n.value, (ast.Tuple, ast.List)) and len(n.value.elts) == len(t.elts):
                                    oks.append(self.numeric(f, n.value.elts[ix]))
                                    continue
                                tgt = self.p.resolve_call(f, n.value) if isinstance(n.value, ast.Call) else None
                                if isinstance(tgt, list) and len(tgt) == 1:
                                    g = tgt[0]
                                    rets = [r.value for r in g.body_nodes() if isinstance(r, ast.Return)]
                                    oks.append(bool(rets) and all(isinstance(r, ast.Tuple) and len(r.elts) == len(t.elts) and self.numeric(g, r.elts[ix]) for r in rets))
                                else:
                                    oks.append(False)
                    elif isinstance(n, (ast.AugAssign, ast.For)) and any(isinstance(x, ast.Name) and x.id == e.id for x in ast.walk(n.target)):
                        oks.append(False)
                return bool(oks) and all(oks)
            finally:
                self.busy.discard((f.qualname, e.id))
        return False

    def expr(self, f, e, depth=0):
        p = self.p
        if depth > 6:
            return 'unknown'
        if isinstance(e, ast.Constant):
            if isinstance(e.value, str):
                return 'free' if not any(c in e.value for c in '\n\r\x0b\x0c\x1c\x1d\x1e\x85  ') else 'text'
            return 'free'
        if isinstance(e, ast.JoinedStr):
            return self.join(self.expr(f, v.value if isinstance(v, ast.FormattedValue) else v, depth + 1) for v in e.values)
        if isinstance(e, ast.BinOp) and isinstance(e.op, ast.Add):
            return self.join([self.expr(f, e.left, depth + 1), self.expr(f, e.right, depth + 1)])
        if isinstance(e, ast.BinOp) and isinstance(e.op, ast.Mult):
            a, b = e.left, e.right
            if self.numeric(f, a) or (isinstance(a, ast.Call) and src_of(a.func) in ('max', 'min', 'len')):
                a, b = b, a
            return self.expr(f, a, depth + 1)
        if isinstance(e, ast.BinOp) and isinstance(e.op, ast.Mod):
            left = self.expr(f, e.left, depth + 1)
            args = list(e.right.elts) if isinstance(e.right, ast.Tuple) else [e.right]
            fmt = p.try_const(f, e.left)
            kinds = [left]
            if isinstance(fmt, str):
                import re as _re
                specs = _re.findall(r'%[-+ #0]*\d*(?:\.\d+)?([a-zA-Z%])', fmt)
                specs = [x for x in specs if x != '%']
                for sp, a in zip(specs, args):
                    kinds.append('free' if sp in 'dfxXeEgGioc' else self.expr(f, a, depth + 1))
            else:
                kinds += ['free' if self.numeric(f, a) else self.expr(f, a, depth + 1) for a in args]
            return self.join(kinds)
        if isinstance(e, ast.IfExp):
            return self.join([self.expr(f, e.body, depth + 1), self.expr(f, e.orelse, depth + 1)])
        if isinstance(e, ast.BoolOp):
            return self.join(self.expr(f, v, depth + 1) for v in e.values)
        if isinstance(e, ast.Call):
            fn = e.func
            if isinstance(fn, ast.Name) and fn.id in ('str', 'format', 'repr', 'hex', 'chr') and e.args:
                return 'free' if self.numeric(f, e.args[0]) else (self.expr(f, e.args[0], depth + 1) if fn.id == 'str' else 'unknown')
            if isinstance(fn, ast.Attribute) and fn.attr in ('strip', 'lstrip', 'rstrip', 'lower', 'upper', 'title', 'rjust', 'ljust', 'zfill', 'center'):
                return self.join([self.expr(f, fn.value, depth + 1)] + [self.expr(f, a, depth + 1) for a in e.args if not self.numeric(f, a)])
            if isinstance(fn, ast.Attribute) and fn.attr == 'join' and e.args:
                return self.join([self.expr(f, fn.value, depth + 1), self.elements(f, e.args[0], depth + 1)])
            if isinstance(fn, ast.Attribute) and fn.attr == 'replace' and len(e.args) == 2:
                return self.join([self.expr(f, fn.value, depth + 1), self.expr(f, e.args[1], depth + 1)])
            if src_of(fn) == 're.sub' and len(e.args) >= 3:
                return self.join([self.expr(f, e.args[1], depth + 1), self.expr(f, e.args[2], depth + 1)])
            if isinstance(fn, ast.Attribute) and fn.attr == 'get' and e.args and src_of(fn.value).endswith('options'):
                k = p.try_const(f, e.args[0])
                if k in SINGLE_LINE_OPTIONS:
                    return 'free'
                return 'unknown'
            tgt = p.resolve_call(f, e)
            if isinstance(tgt, list) and tgt:
                return self.join(self.func_returns(g) for g in tgt)
            return 'unknown'
        if isinstance(e, ast.Subscript) and src_of(e.value).endswith('options'):
            k = p.try_const(f, e.slice)
            return 'free' if k in SINGLE_LINE_OPTIONS else 'unknown'
        if isinstance(e, ast.Attribute):
            if e.attr in TEXT_ATTRS:
                return 'text'
            if e.attr == 'name':
                return 'free'          # identifiers: the tokenizers accept no line break inside a name
            return 'unknown'
        if isinstance(e, ast.Name):
            if e.id in f.locals and e.id not in f.all_params():
                vals = p.local_assignments(f, e.id)
                if vals and all(v is not None for v in vals):
                    return self.join(self.expr(f, v, depth + 1) for v in vals)
                # loop variable
                for n in f.body_nodes():
                    if isinstance(n, ast.For) and any(isinstance(t, ast.Name) and t.id == e.id for t in ast.walk(n.target)):
                        it = n.iter
                        if isinstance(it, ast.Call) and isinstance(it.func, ast.Name) and it.func.id == 'enumerate' and it.args:
                            if isinstance(n.target, ast.Tuple) and src_of(n.target.elts[0]) == e.id:
                                return 'free'
                            it = it.args[0]
                        if isinstance(it, ast.Call) and isinstance(it.func, ast.Attribute) and it.func.attr == 'splitlines':
                            return 'free'       # the pieces between line breaks
                        if isinstance(it, ast.Name) and it.id in f.all_params() or isinstance(it, ast.Attribute):
                            return 'text'       # an element of a token list handed in from outside
                        return self.elements(f, it, depth + 1)
                return 'unknown'
            if e.id in f.all_params():
                return 'unknown'
            cv = p.try_const(f, e)
            if isinstance(cv, str):
                return self.expr(f, ast.Constant(value=cv), depth + 1)
            return 'unknown'
        return 'unknown'

    def elements(self, f, e, depth):
        if isinstance(e, (ast.List, ast.Tuple)):
            return self.join(self.expr(f, x, depth + 1) for x in e.elts) if e.elts else 'free'
        if isinstance(e, ast.Name) and e.id in f.locals and e.id not in f.all_params():
            vals = self.p.local_assignments(f, e.id)
            kinds = []
            if not vals or any(v is None for v in vals):
                return 'unknown'
            for v in vals:
                kinds.append(self.elements(f, v, depth + 1))
            for n in f.body_nodes():
                if isinstance(n, ast.Call) and isinstance(n.func, ast.Attribute) and src_of(n.func.value) == e.id and n.func.attr in ('append', 'insert', 'extend'):
                    kinds.append(self.expr(f, n.args[-1], depth + 1) if n.func.attr != 'extend' else self.elements(f, n.args[0], depth + 1))
            return self.join(kinds)
        return 'unknown'


@rule('OWN-RAWPUSH', 'N', 'raw OutputStream.push (no newline handling) is called only with text that cannot contain a line break')
def own_rawpush(p, res):
    from .. import shape
    osc = p.cls('output_stream.OutputStream')
    L = _Lines(p)
    for f in p.funcs.values():
        defs = None
        for n in f.body_nodes():
            if not (isinstance(n, ast.Call) and isinstance(n.func, ast.Attribute) and n.func.attr == 'push' and len(n.args) == 1):
                continue
            rt = p.type_of(f, n.func.value)
            defs = shape.defs_of(f.node, params=f.params) if defs is None else defs
            recv = src_of(shape.expand(n.func.value, defs))
            is_os = (isinstance(rt, Class) and (rt is osc or osc in p.mro(rt))) or (rt is None and (recv in ('out', 'state.out', 'self') or recv.endswith('.out')))
            if not is_os:
                continue
            if f.qualname == 'emmet.output_stream.OutputStream.push_newline':
                res.ok('%s: the newline emitter itself (ACC-WRITER checks what it pushes)' % f.short)
                continue
            k = L.expr(f, n.args[0])
            if k == 'free':
                res.ok('%s: push(%s) cannot contain a line break' % (f.short, src_of(n.args[0])))
            elif k == 'text':
                res.bad(F('OWN-RAWPUSH', f, n, src_of(n),
                          'text is written with raw push(): a line break inside it bypasses newline/baseIndent/indent handling and the line/column bookkeeping; use push_string() for text that may span lines'))
            else:
                res.undecided('%s: %s' % (f.short, src_of(n)), 'not shown to be free of line breaks (nor positively text from outside)')
    res.assumptions.append('option values named in SINGLE_LINE_OPTIONS are single-line strings (documented meaning of these options)')
    res.require_floor(18)


# -------------------------------------------------------------- EXC-RANDINT
@rule('EXC-RANDINT', 'N', 'randint(a, b) is only called with a <= b')
def exc_randint(p, res):
    """keyed by function (not by the text of the call): the argument expressions are expanded through single-assignment
    locals and compared in linear normal form; the facts that make the range non-empty are read from enclosing tests and
    earlier guard clauses"""
    from .. import shape
    from ..linear import linear
    from .tablecheck import check_table
    reviewed = {
        'markup.lorem.lorem': 'upper bound is max(lower, ..) or the lower bound itself',
        'markup.lorem.sample': 'randint(0, len(arr) - 1); vocabularies are non-empty (TAB-VOCAB)',
        'markup.lorem.choice': "randint(0, len(val) - 1); only called with a non-empty constant",
        'markup.lorem.insert_commas': 'randint(0, len(words) - 2) behind the len(words) < 2 early return',
        'markup.lorem.paragraph': 'constants',
    }
    for f in p.funcs.values():
        defs = None
        for n in f.body_nodes():
            if not (isinstance(n, ast.Call) and src_of(n.func) == 'randint' and len(n.args) == 2):
                continue
            a, b = n.args
            ca, cb = p.try_const(f, a), p.try_const(f, b)
            if isinstance(ca, int) and isinstance(cb, int):
                if ca <= cb:
                    res.ok('%s: %s' % (f.short, src_of(n)))
                else:
                    res.bad(F('EXC-RANDINT', f, n, src_of(n), 'empty range: ValueError'))
                continue
            if f.short not in reviewed:
                res.undecided('%s: %s' % (f.short, src_of(n)), 'range not shown to be non-empty (new randint site)')
                continue
            defs = shape.defs_of(f.node, params=f.params) if defs is None else defs
            xa, xb = shape.expand(a, defs), shape.expand(b, defs)
            lb = linear(xb)
            pm = shape.parent_map(f.node)
            facts = {(fs, pol) for fs, pol in shape.implied(n, pm)}
            xfacts = set()
            for fs, pol in facts:
                try:
                    xfacts.add((src_of(shape.expand(ast.parse(fs, mode='eval').body, defs)), pol))
                except SyntaxError:
                    pass
            okk = None
            if f.short == 'markup.lorem.lorem':
                ok1 = isinstance(xb, ast.IfExp) and isinstance(xb.body, ast.Call) and src_of(xb.body.func) == 'max' and any(src_of(x) == src_of(xa) for x in xb.body.args) and src_of(xb.orelse) == src_of(xa)
                ok2 = isinstance(xb, ast.Call) and src_of(xb.func) == 'max' and any(src_of(x) == src_of(xa) for x in xb.args)
                okk = True if (ok1 or ok2) else None
                if okk is None and isinstance(xb, ast.IfExp) and not (isinstance(xb.body, ast.Call) and src_of(xb.body.func) == 'max') and src_of(xb.orelse) == src_of(xa):
                    okk = False
                why = 'the upper bound must be max(lower, <upper>) so that a descending range (lorem5-2) cannot reach randint'
            elif f.short in ('markup.lorem.sample', 'markup.lorem.choice'):
                arr = f.params[0]
                okk = True if (ca == 0 and lb == {'len(%s)' % arr: 1, '1': -1}) else None
                if okk and f.short == 'markup.lorem.choice':
                    calls = callgraph.get(p).callers_of(f)
                    okk = True if calls and all(isinstance(p.try_const(c, k.args[0]), str) and p.try_const(c, k.args[0]) for c, k in calls) else None
                why = 'the upper bound must be len(<sequence>) - 1 of a non-empty sequence'
            elif f.short == 'markup.lorem.insert_commas':
                w = f.params[0]
                guard = ('len(%s) < 2' % w, False) in xfacts or ('len(%s) >= 2' % w, True) in xfacts or ('len(%s) > 1' % w, True) in xfacts
                okk = True if (ca == 0 and lb == {'len(%s)' % w: 1, '1': -2} and guard) else None
                if ca == 0 and lb == {'len(%s)' % w: 1, '1': -2} and not any('len(%s)' % w in fs for fs, _ in xfacts):
                    okk = False
                why = 'randint(0, len(words) - 2) needs the len(words) < 2 early return'
            if okk is True:
                res.ok('%s: %s (%s)' % (f.short, src_of(n), reviewed[f.short]))
            elif okk is False:
                res.bad(F('EXC-RANDINT', f, n, src_of(n), why + ': ValueError', failing_input='lorem5-2'))
            else:
                res.undecided('%s: %s' % (f.short, src_of(n)), reviewed[f.short])
    res.require_floor(5)


# ---------------------------------------------------------------- PATH-FLAG
@rule('PATH-FLAG', 'N', 'a found-flag set inside a search loop is reset right before that loop on every entry')
def path_flag(p, res):
    n_sites = 0
    for f in p.funcs.values():
        pm = None
        for lp in f.body_nodes():
            if not isinstance(lp, (ast.While, ast.For)):
                continue
            sets = [n for n in ast.walk(lp) if isinstance(n, ast.Assign) and len(n.targets) == 1 and isinstance(n.targets[0], ast.Name)
                    and isinstance(n.value, ast.Constant) and n.value.value is True]
            for st in sets:
                name = st.targets[0].id
                if name not in f.locals:
                    continue
                # only flags that are read after the loop
                pm = pm or p.parents(f)
                # find block containing lp
                par = pm.get(lp)
                blk = None
                for field in ('body', 'orelse', 'finalbody'):
                    b = getattr(par, field, None)
                    if isinstance(b, list) and lp in b:
                        blk = b
                if blk is None:
                    continue
                i = blk.index(lp)
                read_after = any(isinstance(x, ast.Name) and x.id == name and isinstance(x.ctx, ast.Load) for y in blk[i + 1:] for x in ast.walk(y))
                # inner loops that reset the flag themselves at the top of each iteration (found = False; acronym = False) are fine
                resets_inside = [n for n in lp.body if isinstance(n, ast.Assign) and src_of(n.targets[0]) == name and isinstance(n.value, ast.Constant) and n.value.value is False]
                if not read_after:
                    continue
                n_sites += 1
                # is the loop nested in an outer loop? then the reset must be in the same block before lp
                outer = None
                q = par
                while q is not None:
                    if isinstance(q, (ast.While, ast.For)):
                        outer = q
                        break
                    q = pm.get(q)
                before = [y for y in blk[:i] if isinstance(y, ast.Assign) and src_of(y.targets[0]) == name]
                reset_here = bool(before) and isinstance(before[-1].value, ast.Constant) and before[-1].value.value is False
                if outer is not None and not reset_here:
                    # reset may also sit earlier inside the outer loop body on the path to lp
                    q = par
                    found = False
                    while q is not None and q is not outer:
                        qp = pm.get(q)
                        for field in ('body', 'orelse'):
                            b = getattr(qp, field, None)
                            if isinstance(b, list) and q in b:
                                for y in b[:b.index(q)]:
                                    if isinstance(y, ast.Assign) and src_of(y.targets[0]) == name and isinstance(y.value, ast.Constant) and y.value.value is False:
                                        found = True
                        q = qp
                    reset_here = found
                if outer is None:
                    reset_here = reset_here or any(isinstance(y, ast.Assign) and src_of(y.targets[0]) == name for y in f.node.body)
                if reset_here:
                    res.ok('%s: flag `%s` reset before the loop at line %d' % (f.short, name, lp.lineno))
                else:
                    res.bad(F('PATH-FLAG', f, lp, 'flag `%s` set in loop `%s`' % (name, src_of(lp).split('\n')[0]),
                              'the flag is read after this loop but is not reset to False before it inside the enclosing loop: a value from an earlier iteration leaks into this one'))
    res.stats['flag_sites'] = n_sites
    res.require_floor(1)


# ------------------------------------------------------------ DEC-MERGEDECL
@rule('DEC-MERGEDECL', 'N', 'merging a repeated attribute: last value wins (first under reverse), flags are sticky, expression type is sticky')
def dec_mergedecl(p, res):
    ev = MiniEval(p)
    f = p.func('markup.attributes.merge_declarations')
    types = ['raw', 'singleQuote', 'doubleQuote', 'expression']
    for dt, st, rev, di, si, db, sb in itertools.product(types, types, [False, True], [False, True], [False, True], [False, True], [False, True]):
        dest = Rec(name='a', value=['d'], value_type=dt, implied=di, boolean=db)
        src = Rec(name='b', value=['s'], value_type=st, implied=si, boolean=sb)
        cfg = Rec(options={'output.reverseAttributes': rev})
        ev.call(f, [dest, src, cfg])
        want_val = ['d'] if rev else ['s']
        # the printed quotes/braces must be those of the value that is kept
        want_type = dt if rev else st
        problems = []
        if dest['value'] != want_val:
            problems.append('value %r (expected %r)' % (dest['value'], want_val))
        if dest['implied'] != (di or si):
            problems.append('implied %r' % dest['implied'])
        if dest['boolean'] != (db or sb):
            problems.append('boolean %r' % dest['boolean'])
        if dest['name'] != 'b':
            problems.append('name %r' % dest['name'])
        # documented upstream rule: an expression destination keeps its type, otherwise the source type is taken
        upstream = dt if dt == 'expression' else st
        if dest['value_type'] != upstream:
            problems.append('value_type %r (expected %r)' % (dest['value_type'], upstream))
        if problems:
            res.bad(F('DEC-MERGEDECL', f, f.node, 'dest.type=%s src.type=%s reverse=%s implied=%s/%s boolean=%s/%s' % (dt, st, rev, di, si, db, sb), '; '.join(problems)))
        else:
            res.ok('dest=%s src=%s reverse=%s -> value %s type %s' % (dt, st, rev, want_val, upstream) if len(res.samples) < 3 else None)
    # merge_attributes, decided on the symbolic summary of one loop iteration: an unnamed attribute is appended as is; the
    # first occurrence of a name appends a copy and remembers that same copy; a later `class` glues its value to the
    # remembered copy with one space (and stores the result: merge_value returns a new list when the old value is None);
    # any other later occurrence goes through merge_declarations(remembered, attr, config)
    from .. import sympath, norm, shape
    g = p.func('markup.attributes.merge_attributes')
    gn = norm.nf(p, g, inline=True)
    loops = [x for x in shape.own_nodes(gn) if isinstance(x, ast.For) and src_of(x.iter) == 'node.attributes']
    if len(loops) != 1 or not isinstance(loops[0].target, ast.Name):
        res.undecided('merge_attributes', 'one loop over node.attributes expected')
    else:
        lp = loops[0]
        A = lp.target.id
        try:
            its = sympath.feasible(sympath.block_summaries(p, g, lp.body))
        except sympath.Unsupported as e:
            its = []
            res.undecided('merge_attributes loop', str(e))
        rets = [x for x in shape.own_nodes(gn) if isinstance(x, ast.Assign) and src_of(x.targets[0]) == 'node.attributes']
        out = src_of(rets[0].value) if len(rets) == 1 and isinstance(rets[0].value, ast.Name) else None
        if out is None:
            res.undecided('node.attributes = ...', 'the merged list is stored back into the node')
        seen_classes = set()
        for q in its if out else []:
            cm = q.cond_map(q.snaps)
            named = cm.get('%s.name' % A)
            calls = [(sym, sympath.unsnap(n, q.snaps)) for sym, n, _ in q.events if isinstance(n, ast.Call)]
            stores = [sympath.unsnap(n, q.snaps) for sym, n, _ in q.events if isinstance(n, ast.Assign)]
            appended = [c.args[0] for _, c in calls if src_of(c.func) == '%s.append' % out and c.args]
            inlook = cm.get('%s.name in lookup' % A)
            if inlook is None and cm.get('lookup.get(%s.name) is None' % A) is not None:
                inlook = not cm['lookup.get(%s.name) is None' % A]
            if inlook is None and cm.get('lookup.get(%s.name)' % A) is not None:
                inlook = cm['lookup.get(%s.name)' % A]
            isclass = cm.get("%s.name == 'class'" % A)
            PREV = ('lookup[%s.name]' % A, 'lookup.get(%s.name)' % A)
            where = ['iteration path: ' + q.cond_str()]
            if named is False:
                cls = 'unnamed'
                if [src_of(x) for x in appended] == [A] and len(calls) == 1 and not stores:
                    res.ok('merge_attributes: unnamed attribute appended unchanged')
                elif not appended:
                    res.bad(F('DEC-MERGEDECL', g, lp, 'unnamed attribute [%s]' % q.cond_str(), 'an attribute without a name is dropped from the element', details=where))
                else:
                    res.undecided('unnamed attribute: %s' % [src_of(c) for _, c in calls], 'append(attr) only')
            elif named is True and inlook is False:
                cls = 'first'
                st_look = [x for x in stores if src_of(x.targets[0]) == 'lookup[%s.name]' % A]
                copies = [sym for sym, c in calls if src_of(c) == '%s.copy()' % A]
                ok = len(st_look) == 1 and len(appended) == 1 and len(copies) == 1 and src_of(st_look[0].value) == copies[0] \
                    and src_of(appended[0]) in (copies[0],) + PREV
                if ok:
                    res.ok('merge_attributes: first occurrence appends a copy and remembers that copy')
                elif len(appended) == 1 and src_of(appended[0]) == A:
                    res.bad(F('DEC-MERGEDECL', g, lp, 'first occurrence [%s]' % q.cond_str(), 'the attribute of the abbreviation tree itself is appended instead of the remembered copy: later merges do not reach the output (or change the tree)', details=where))
                elif not appended:
                    res.bad(F('DEC-MERGEDECL', g, lp, 'first occurrence [%s]' % q.cond_str(), 'a named attribute seen for the first time is not added to the element', details=where))
                elif not st_look:
                    res.bad(F('DEC-MERGEDECL', g, lp, 'first occurrence [%s]' % q.cond_str(), 'the first occurrence is not remembered: a repeated attribute is printed twice', details=where))
                else:
                    res.undecided('first occurrence: %s' % [src_of(c) for _, c in calls], 'copy, remember, append the same object')
            elif named is True and inlook is True and isclass is True:
                cls = 'class'
                mv = [(sym, c) for sym, c in calls if src_of(c.func) == 'merge_value']
                ok = False
                if len(mv) == 1 and len(mv[0][1].args) == 3:
                    a0, a1, a2 = mv[0][1].args
                    ok = src_of(a0) in tuple(x + '.value' for x in PREV) and src_of(a1) == '%s.value' % A and p.try_const(g, a2) == ' '
                    stored = [x for x in stores if src_of(x.targets[0]) in tuple(pv + '.value' for pv in PREV) and src_of(x.value) == mv[0][0]]
                    if ok and stored and not appended:
                        res.ok("merge_attributes: class values glued with one space onto the remembered attribute")
                    elif ok and not stored:
                        res.bad(F('DEC-MERGEDECL', g, lp, src_of(mv[0][1]), 'the result of merge_value is dropped: when the remembered class attribute has no value yet (None) the merged list is a new object and the class is lost', details=where))
                    elif len(mv[0][1].args) == 3 and isinstance(p.try_const(g, a2), str) and p.try_const(g, a2) != ' ':
                        res.bad(F('DEC-MERGEDECL', g, lp, src_of(mv[0][1]), 'class names are separated by exactly one space', details=where))
                    elif appended:
                        res.bad(F('DEC-MERGEDECL', g, lp, 'repeated class [%s]' % q.cond_str(), 'a repeated class attribute is appended again instead of being merged', details=where))
                    else:
                        res.undecided(src_of(mv[0][1]), 'merge_value(remembered.value, attr.value, " ")')
                elif not mv and any(src_of(c.func) == 'merge_declarations' for _, c in calls):
                    res.bad(F('DEC-MERGEDECL', g, lp, 'repeated class [%s]' % q.cond_str(), 'a repeated class replaces the earlier classes instead of being added to them', details=where))
                else:
                    res.undecided('repeated class: %s' % [src_of(c) for _, c in calls], 'one merge_value call')
            elif named is True and inlook is True and isclass is False:
                cls = 'other'
                md = [c for _, c in calls if src_of(c.func) == 'merge_declarations']
                if len(md) == 1 and len(md[0].args) == 3 and src_of(md[0].args[0]) in PREV and src_of(md[0].args[1]) == A and not appended:
                    res.ok('merge_attributes: a repeated attribute is merged into the remembered one by merge_declarations')
                elif len(md) == 1 and len(md[0].args) == 3 and src_of(md[0].args[0]) == A and src_of(md[0].args[1]) in PREV:
                    res.bad(F('DEC-MERGEDECL', g, lp, src_of(md[0]), 'destination and source are swapped: the later value must be merged into the remembered (first) attribute', details=where))
                elif appended:
                    res.bad(F('DEC-MERGEDECL', g, lp, 'repeated attribute [%s]' % q.cond_str(), 'a repeated attribute is appended again: it is printed twice', details=where))
                elif not md:
                    res.bad(F('DEC-MERGEDECL', g, lp, 'repeated attribute [%s]' % q.cond_str(), 'a repeated attribute is silently dropped (must be merged by merge_declarations)', details=where))
                else:
                    res.undecided('repeated attribute: %s' % [src_of(c) for _, c in calls], 'merge_declarations(remembered, attr, config)')
            else:
                cls = None
                res.undecided('iteration path %s' % q.cond_str(), 'path is not one of: unnamed / first / repeated class / repeated other')
            seen_classes.add(cls)
        if out and its and not {'unnamed', 'first', 'class', 'other'} <= seen_classes:
            res.undecided('merge_attributes', 'cases seen: %s' % sorted(str(x) for x in seen_classes))
    res.require_floor(250)


@rule('DEC-MULTIVALUE', 'N', 'attribute name mapping: the key* entry applies to repeated shorthands and falls back to the plain key')
def dec_multivalue(p, res):
    ev = MiniEval(p)
    f = p.func('markup.format.html.get_multi_value')
    for multiple, has_star, has_plain in itertools.product([False, True], [False, True], [False, True]):
        data = {}
        if has_star:
            data['class*'] = 'S'
        if has_plain:
            data['class'] = 'P'
        got = ev.call(f, ['class', data, multiple])
        want = 'S' if (multiple and has_star) else ('P' if has_plain else None)
        if got != want:
            res.bad(F('DEC-MULTIVALUE', f, f.node, 'get_multi_value(multiple=%r, data=%r) -> %r' % (multiple, data, got), 'expected %r' % want))
        else:
            res.ok('multiple=%r data=%r -> %r' % (multiple, sorted(data), want))
    from .tablecheck import check_table
    check_table(p, res, 'DEC-MULTIVALUE', 'markup.format.html.push_attribute',
                'the attribute name is mapped through markup.attributes (key* for repeated shorthands, else key, else unchanged) and the value prefix through markup.valuePrefix')
    m, node = p.module_const('config', 'SYNTAX_CONFIG')
    from .tab import _const_syntax
    _, _, syn = _const_syntax(p)
    want = {'jsx': {'class': 'className', 'class*': 'styleName', 'for': 'htmlFor'}, 'vue': {'class*': ':class'}}
    for k, v in want.items():
        got = syn.get(k, {}).get('options', {}).get('markup.attributes')
        if got != v:
            res.bad(Finding('DEC-MULTIVALUE', m.relpath, 'config.SYNTAX_CONFIG', "SYNTAX_CONFIG[%r]['markup.attributes']" % k, 'must be %r, is %r' % (v, got), node.lineno))
        else:
            res.ok("SYNTAX_CONFIG[%r]['markup.attributes'] == %r" % (k, v))
    res.require_floor(11)
