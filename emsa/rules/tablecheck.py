"""compare the decision table of a function on the analysed tree with the reviewed one (tables_spec.py)"""
import ast

from ..core import AnalysisError, src_of
from ..report import Finding
from .. import dtable, sympath


def F(rule_name, f, node, construct, message, **kw):
    return Finding(rule_name, f.module.relpath, f.short, construct, message, getattr(node, 'lineno', 0), **kw)


def check_table(p, res, rname, fq, message, detectors=()):
    """-> 'ok' | 'bad' | 'undecided'.  `detectors`: callables (project, func) -> (node, construct, why) | None that positively
    identify a known wrong construct when the table can no longer be compared (tests outside the reviewed vocabulary)."""
    from .tables_spec import TABLES
    from .tables_list import TABLES as LIST
    kw = dict(LIST)[fq]
    want = TABLES[fq]
    f = p.func(fq)
    try:
        have = dtable.table_rows(p, f, **kw)
    except sympath.Unsupported as e:
        res.undecided('%s: decision table' % fq, str(e))
        return 'undecided'
    # a function whose result is only ever truth-tested may return None for False and vice versa
    from .. import callgraph
    sites = callgraph.get(p).callers_of(f)
    truth_only = bool(sites)
    for caller, call in sites:
        par = p.parents(caller).get(call)
        if not (isinstance(par, (ast.If, ast.While, ast.BoolOp, ast.IfExp)) or (isinstance(par, ast.UnaryOp) and isinstance(par.op, ast.Not))):
            truth_only = False
        if isinstance(par, ast.IfExp) and par.test is not call:
            truth_only = False
    if truth_only:
        def fz(rows):
            return [(l, [(c, o.replace('ret None', 'ret False') if (o.endswith('ret None') or 'ret None ||' in o) else o) for c, o in rs]) for l, rs in rows]
        have, want = fz(have), fz(want)
    for d in detectors:
        hit = d(p, f)
        if hit is not None:
            node, construct, why = hit
            res.bad(F(rname, f, node, construct, why))
            return 'bad'
    if [l for l, _ in have] != [l for l, _ in want]:
        res.undecided('%s: segments %s' % (fq, [l for l, _ in have]), 'reviewed shape: %s (%s)' % ([l for l, _ in want], message))
        return 'undecided'
    verdict = 'ok'
    n = 0
    for (label, hrows), (_, wrows) in zip(have, want):
        st, det = dtable.check_rows(hrows, wrows)
        if st == 'ok':
            n += det
        elif st == 'unknown':
            res.undecided('%s [%s]: %s' % (fq, label, det), message)
            verdict = 'undecided' if verdict == 'ok' else verdict
        else:
            import re as _re
            for wc, wo, hc, ho in det[:2]:
                # effects through functions the reviewed behaviour does not mention (a new helper) cannot be compared
                callees = lambda t: set(_re.findall(r'call ([\w.]+?)\(', t)) | set(_re.findall(r'(?<![\w.])([A-Za-z_][\w.]*)\(', t))
                new_callees = {c for c in callees(ho) - callees(wo) if not c.startswith(('L', 'S', 'old', '__')) and c not in ('len', 'str', 'int', 'bool', 'max', 'min', 'isinstance')}
                when = ' and '.join(('%s' if v else 'not (%s)') % k for k, v in sorted(hc.items())) or 'always'
                if new_callees:
                    res.undecided('%s [%s] when %s: %s' % (fq, label, when, ho[:300]), 'goes through %s, which the reviewed behaviour does not use: %s' % (sorted(new_callees), wo[:300]))
                    verdict = 'undecided' if verdict == 'ok' else verdict
                else:
                    res.bad(F(rname, f, f.node, '%s [%s] when %s: %s' % (f.name, label, when, ho),
                              message + '; reviewed behaviour for this case: ' + wo))
                    verdict = 'bad'
    if verdict == 'ok':
        res.ok('%s: %d case(s) agree with the reviewed decision table' % (fq, n))
    return verdict
