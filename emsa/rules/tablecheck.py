"""compare the decision table of a function on the analysed tree with the reviewed one (tables_spec.py)"""
import ast

from ..core import AnalysisError, src_of
from ..report import Finding
from .. import dtable, sympath


def F(rule_name, f, node, construct, message, **kw):
    return Finding(rule_name, f.module.relpath, f.short, construct, message, getattr(node, 'lineno', 0), **kw)


def _effects(outcome):
    """[(kind, head, text)] of an outcome string: kind in call/store/new/loop/exit; head = callee or store target"""
    import re as _re
    body = outcome.split(' || ')[0]
    out = []
    parts = _split_top(body, ' ; ')         # outside brackets and string literals (nested loop tables contain ' ; ' too)
    for t in parts:
        t = t.strip()
        if t.startswith('call '):
            # callee = everything before the parenthesis that matches the final ')'
            head = '?'
            if t.endswith(')'):
                depth = 0
                for i in range(len(t) - 1, 4, -1):
                    if t[i] == ')':
                        depth += 1
                    elif t[i] == '(':
                        depth -= 1
                        if depth == 0:
                            head = t[5:i]
                            break
            else:
                m = _re.match(r'call (.+?)\(', t)
                head = m.group(1) if m else '?'
            # X.extend((a, b)) is X.append(a) ; X.append(b)
            if head.endswith('.extend'):
                try:
                    import ast as _ast
                    arg = _ast.parse(t[5 + len(head):], mode='eval').body
                    if isinstance(arg, (_ast.Tuple, _ast.List)) and arg.elts and not any(isinstance(x, _ast.Starred) for x in arg.elts):
                        for x in arg.elts:
                            out.append(('call', head[:-7] + '.append', 'call %s.append(%s)' % (head[:-7], _ast.unparse(x))))
                        continue
                except SyntaxError:
                    pass
            out.append(('call', head, t))
        elif t.startswith('store '):
            # the object a store goes into is the same object before and after earlier steps: old<t>(config.cache)[k] is config.cache[k]
            out.append(('store', _re.sub(r'\bold\d+\(([^()]*)\)', r'\1', t[6:].split(' = ')[0]), t))
        elif t.startswith('new '):
            out.append(('new', t[4:].split(' = ')[0], t))
        elif t.startswith('loop ') or t.startswith('LOOP'):
            out.append(('loop', 'loop', t))
        else:
            out.append(('exit', t.split(' ')[0], t))
    return out


def _visible(eff):
    """effects that can be observed from outside the function: not the creation of, stores into or method calls on fresh
    local objects (obj<k>)"""
    import re as _re
    out = []
    # objects built by a constructor call in this very function (`__k` where effect k is a call of a capitalised name)
    fresh = set()
    k = 0
    for kind, head, t in eff:
        if kind == 'call' and _re.match(r'[A-Z]\w*$', head.split('.')[-1]):
            fresh.add('__%d' % k)
        k += 1
    for kind, head, t in eff:
        if kind == 'new':
            continue
        root = _re.split(r'[.\[(]', head)[0]
        if kind in ('call', 'store') and _re.fullmatch(r'obj\d+', root):
            continue
        if kind == 'store' and root in fresh:
            continue            # initialising a field of an object that was created here: part of its construction
        out.append((kind, head, t))
    return out


def _split_top(text, sep):
    """split at `sep` outside brackets and string literals"""
    out, depth, cur, q, i = [], 0, '', None, 0
    while i < len(text):
        ch = text[i]
        if q:
            cur += ch
            if ch == '\\' and i + 1 < len(text):
                cur += text[i + 1]
                i += 1
            elif ch == q:
                q = None
        elif ch in '\'"':
            q = ch
            cur += ch
        else:
            if ch in '([{':
                depth += 1
            elif ch in ')]}':
                depth -= 1
            if depth == 0 and text.startswith(sep, i):
                out.append(cur)
                cur = ''
                i += len(sep)
                continue
            cur += ch
        i += 1
    out.append(cur)
    return out


def _split_loops(t):
    """-> (text with every top-level loop replaced by LOOP, [loop texts])"""
    out, loops, i = '', [], 0
    while True:
        j = t.find('loop ', i)
        if j < 0:
            return out + t[i:], loops
        out += t[i:j] + 'LOOP'
        k = t.find('{', j)
        e = t.find(' ; ', j)
        if k < 0 or (0 <= e < k):
            # a loop with an empty body is printed without braces: it ends at the next step
            if e < 0:
                loops.append(t[j:])
                return out, loops
            loops.append(t[j:e])
            i = e
            continue
        depth = 0
        while k < len(t):
            if t[k] == '{':
                depth += 1
            elif t[k] == '}':
                depth -= 1
                if depth == 0:
                    break
            k += 1
        loops.append(t[j:k + 1])
        i = k + 1


def _parse_loop(text):
    """'loop .. do { c1 and not (c2) -> outcome || tail | ... }' -> [(conds, outcome)] or None"""
    a, b = text.find('{'), text.rfind('}')
    if a < 0 or b < a:
        return None
    rows = []
    for part in _split_top(text[a + 1:b].strip(), ' | '):
        bits = _split_top(part.strip(), ' -> ')
        if len(bits) < 2:
            return None
        cond, outcome = bits[0], ' -> '.join(bits[1:])
        conds = {}
        if cond.strip() != 'always':
            for atom in _split_top(cond.strip(), ' and '):
                atom = atom.strip()
                if atom.startswith('not (') and atom.endswith(')'):
                    conds[atom[5:-1]] = False
                else:
                    conds[atom] = True
        rows.append((conds, outcome.strip()))
    return rows


def _effective_default(p, callee, n_given, is_method):
    """source of what the first omitted positional parameter of `callee` stands for: its default, or E when the default is None and
    the body starts with `if p is None: p = E`; None when not unique / not readable"""
    import ast as _ast
    cands = [g for g in p.funcs.values() if g.name == callee]
    if len(cands) != 1:
        return None
    g = cands[0]
    params = list(g.params)
    if g.cls is not None and params and is_method:
        params = params[1:]
    if n_given >= len(params):
        return None
    pn = params[n_given]
    d = g.defaults.get(pn)
    if d is None:
        return None
    if isinstance(d, _ast.Constant) and d.value is None:
        for st in g.node.body[:4]:
            if isinstance(st, _ast.If) and src_of(st.test) == '%s is None' % pn and len(st.body) == 1 and isinstance(st.body[0], _ast.Assign) \
                    and src_of(st.body[0].targets[0]) == pn and not st.orelse:
                return src_of(st.body[0].value)
    return src_of(d)


def _escaping_touch(want, have):
    """a local object that both outcomes return (`ret obj<k>`): one of them modifies it on this path (append / store into it) and
    the other does not touch it at all -> the returned object differs by exactly that modification"""
    import re as _re
    ew, eh = _effects(want.split(' || ')[0]), _effects(have.split(' || ')[0])
    rw = [t for k, h, t in ew if k == 'exit' and t.startswith('ret ')]
    rh = [t for k, h, t in eh if k == 'exit' and t.startswith('ret ')]
    if len(rw) != 1 or rw != rh:
        return None
    m = _re.fullmatch(r'ret (obj\d+)', rw[0])
    if not m:
        return None
    o = m.group(1)

    def touches(eff):
        return [t for k, h, t in eff if k in ('call', 'store') and _re.split(r'[.\[(]', h)[0] == o]

    def mentions(eff):
        return [t for k, h, t in eff if k != 'exit' and _re.search(r'\b%s\b' % o, t)]
    tw, th = touches(ew), touches(eh)
    if tw and not mentions(eh):
        return 'the returned object is not modified on this path, the reviewed behaviour does `%s` first' % tw[0][:160]
    if th and not mentions(ew):
        return 'the returned object is modified on this path (`%s`), the reviewed behaviour returns it untouched' % th[0][:160]
    return None


def _judge(want, have, closure=(), depth=0, conds=None, wconds=None):
    """two outcomes of the same case differ: is that a positively identified change of behaviour?
    -> ('bad', why) | ('undecided', why).  `closure`: variables of the enclosing function (state the function shares with its
    siblings: how it is represented -- a one-element list, a rebound nonlocal -- is not visible in one function alone)."""
    import re as _re
    want, have = dtable.norm_outcome(want), dtable.norm_outcome(have, True)
    if want == have:
        return 'undecided', 'equal up to stores that change nothing'
    if 'loop ' in want or 'loop ' in have:
        w2, wl = _split_loops(want)
        h2, hl = _split_loops(have)
        if w2 == h2 and len(wl) == len(hl):
            # same steps around the loops: compare the loops themselves, row by row (their bodies are decision tables too)
            for lw, lh in zip(wl, hl):
                if lw == lh:
                    continue
                rw, rh = _parse_loop(lw), _parse_loop(lh)
                # the tails of a nested loop list every local it assigns, read later or not: only the steps are compared
                if rw is not None and rh is not None:
                    # what the enclosing case assumes holds inside the loop too (atoms over loop-invariant inputs)
                    touched = set()
                    for lt in (lw, lh):
                        for row in (_parse_loop(lt) or []):
                            for k_, h_, t_ in _effects(row[1].split(' || ')[0]):
                                if k_ in ('call', 'store', 'new'):
                                    touched |= set(_re.findall(r'[A-Za-z_]\w*', t_))

                    def ctx(outer, c):
                        # only atoms over things the loop neither stores into nor hands to a call
                        d = {k: v for k, v in (outer or {}).items()
                             if '_acc_' not in k and '<' not in k.replace(' < ', '') and not (set(_re.findall(r'[A-Za-z_]\w*', k)) & touched)}
                        d.update(c)
                        return d
                    rw = [(ctx(wconds, c), o.split(' || ')[0]) for c, o in rw]
                    rh = [(ctx(conds, c), o.split(' || ')[0]) for c, o in rh]
                if rw is None or rh is None or lw.split('{')[0] != lh.split('{')[0]:
                    return 'undecided', 'the outcomes differ inside a nested loop that cannot be compared row by row'
                st, det = dtable.check_rows(rh, rw)
                if st == 'unknown':
                    return 'undecided', 'the outcomes differ inside a nested loop: %s' % det
                if st == 'differs':
                    wc, wo, hc, ho = det[0]
                    kind, why = _judge(wo, ho, closure, depth + 1) if depth < 2 else ('undecided', 'nesting too deep')
                    when = ' and '.join(('%s' if v else 'not (%s)') % k for k, v in sorted(hc.items())) or 'always'
                    return kind, 'inside the nested loop, when %s: %s (there: `%s`, reviewed: `%s`)' % (when, why, ho[:200], wo[:200])
            return 'undecided', 'the nested loops have the same rows in another spelling'
        if w2 == h2:
            return 'undecided', 'the outcomes differ inside a nested loop whose body is compared as text'
        if wl != hl:
            return 'undecided', 'the nested loops differ and so do the steps around them: steps may have moved between a loop and its surroundings'
        want, have = w2, h2
    if conds is not None and wconds is not None:
        # the reviewed case assumes a predicate g(args) that this path never evaluates, while this path assumes another
        # predicate f(args) over the same arguments: whether both can hold together (mutually exclusive predicates tested in
        # another order) is not visible in the table
        def preds(cs):
            out = []
            for k, v in cs.items():
                if v is not True:
                    continue
                kk = k[1:-1] if k.startswith('<') and k.endswith('>') else k
                kk = _re.sub(r'#\d+$', '', kk)
                m = _re.fullmatch(r'([A-Za-z_][\w.]*(?:\([^()]*\))?(?:\.\w+)*)\((.*)\)', kk)
                if m:
                    out.append((m.group(1), m.group(2), k))
            return out
        def atoms(cs):
            out = []
            for k, v in cs.items():
                kk = k[1:-1] if k.startswith('<') and k.endswith('>') else k
                kk = _re.sub(r'#\d+$', '', kk)
                m = _re.fullmatch(r'([A-Za-z_][\w.]*(?:\([^()]*\))?(?:\.\w+)*)\((.*)\)', kk)
                if m:
                    out.append((m.group(1), m.group(2), k, v))
            return out
        ha, wa = atoms(conds), atoms(wconds)
        for only, other, okeys in ((wa, ha, conds), (ha, wa, wconds)):
            for f1, a1, k1, v1 in only:
                if k1 in okeys:
                    continue
                for f2, a2, k2, v2 in other:
                    if v2 is True and (f1 == f2) != (a1 == a2):
                        return 'undecided', 'one side evaluates `%s`, the other does not, and the other assumes its sibling `%s`: alternatives that exclude each other may be tried in another order' % (k1[:80], k2[:80])
    we, he = _visible(_effects(want)), _visible(_effects(have))
    esc = _escaping_touch(want, have)
    if esc is not None:
        return 'bad', esc
    wcallees = {h for k, h, _ in _effects(want) if k == 'call'} | set(_re.findall(r'(?<![\w.])([A-Za-z_][\w.]*)\(', want))
    hcallees = {h for k, h, _ in _effects(have) if k == 'call'} | set(_re.findall(r'(?<![\w.])([A-Za-z_][\w.]*)\(', have))
    new_callees = {c for c in hcallees - wcallees if not _re.fullmatch(r'(L|S|old\d+|__\d+|len|str|int|bool|max|min|isinstance|tuple|list|dict|set|sorted|reversed|enumerate|zip|range|super)', c)
                   and not _re.match(r'obj\d+\.', c)}
    if new_callees:
        return 'undecided', 'goes through %s, which the reviewed behaviour does not use' % sorted(new_callees)
    if ' || ' in want or ' || ' in have:
        wt, ht = want.split(' || ')[1:] or [''], have.split(' || ')[1:] or ['']
    else:
        wt = ht = ['']
    wsk, hsk = [(k, h) for k, h, _ in we], [(k, h) for k, h, _ in he]
    if wsk != hsk:
        from collections import Counter
        cw, ch = Counter(wsk), Counter(hsk)
        missing = list((cw - ch).elements())            # with multiplicity: a step that is made once instead of twice is missing once
        extra = list((ch - cw).elements())
        if any(k == 'loop' for k, _ in missing + extra):
            return 'undecided', 'a nested loop was added or removed (its body is compared as text only)'
        shared = set(closure) | {'_closure_'}
        own = getattr(closure, 'own', None)

        def is_shared(h):
            root = _re.split(r'[.\[(]', h)[0]
            if root in shared or _re.match(r'_h\d*_', h):
                return True
            # a free name of the function (neither a parameter nor a local of it): a variable of the enclosing function / module
            return own is not None and root.isidentifier() and root not in own and not _re.fullmatch(r'(obj\d+|__\d+|old\d+|_acc_\w+|_fin_\w+|_elem_\w+|outer_\d+)', root)
        # a one-sided store of a falsy constant into something the case assumes to be falsy may store what is already there
        if (missing or extra) and not (missing and extra) and conds is not None:
            texts = [t for k, h, t in (we if missing else he) if (k, h) in (missing or extra)]
            idem = all(k == 'store' for k, _ in missing + extra) and texts and all(
                t.split(' = ', 1)[-1].strip() in ('None', 'False', '0', "''", '[]') and conds.get(t[6:].split(' = ')[0]) is False for t in texts)
            if idem:
                return 'undecided', 'a falsy constant is stored into something this case assumes to be falsy: possibly what it already holds'
        if missing and extra and all(k == 'store' and is_shared(h) for k, h in missing + extra):
            return 'undecided', 'the state shared with the enclosing function is stored differently (%s instead of %s): not decidable from this function alone' % (extra or '-', missing or '-')
        if any(k == 'call' and h in ('map', 'filter', 'list', 'sorted', 'any', 'all', 'sum', 'some', 'zip', 'enumerate', 'reversed', 'tuple', 'dict', 'set') for k, h in missing + extra):
            return 'undecided', 'an iteration idiom (map / filter / comprehension / loop) is spelled differently'
        if depth > 0 and any(k == 'exit' and h == 'break' for k, h in missing + extra) and any(k == 'exit' and h in ('ret', 'raise') for k, h in missing + extra):
            return 'undecided', 'a nested loop is left by break on one side and by return / raise on the other: the steps after the loop are not part of its rows'
        if missing + extra and all(k == 'exit' for k, _ in missing + extra) and {h for _, h in missing + extra} <= {'next', 'break', 'ret'} \
                and [x for x in wsk if x[0] != 'exit'] == [x for x in hsk if x[0] != 'exit'] and ('ret None' in want + have or 'break' in want + have):
            return 'undecided', 'same calls and stores, the loop is continued / left / the function returns None in another way: loop exits may have been restructured'
        def inline_use(h, text, eff):
            # the callee occurs inside an expression of the other outcome (more often than it occurs as a step of its own)
            return text.count(h + '(') > sum(1 for k2, h2, _ in eff if k2 == 'call' and h2 == h)
        if (missing or extra) and all(k == 'call' for k, _ in missing + extra) and all(inline_use(h, have, _effects(have)) for _, h in missing) \
                and all(inline_use(h, want, _effects(want)) for _, h in extra):
            return 'undecided', 'a call that is a recorded step on one side is an effect-free expression on the other (%s): its callee changed with it' % (missing or extra)
        if missing and extra and len(missing) == len(extra) and all(_re.search(r'\bobj\d+\b', h) for _, h in missing + extra) \
                and sorted((k, h.rsplit('.', 1)[-1] if '.' in h else '') for k, h in missing) == sorted((k, h.rsplit('.', 1)[-1] if '.' in h else '') for k, h in extra):
            return 'undecided', 'the same kind of step is addressed through different local objects (%s instead of %s)' % (extra, missing)
        if any(k in ('store', 'call') for k, _ in missing + extra) or (missing + extra and all(k == 'exit' for k, _ in missing + extra)):
            return 'bad', 'the externally visible steps differ (not in the reviewed behaviour: %s; missing: %s)' % (extra or '-', missing or '-')
        return 'undecided', 'different steps on local objects'
    # same visible steps: operands
    message_only = False
    for (k, h, t1), (_, _, t2) in zip(we, he):
        if t1 != t2 and k == 'call' and _re.search(r'(?:^|\.)(?:error|\w*Exception|\w*Error)$', h):
            # an error factory: the message text (first argument) is not constrained by any property; position / token are
            if t1.startswith('call %s(' % h) and t2.startswith('call %s(' % h) and t1.endswith(')') and t2.endswith(')'):
                a1 = _split_top(t1[6 + len(h):-1], ', ')
                a2 = _split_top(t2[6 + len(h):-1], ', ')
                if len(a1) == len(a2) and a1 and a1[1:] == a2[1:] and not any(_re.match(r'\w+=', x) for x in a1 + a2):
                    message_only = True
                    continue
        if t1 != t2 and k == 'exit' and getattr(closure, 'scan_callback', False) and {t1, t2} <= {'ret False', 'ret None', 'ret True'}:
            return 'undecided', 'a scan callback stops / continues the scan differently (`%s` instead of `%s`): whether later tokens could still contribute depends on the order and shape of the token stream, which is not visible in the callback alone' % (t2, t1)
        if t1 != t2 and k == 'call':
            try:
                import ast as _ast
                n1 = len(_ast.parse(t1[5:], mode='eval').body.args) + len(_ast.parse(t1[5:], mode='eval').body.keywords)
                n2 = len(_ast.parse(t2[5:], mode='eval').body.args) + len(_ast.parse(t2[5:], mode='eval').body.keywords)
                callee = h.split('.')[-1]
                if n1 != n2 and callee in getattr(closure, 'unchanged', ()) and getattr(closure, 'p', None) is not None:
                    # the callee is the reviewed one: the omitted argument takes its (effective) default there
                    c1, c2 = _ast.parse(t1[5:], mode='eval').body, _ast.parse(t2[5:], mode='eval').body
                    longer, shorter = (c1, c2) if n1 > n2 else (c2, c1)
                    eff = _effective_default(closure.p, callee, len(shorter.args), isinstance(shorter.func, _ast.Attribute))
                    if eff is not None and len(longer.args) > len(shorter.args) and not longer.keywords and not shorter.keywords:
                        dropped = _ast.unparse(longer.args[len(shorter.args)])
                        if _re.sub(r'old\d+\((.*)\)', r'\1', dropped) == eff:
                            return 'undecided', 'an argument equal to the callee\'s default (`%s`) is passed on one side and omitted on the other' % eff
                    elif eff is None:
                        return 'undecided', 'the same callee is called with another number of arguments (`%s` / `%s`)' % (t2[:80], t1[:80])
                elif n1 != n2:
                    return 'undecided', 'the same callee is called with another number of arguments (`%s` / `%s`): its signature or defaults may have changed with it' % (t2[:80], t1[:80])
            except (SyntaxError, AttributeError):
                pass
        if t1 != t2 and getattr(closure, 'p', None) is not None:
            # <Class>.<NAME> bound once to a literal in the class body is that literal (inside comprehensions the summaries keep the name)
            def spell(t):
                def f(m):
                    cs = [c for c in closure.p.classes.values() if c.name == m.group(1)]
                    if len(cs) == 1 and m.group(2) in cs[0].consts and isinstance(cs[0].consts[m.group(2)], ast.Constant) \
                            and isinstance(cs[0].consts[m.group(2)].value, (int, str)) and not isinstance(cs[0].consts[m.group(2)].value, bool):
                        return repr(cs[0].consts[m.group(2)].value)
                    return m.group(0)
                return _re.sub(r'(?<![\w.\'\"])(?:\w+\.)?([A-Z]\w*)\.([A-Za-z_]\w*)\b(?!\()', f, t)
            if spell(t1) == spell(t2):
                continue
        if t1 != t2:
            if _re.search(r'obj\d+', t1 + t2) or 'loop ' in t1:
                return 'undecided', 'same visible steps; an operand built from local objects is spelled differently (%s)' % t2[:120]
            if _re.search(r'_h\d*_', t1 + t2) and 'LOOP' in want + have:
                return 'undecided', 'same visible steps; an operand is a value computed by a loop (compared as text only): %s' % t2[:120]
            return 'bad', 'same steps, different operand: `%s` instead of `%s`' % (t2[:160], t1[:160])
    if message_only and wt == ht:
        return 'undecided', 'only the message text of an error differs (no property constrains it)'
    if wt != ht:
        inv_w = [t for k, h, t in _effects(want) if (k, h, t) not in we and k != 'new']
        inv_h = [t for k, h, t in _effects(have) if (k, h, t) not in he and k != 'new']
        if inv_w != inv_h:
            return 'undecided', 'a local accumulator is represented differently (steps on a local object on one side, a carried value on the other)'
        if _re.search(r'obj\d+', ''.join(wt + ht)):
            return 'undecided', 'loop-carried locals differ in a value built from local objects'
        if bool(_re.search(r'\b(max|min)\(', ''.join(wt))) != bool(_re.search(r'\b(max|min)\(', ''.join(ht))):
            return 'undecided', 'a conditional update of a loop-carried local is spelled with max() / min() on one side (one row there, two rows here)'
        return 'bad', 'the values carried to the next iteration / after the loop differ: `%s` instead of `%s`' % (ht[0][:160], wt[0][:160])
    return 'undecided', 'outcomes differ only in steps on local objects'


def check_table(p, res, rname, fq, message, detectors=()):
    """-> 'ok' | 'bad' | 'undecided'.  `detectors`: callables (project, func) -> (node, construct, why) | None that positively
    identify a known wrong construct when the table can no longer be compared (tests outside the reviewed vocabulary)."""
    from .tables_spec import TABLES
    from .tables_list import TABLES as LIST
    kw = dict(LIST)[fq]
    want = TABLES.get(fq)
    try:
        f = p.func(fq)
    except AnalysisError:
        # a closure that became a method / a module-level function (or the reverse) keeps its name: the one function of that
        # name in the same module is compared instead (its rows are then usually undecided: closure variables became fields)
        mod = fq
        while mod and ('emmet.' + mod) not in p.modules:
            mod = mod.rsplit('.', 1)[0] if '.' in mod else ''
        cands = [g for g in p.funcs.values() if g.module.name == 'emmet.' + mod and g.name == fq.rsplit('.', 1)[-1]]
        if len(cands) != 1:
            raise
        f = cands[0]
        res.notes.append('%s is gone; %s is compared with its reviewed table' % (fq, f.short))
    if want is None:
        res.undecided('%s: decision table' % fq, 'no reviewed table (the function has too many paths to tabulate): ' + message)
        return 'undecided'
    try:
        have = dtable.table_rows(p, f, **kw)
    except sympath.Unsupported as e:
        res.undecided('%s: decision table' % fq, str(e))
        return 'undecided'
    # a function whose result is only ever truth-tested may return None for False and vice versa
    from .. import callgraph
    sites = callgraph.get(p).callers_of(f)
    truth_only = bool(sites)
    for caller, call in sites:
        par = p.parents(caller).get(call)
        if not (isinstance(par, (ast.If, ast.While, ast.BoolOp, ast.IfExp)) or (isinstance(par, ast.UnaryOp) and isinstance(par.op, ast.Not))):
            truth_only = False
        if isinstance(par, ast.IfExp) and par.test is not call:
            truth_only = False
    if truth_only:
        import re as _re2

        def tz(c, o):
            if o.endswith('ret None') or 'ret None ||' in o:
                return o.replace('ret None', 'ret False')
            m = _re2.search(r'ret __(\d+)$', o.split(' || ')[0])
            if m:
                # the returned value is the result of a call whose truth this case assumes: only the truth is observed
                eff = _effects(o)
                k = int(m.group(1))
                if k < len(eff) and eff[k][0] == 'call':
                    txt = eff[k][2][5:]
                    nth = sum(1 for e in eff[:k + 1] if e[2] == eff[k][2])
                    key = '<%s>' % txt if nth == 1 else '<%s#%d>' % (txt, nth)
                    if c.get(key) in (True, False):
                        return o.replace('ret __%d' % k, 'ret %s' % c[key])
            return o

        def fz(rows):
            return [(l, [(c, tz(c, o)) for c, o in rs]) for l, rs in rows]
        have, want = fz(have), fz(want)
    closure = set()
    g = f.parent
    while g is not None:
        closure |= set(g.locals) | set(g.params)
        g = g.parent
    closure -= set(f.locals) | set(f.params)

    class _Closure(set):
        pass
    closure = _Closure(closure)
    closure.own = set(f.locals) | set(f.params)
    closure.p = p
    closure.scan_callback = f.parent is not None and any(
        isinstance(n, ast.Call) and any(isinstance(a, ast.Name) and a.id == f.name for a in n.args) for n in ast.walk(f.parent.node))
    closure.unchanged = getattr(p, 'unchanged_defs', set())      # callees whose definition is the reviewed one: their signature and defaults did not move
    for d in detectors:
        hit = d(p, f)
        if hit is not None:
            node, construct, why = hit
            res.bad(F(rname, f, node, construct, why))
            return 'bad'
    if [l for l, _ in have] != [l for l, _ in want]:
        res.undecided('%s: segments %s' % (fq, [l for l, _ in have]), 'reviewed shape: %s (%s)' % ([l for l, _ in want], message))
        return 'undecided'
    verdict = 'ok'
    n = 0
    from .tables_spec import META
    same_locals = META.get(fq, {}).get('locals') == dtable.local_count(p, f, **kw)
    fresh = {'params': set(f.params[1:] if f.cls is not None else f.params), 'text': '\n'.join([k for _, rows in want for c, _ in rows for k in c] + [o for _, rows in want for _, o in rows])}
    results = [(label, dtable.check_rows(hrows, wrows, same_locals, fresh)) for (label, hrows), (_, wrows) in zip(have, want)]
    # the segments of one function are coupled through the loop-carried values (_acc_/_fin_): when one of them can no longer be
    # compared (restructured loop), a difference in another one is not a positively identified change
    coupled = any(st == 'unknown' for _, (st, _) in results) and len(results) > 1
    judged = []
    for label, (st, det) in results:
        if st == 'ok':
            n += det
        elif st == 'unknown':
            res.undecided('%s [%s]: %s' % (fq, label, det), message)
            verdict = 'undecided' if verdict == 'ok' else verdict
        else:
            for wc, wo, hc, ho in det[:2]:
                kind, why = _judge(wo, ho, closure, 0, hc, wc)
                if kind == 'bad' and coupled and ('_fin_' in wo + ho or '_acc_' in wo + ho or any('_fin_' in k or '_acc_' in k for k in list(wc) + list(hc))):
                    kind, why = 'undecided', 'another segment of the loop can no longer be compared, and this case depends on the loop-carried values'
                if kind == 'bad':
                    # the two rows split the values of a loop-carried local at different points (`== -1` / `> -1`): the region where they
                    # overlap may be excluded by a loop invariant (the running maximum never drops below its start value)
                    lk_w = {k for k in wc if '_fin_' in k or '_acc_' in k}
                    lk_h = {k for k in hc if '_fin_' in k or '_acc_' in k}
                    if lk_w != lk_h and (lk_w or lk_h) and all(k.lstrip('+-').lstrip('0123456789').strip().startswith(('+', '-', '*')) or ' > 0' in k or ' == 0' in k for k in lk_w ^ lk_h):
                        kind, why = 'undecided', 'the cases split the values of a loop-carried local at different points (%s / %s): which of them it can take is a loop invariant' % (sorted(lk_h - lk_w), sorted(lk_w - lk_h))
                judged.append((label, wc, wo, hc, ho, kind, why))
    # a loop-carried local that is defined differently *and* used differently where it is read (another segment, or another
    # row of the loop) is another representation of the accumulator (largest index vs number of indices used): the two
    # differences compensate or not, which the rows do not show one by one
    carried = [j for j in judged if j[5] == 'bad' and j[6].startswith('the values carried')]
    uses = [j for j in judged if j[5] == 'bad' and j[6].startswith('same steps, different operand') and ('_fin_' in j[2] + j[4] or '_acc_' in j[2] + j[4])]
    if carried and uses:
        judged = [(l, wc, wo, hc, ho, 'undecided', 'the loop-carried value is defined differently and so is the step that uses it: another representation of the accumulator')
                  if (l, wc, wo, hc, ho, k, w) in carried + uses else (l, wc, wo, hc, ho, k, w) for l, wc, wo, hc, ho, k, w in judged]
    for label, wc, wo, hc, ho, kind, why in judged:
        when = ' and '.join(('%s' if v else 'not (%s)') % k for k, v in sorted(hc.items())) or 'always'
        if kind == 'bad':
            res.bad(F(rname, f, f.node, '%s [%s] when %s: %s' % (f.name, label, when, ho),
                      message + '; ' + why + '; reviewed behaviour for this case: ' + wo))
            verdict = 'bad'
        else:
            res.undecided('%s [%s] when %s: %s' % (fq, label, when, ho[:300]), why + ': ' + wo[:300])
            verdict = 'undecided' if verdict == 'ok' else verdict
    if verdict == 'ok':
        res.ok('%s: %d case(s) agree with the reviewed decision table' % (fq, n))
    return verdict
