"""DEC-* : decision tables of small pure helpers, extracted from the syntax
tree over the complete (finite) domain of their decision variables."""
import ast
import itertools

from . import rule
from ..core import AnalysisError, src_of
from ..report import Finding
from ..minieval import MiniEval, Rec


def F(rule_name, f, node, construct, message, **kw):
    return Finding(rule_name, f.module.relpath, f.short, construct, message, getattr(node, 'lineno', 0), **kw)


# ----------------------------------------------------------------- DEC-PRIO
@rule('DEC-PRIO', 'N', 'math operator priorities: * / \\ above + -, left association, parentheses dominate, a prefix sign never reduces')
def dec_prio(p, res):
    ev = MiniEval(p)
    op1 = p.func('math_expression.parser.op1')
    op2 = p.func('math_expression.parser.op2')
    # Token(...) constructor: MiniEval returns None for class calls, so read priority from the call args instead
    def prio_of(f, ch):
        # evaluate the function body until the return, capturing the `priority` local
        env = {'value': ch, 'priority': 0}
        from ..minieval import _Return
        try:
            ev_local = MiniEval(p)
            ret = [n for n in f.body_nodes() if isinstance(n, ast.Return)]
            if len(ret) != 1 or not isinstance(ret[0].value, ast.Call) or src_of(ret[0].value.func) != 'Token':
                raise AnalysisError('DEC-PRIO: %s no longer returns Token(type, value, priority)' % f.short)
            ev_local.exec_block([s for s in f.node.body if not isinstance(s, ast.Return)], env, f, 0)
            args = ret[0].value.args
            if len(args) != 3 or src_of(args[1]) != 'value':
                raise AnalysisError('DEC-PRIO: unrecognised Token(...) arguments in %s' % f.short)
            return ev_local.eval(args[2], env, f), src_of(args[0])
        except _Return:
            raise AnalysisError('DEC-PRIO: early return in %s' % f.short)
    table = {}
    for ch in '+-*/\\':
        table[('op2', ch)] = prio_of(op2, ch)
    table[('op1', '-')] = prio_of(op1, '-')
    table[('op1', '+')] = prio_of(op1, '+')
    res.stats['priorities'] = {'%s %s' % k: v[0] for k, v in table.items()}
    for (kind, ch), (pr, tt) in table.items():
        want_tt = 'TokenType.Op1' if kind == 'op1' else 'TokenType.Op2'
        if tt != want_tt:
            res.bad(F('DEC-PRIO', op1 if kind == 'op1' else op2, (op1 if kind == 'op1' else op2).node, '%s(%r) token type %s' % (kind, ch, tt), 'must build a %s token' % want_tt))
        else:
            res.ok()
    b = {ch: table[('op2', ch)][0] for ch in '+-*/\\'}
    u = table[('op1', '-')][0]

    def chk(cond, construct, msg, f=op2):
        if cond:
            res.ok(construct)
        else:
            res.bad(F('DEC-PRIO', f, f.node, construct, msg))
    chk(b['+'] == b['-'], 'priority(+) == priority(-): %d, %d' % (b['+'], b['-']), '+ and - have equal precedence')
    chk(min(b['*'], b['/'], b['\\']) > max(b['+'], b['-']), 'priority(*,/,\\) = %d,%d,%d > priority(+,-) = %d' % (b['*'], b['/'], b['\\'], b['+']),
        '* / \\ bind tighter than + -')
    chk(b['/'] == b['\\'], 'priority(/) == priority(\\)', '/ and \\ have equal precedence')
    chk(b['/'] >= b['*'], 'priority(/) >= priority(*)', 'a division after a product must not be reduced later than the product (a*b/c is (a*b)/c up to rounding only when / reduces *...)')
    chk(u >= max(b.values()), 'priority(unary -) = %d >= every binary priority' % u, 'unary minus binds tightest', op1)
    # parenthesis bump
    parse = p.func('math_expression.parser.parse')
    bumps = [(n, p.try_const(parse, n.value)) for n in parse.body_nodes() if isinstance(n, ast.AugAssign) and src_of(n.target) == 'priority']
    ups = [v for n, v in bumps if isinstance(n.op, ast.Add)]
    downs = [v for n, v in bumps if isinstance(n.op, ast.Sub)]
    spread = max(list(b.values()) + [u]) - min(b.values())
    if not ups and not downs:
        res.undecided('parenthesis bump in %s' % parse.short, 'priority += K on ( and -= K on ) expected in this function')
    else:
        chk(len(ups) == 1 and len(downs) == 1 and ups == downs and isinstance(ups[0], int) and ups[0] > spread,
            'parenthesis bump +%s/-%s > priority spread %d' % (ups, downs, spread), 'an operator inside parentheses must outrank every operator outside', parse)
    # the structure of the parser loop (bump on "(", un-bump on ")", operators created with the running priority) and of the
    # reduce loop of order_tokens (stack top re-read every iteration, reduce while new.priority <= pending.priority, the
    # reduced operator moves to the output, the new one is pushed afterwards) are compared with the reviewed decision tables
    from .tablecheck import check_table
    check_table(p, res, 'DEC-PRIO', 'math_expression.parser.parse', 'parser loop: priority bump follows the parenthesis edges; operator tokens take the running parenthesis priority')
    check_table(p, res, 'DEC-PRIO', 'math_expression.parser.order_tokens',
                'reduce loop: the pending operator is re-read from the stack top on every iteration; equal precedence reduces (left association: <=); the reduced operator goes to the output before the new one is pushed')
    ot = p.func('math_expression.parser.order_tokens')
    loops = [n for n in ot.body_nodes() if isinstance(n, ast.While)]
    if len(loops) != 1:
        res.undecided('order_tokens', 'one reduce loop expected')
        res.require_floor(14)
        return
    lp = loops[0]
    cmps = [n for n in ast.walk(lp) if isinstance(n, ast.Compare) and 'priority' in src_of(n)]
    c = cmps[0] if cmps else lp.test
    # the pending operator compared in the reduce loop must be read from the stack top inside the loop: a local that was read
    # from the stack before the loop (or is not re-read after the pop) goes stale after the first reduction
    popped = {src_of(n.func.value) for n in ast.walk(lp) if isinstance(n, ast.Call) and isinstance(n.func, ast.Attribute) and n.func.attr == 'pop'}
    for cmp_ in cmps:
        for side in [cmp_.left] + list(cmp_.comparators):
            root = side
            while isinstance(root, (ast.Attribute, ast.Subscript)):
                root = root.value
            if not isinstance(root, ast.Name) or root.id in popped:
                continue
            outside = [n for n in ot.body_nodes() if isinstance(n, ast.Assign) and src_of(n.targets[0]) == root.id
                       and any(isinstance(x, ast.Subscript) and src_of(x.value) in popped for x in ast.walk(n.value))]
            inside = [n for n in outside if any(n is x for x in ast.walk(lp))]
            if outside and len(inside) < len(outside) or (inside and not all(n.lineno < cmp_.lineno for n in inside) and cmp_ in ast.walk(lp.test)):
                res.bad(F('DEC-PRIO', ot, cmp_, src_of(cmp_), 'the pending operator must be re-read from the stack top on every iteration of the reduce loop: `%s` is read from the stack outside the loop and is stale after the first reduction' % root.id,
                          failing_input='1 + 2 * 3 * 4'))
    # a prefix operator never reduces a pending operator
    guard = src_of(lp.test)
    skips_op1 = 'TokenType.Op1' in guard and ('!=' in guard or 'not' in guard)
    if not skips_op1:
        # the exclusion of prefix operators may be an enclosing test (`if t.type != TokenType.Op1: while ..`) or an earlier guard
        from .. import shape
        for fs, pol in shape.implied(lp, shape.parent_map(ot.node)):
            if 'TokenType.Op1' in fs and (('!=' in fs or ' is not ' in fs) == pol):
                skips_op1 = True
    levels = [0, ups[0]] if ups and isinstance(ups[0], int) else [0]
    viol = None
    if not skips_op1:
        for lvl_u in levels:
            for lvl_p in levels:
                if lvl_p > lvl_u:
                    continue    # pending operator of a deeper, already closed level: reducing it is correct
                for ch, pb in list(b.items()) + [('u-', u)]:
                    if (u + lvl_u) <= (pb + lvl_p) and lvl_u == lvl_p:
                        viol = (ch, pb)
    if viol is None:
        res.ok('prefix minus never reduces a pending operator of its own level')
    else:
        res.bad(F('DEC-PRIO', ot, lp, src_of(lp.test) + ' / ' + src_of(c),
                  'unary minus (priority %d) satisfies the reduce test against pending %r (priority %d): the pending operator is evaluated before its right operand exists' % (u, viol[0], viol[1]),
                  failing_input='6/-2'))
    res.require_floor(14)


# ----------------------------------------------------------------- DEC-UNIT
@rule('DEC-UNIT', 'N', 'unit decision: explicit unit aliased, 0 and unitless bare, float/int default units')
def dec_unit(p, res):
    f = p.func('stylesheet.resolve_numeric_value')
    tokens_mod = p.module('css_abbreviation.tokenizer.tokens')
    numcls = p.cls('css_abbreviation.tokenizer.tokens.NumberValue')
    litcls = p.cls('css_abbreviation.tokenizer.tokens.Literal')
    ev = MiniEval(p)
    opts = {'stylesheet.unitAliases': {'p': '%', 'e': 'em'}, 'stylesheet.unitless': ['zoom'],
            'stylesheet.intUnit': 'px', 'stylesheet.floatUnit': 'em'}
    n = 0
    for unit, value, raw, name in itertools.product(['', 'p', 'e', 'px', 'zz'], [0, 5], ['5', '5.', '.5', '0'], ['zoom', 'width']):
        if (value == 0) != (raw == '0'):
            continue
        t = Rec(__class__=numcls, unit=unit, value=value, raw_value=raw)
        other = Rec(__class__=litcls, value='x')
        node = Rec(name=name, value=[Rec(value=[other, t])])
        cfg = Rec(options=opts)
        ev.call(f, [node, cfg])
        if unit:
            want = opts['stylesheet.unitAliases'].get(unit, unit)
        elif value == 0 or name == 'zoom':
            want = ''
        else:
            want = 'em' if '.' in raw else 'px'
        n += 1
        if t['unit'] != want:
            res.bad(F('DEC-UNIT', f, f.node, 'unit=%r value=%r raw=%r property=%s -> %r' % (unit, value, raw, name, t['unit']),
                      'expected unit %r' % want))
        else:
            res.ok('unit=%r value=%r raw=%r on %s -> %r' % (unit, value, raw, name, want))
    # option names: read by the function or by a helper it calls (the decision table above already depends on their values)
    seen = set()
    todo, done = [f], set()
    while todo:
        g = todo.pop()
        if g.qualname in done or len(done) > 12:
            continue
        done.add(g.qualname)
        for x in g.body_nodes():
            if isinstance(x, ast.Constant) and isinstance(x.value, str):
                seen.add(x.value)
            elif isinstance(x, ast.Call):
                tgt = p.resolve_call(g, x)
                if isinstance(tgt, list):
                    todo += [h for h in tgt if h.module is f.module]
    for key in ('stylesheet.unitAliases', 'stylesheet.unitless', 'stylesheet.floatUnit', 'stylesheet.intUnit'):
        if key not in seen:
            res.bad(F('DEC-UNIT', f, f.node, repr(key), 'option %s is no longer consulted' % key))
        else:
            res.ok('reads ' + key)
    # resolve_node runs it for properties and for value contexts
    from .. import shape
    rn = p.func('stylesheet.resolve_node')
    V = shape.View(p, rn, inline=False)
    calls = V.calls('resolve_numeric_value')
    if len(calls) == 1:
        facts = {k: v for k, v in V.facts(calls[0], expand_defs=False)}
        rel = {k: v for k, v in facts.items() if 'node.name' in k or 'config.context' in k}
        if rel in ({'node.name or config.context': True}, {'config.context or node.name': True}):
            res.ok('resolve_numeric_value runs when node.name or config.context')
        elif rel in ({'node.name': True}, {'config.context': True}):
            res.bad(F('DEC-UNIT', rn, calls[0], 'if %s: resolve_numeric_value(..)' % list(rel)[0], 'unit resolution must run for every property and every value context (node.name or config.context)'))
        else:
            res.undecided('guard of resolve_numeric_value: %s' % rel, 'node.name or config.context')
    elif not calls:
        res.bad(F('DEC-UNIT', rn, rn.node, 'resolve_numeric_value(..)', 'unit resolution is no longer run by resolve_node'))
    else:
        res.undecided('resolve_numeric_value calls', 'one call expected')
    res.require_floor(30)


# ---------------------------------------------------------------- DEC-SCOPE
@rule('DEC-SCOPE', 'N', 'context scope decides which kind of snippet may match')
def dec_scope(p, res):
    ev = MiniEval(p)
    gs = p.func('stylesheet.get_snippets_for_scope')
    vs = p.func('stylesheet.is_value_scope')
    raw = Rec(type='Raw')
    prop = Rec(type='Property')
    snippets = [raw, prop, Rec(type='Raw')]
    cases = {None: 'all', '@@global': 'all', '@@section': 'Raw', '@@property': 'Property', '@@value': 'all', 'color': 'all'}
    for name, want in cases.items():
        cfg = Rec(context=None if name is None else {'name': name})
        got = ev.call(gs, [snippets, cfg])
        kinds = [s['type'] for s in got]
        exp = [s['type'] for s in snippets if want == 'all' or s['type'] == want]
        if kinds != exp:
            res.bad(F('DEC-SCOPE', gs, gs.node, 'get_snippets_for_scope(context name=%r) -> %s' % (name, kinds), 'expected %s' % exp))
        else:
            res.ok('scope %r -> %s snippets' % (name, want))
        gv = bool(ev.call(vs, [cfg]))
        wv = name is not None and (name == '@@value' or not name.startswith('@@'))
        if gv != wv:
            res.bad(F('DEC-SCOPE', vs, vs.node, 'is_value_scope(context name=%r) -> %r' % (name, gv), 'expected %r' % wv))
        else:
            res.ok('is_value_scope(%r) == %r' % (name, wv))
    # scope constants
    sc = p.cls('stylesheet.scope.CSSAbbreviationScope')
    want = {'Global': '@@global', 'Section': '@@section', 'Property': '@@property', 'Value': '@@value'}
    for k, v in want.items():
        got = p.try_const(sc.module, sc.consts.get(k)) if sc.consts.get(k) is not None else None
        if got != v:
            res.bad(Finding('DEC-SCOPE', sc.module.relpath, 'stylesheet.scope.CSSAbbreviationScope', '%s = %r' % (k, got), 'scope constant must be %r' % v, sc.node.lineno))
        else:
            res.ok('%s = %r' % (k, v))
    # the filter is applied on every parse, to the full (possibly cached) list
    ps = p.func('stylesheet.parse')
    calls = [c for c in ps.body_nodes() if isinstance(c, ast.Call) and src_of(c.func) == 'get_snippets_for_scope']
    pm = p.parents(ps)
    top = calls and p.enclosing_stmt(ps, calls[0]) in ps.node.body
    stored = [n for n in ps.body_nodes() if isinstance(n, ast.Assign) and "config.cache['stylesheet_snippets']" in src_of(n.targets[0])]
    if len(calls) == 1 and top and src_of(calls[0].args[0]) == 'snippets' and all(src_of(n.value) == 'snippets' for n in stored):
        res.ok('parse(): scope filter runs unconditionally on every call; the cache stores the unfiltered list')
    else:
        res.bad(F('DEC-SCOPE', ps, calls[0] if calls else ps.node, 'get_snippets_for_scope(snippets, config) in parse()',
                  'the scope filter must run on every call (not only when the cache is filled) and the cached list must be the unfiltered one'))
    res.require_floor(16)


# ----------------------------------------------------------------- DEC-BOOL
@rule('DEC-BOOL', 'N', 'implied attributes are dropped only when raw and empty; boolean-ness by flag or by name')
def dec_bool(p, res):
    ev = MiniEval(p)
    so = p.func('markup.format.utils.should_output_attribute')
    for implied, vt, value in itertools.product([False, True], ['raw', 'doubleQuote', 'singleQuote', 'expression'], [None, [], ['x']]):
        got = bool(ev.call(so, [Rec(implied=implied, value_type=vt, value=value)]))
        want = not (implied and vt == 'raw' and not value)
        if got != want:
            res.bad(F('DEC-BOOL', so, so.node, 'should_output_attribute(implied=%r, value_type=%r, value=%r) -> %r' % (implied, vt, value, got), 'expected %r' % want))
        else:
            res.ok('implied=%r type=%r value=%r -> %r' % (implied, vt, value, want))
    ib = p.func('output_stream.is_boolean_attribute')
    cfg = Rec(options={'output.booleanAttributes': ['checked', 'disabled']})
    for flag, name in itertools.product([False, True], ['checked', 'CHECKED', 'title', None, '']):
        got = bool(ev.call(ib, [Rec(boolean=flag, name=name), cfg]))
        want = flag or (name or '').lower() in ('checked', 'disabled')
        if got != want:
            res.bad(F('DEC-BOOL', ib, ib.node, 'is_boolean_attribute(boolean=%r, name=%r) -> %r' % (flag, name, got), 'expected %r' % want))
        else:
            res.ok('boolean=%r name=%r -> %r' % (flag, name, want))
    # attr_quote / attr_name / tag_name / str_case tables
    aq = p.func('output_stream.attr_quote')
    for vt, quotes, is_open in itertools.product(['raw', 'doubleQuote', 'singleQuote', 'expression'], ['double', 'single'], [True, False, None]):
        got = ev.call(aq, [Rec(value_type=vt), Rec(options={'output.attributeQuotes': quotes}), is_open])
        if vt == 'expression':
            want = '{' if is_open else '}'
        else:
            want = "'" if quotes == 'single' else '"'
        if got != want:
            res.bad(F('DEC-BOOL', aq, aq.node, 'attr_quote(value_type=%r, quotes=%r, is_open=%r) -> %r' % (vt, quotes, is_open, got), 'expected %r' % want))
        else:
            res.ok('attr_quote(%r, %r, open=%r) -> %r' % (vt, quotes, is_open, want))
    sc = p.func('output_stream.str_case')
    for text, case in itertools.product(['aB'], ['', 'upper', 'lower', None]):
        got = ev.call(sc, [text, case])
        want = {'upper': 'AB', 'lower': 'ab'}.get(case, 'aB')
        if got != want:
            res.bad(F('DEC-BOOL', sc, sc.node, 'str_case(%r, %r) -> %r' % (text, case, got), 'expected %r' % want))
        else:
            res.ok('str_case(%r, %r) -> %r' % (text, case, want))
    for fn, key in (('attr_name', 'output.attributeCase'), ('tag_name', 'output.tagCase')):
        g = p.func('output_stream.' + fn)
        got = ev.call(g, ['aB', Rec(options={key: 'upper'})])
        if got != 'AB':
            res.bad(F('DEC-BOOL', g, g.node, '%s with %s=upper -> %r' % (fn, key, got), 'the case option %s must be applied' % key))
        else:
            res.ok('%s applies %s' % (fn, key))
    # create_attribute: trailing '.' => boolean, leading '!' => implied, independent of each other
    from .tablecheck import check_table
    check_table(p, res, 'DEC-BOOL', 'abbreviation.convert.create_attribute',
                "the boolean marker '.' (suffix) and the implied marker '!' (prefix) are recognised independently of each other: an attribute may carry both")
    res.require_floor(60)


# ------------------------------------------------------------ DEC-DIRECTHIT
@rule('DEC-DIRECTHIT', 'N', 'equal (case-folded) strings score 1 before anything else, and a score of 1 is returned at once')
def dec_directhit(p, res):
    cs = p.func('stylesheet.score.calculate_score')
    body = [s for s in cs.node.body if not (isinstance(s, ast.Expr) and isinstance(s.value, ast.Constant))]
    srcs = [src_of(s) for s in body[:3]]
    lowered = set(srcs[:2]) == {'str1 = str1.lower()', 'str2 = str2.lower()'}
    eq = len(body) > 2 and isinstance(body[2], ast.If) and src_of(body[2].test) in ('str1 == str2', 'str2 == str1') \
        and len(body[2].body) == 1 and isinstance(body[2].body[0], ast.Return) and p.try_const(cs, body[2].body[0].value) == 1
    n_lower = sum(1 for n in cs.body_nodes() if isinstance(n, ast.Call) and isinstance(n.func, ast.Attribute) and n.func.attr in ('lower', 'casefold'))
    # dataflow: no use of a string parameter other than as the receiver of .lower() before it is re-bound to its lower-cased form
    raw_use = None
    pending = set(cs.params[:2])
    for st in body:
        for n in ast.walk(st):
            if isinstance(n, ast.Name) and isinstance(n.ctx, ast.Load) and n.id in pending:
                par = p.parents(cs).get(n)
                is_recv = isinstance(par, ast.Attribute) and par.attr in ('lower', 'casefold') and isinstance(p.parents(cs).get(par), ast.Call)
                if not is_recv and raw_use is None:
                    raw_use = (n, st)
        if isinstance(st, ast.Assign) and len(st.targets) == 1 and isinstance(st.targets[0], ast.Name) and st.targets[0].id in pending \
                and isinstance(st.value, ast.Call) and isinstance(st.value.func, ast.Attribute) and st.value.func.attr in ('lower', 'casefold') \
                and src_of(st.value.func.value) == st.targets[0].id:
            pending.discard(st.targets[0].id)
        elif not isinstance(st, ast.Assign):
            if pending and any(isinstance(n, ast.Name) and n.id in pending for n in ast.walk(st)):
                pass
    if raw_use is not None and n_lower:
        res.bad(F('DEC-DIRECTHIT', cs, raw_use[1], src_of(raw_use[1]).split('\n')[0],
                  'matching is case-insensitive: `%s` is used here before it has been lower-cased (an abbreviation typed in another case is compared as written)' % raw_use[0].id))
    if lowered:
        res.ok('both strings are lower-cased first')
    elif n_lower == 0:
        res.bad(F('DEC-DIRECTHIT', cs, cs.node, '; '.join(srcs[:2]), 'matching is case-insensitive: both strings must be lower-cased before comparison'))
    else:
        res.undecided('calculate_score: %s' % '; '.join(srcs[:2]), 'both strings are lower-cased before anything else')
    eq_any = [n for n in cs.body_nodes() if isinstance(n, ast.If) and isinstance(n.test, ast.Compare) and len(n.test.ops) == 1 and isinstance(n.test.ops[0], ast.Eq)
              and {src_of(n.test.left), src_of(n.test.comparators[0])} == set(cs.params[:2])]
    if eq:
        res.ok('if str1 == str2: return 1 precedes every other exit')
    elif not eq_any and lowered:
        res.bad(F('DEC-DIRECTHIT', cs, body[2] if len(body) > 2 else cs.node, srcs[2] if len(srcs) > 2 else '?', 'equal strings must return exactly 1 before any other test'))
    else:
        res.undecided('calculate_score: %s' % (srcs[2] if len(srcs) > 2 else '?'), 'equal strings return exactly 1 before any other test')
    # every other return is 0 or the final quotient
    rets = [n for n in cs.body_nodes() if isinstance(n, ast.Return)]
    others = [src_of(r.value) for r in rets[1:]]
    if all(o == '0' for o in others[:-1]) and others and others[-1] == 'score * match_ratio / max_score':
        res.ok('other exits: 0 or score * match_ratio / max_score')
    elif not any(isinstance(x, ast.Call) and isinstance(x.func, ast.Name) and x.func.id in ('min', 'max', 'round', 'int') for r in rets for x in ast.walk(r)):
        res.undecided('calculate_score returns: %s' % others, 'other exits: 0 or score * match_ratio / max_score')
    else:
        res.bad(F('DEC-DIRECTHIT', cs, rets[-1], 'returns: %s' % others, 'the fuzzy score must be returned unclamped (a clamped score can equal 1 for unequal strings and is then taken for a direct hit)'))
    fb = p.func('stylesheet.find_best_match')
    loops = [n for n in fb.body_nodes() if isinstance(n, ast.For)]
    if len(loops) != 1 or not isinstance(loops[0].target, ast.Name):
        raise AnalysisError('DEC-DIRECTHIT: unrecognised loop in find_best_match')
    lp = loops[0]
    item = lp.target.id
    stm = [src_of(s) for s in lp.body]
    sc_ok = stm and stm[0] == 'score = calculate_score(abbr, get_scoring_part(%s), partial_match)' % item
    hit_ok = len(lp.body) > 1 and isinstance(lp.body[1], ast.If) and src_of(lp.body[1].test) in ('score == 1', '1 == score') \
        and [src_of(x) for x in lp.body[1].body] == ['return %s' % item]
    if sc_ok:
        res.ok(stm[0])
    else:
        res.undecided('find_best_match: %s' % (stm[0] if stm else '?'), 'every candidate is scored with calculate_score(abbr, key, partial_match)')
    returns_in_loop = [n for n in ast.walk(lp) if isinstance(n, ast.Return)]
    if hit_ok:
        res.ok('if score == 1: return item')
    elif not returns_in_loop and sc_ok:
        res.bad(F('DEC-DIRECTHIT', fb, lp, stm[1] if len(stm) > 1 else '?', 'a direct hit (score 1) must be returned immediately, before the running maximum can prefer another item'))
    else:
        res.undecided('find_best_match: %s' % (stm[1] if len(stm) > 1 else '?'), 'a direct hit (score 1) must be returned immediately')
    gp = p.func('stylesheet.get_scoring_part')
    if src_of(gp.node.body[-1]) == 'return item if isinstance(item, str) else item.key':
        res.ok('scoring part of a snippet is its key')
    else:
        res.bad(F('DEC-DIRECTHIT', gp, gp.node, src_of(gp.node.body[-1]), 'snippets are matched by their key'))
    # resolve_node looks the property name up among the scope-filtered snippets with partial matching
    rn = p.func('stylesheet.resolve_node')
    calls = [n for n in rn.body_nodes() if isinstance(n, ast.Call) and isinstance(n.func, ast.Name) and n.func.id == 'find_best_match']
    if any(src_of(n) == 'find_best_match(node.name, snippets, score, True)' for n in calls):
        res.ok('resolve_node: find_best_match(node.name, snippets, score, True)')
    elif any(len(n.args) >= 4 and p.try_const(rn, n.args[3]) is False and src_of(n.args[0]) == 'node.name' for n in calls):
        res.bad(F('DEC-DIRECTHIT', rn, rn.node, 'find_best_match call in resolve_node', 'property names are matched with partial matching (a prefix of a key is a candidate)'))
    else:
        res.undecided('resolve_node: find_best_match(..)', 'property names are matched against the scope-filtered snippet list with partial matching')
    res.require_floor(7)
