"""NUM-FIELDMONO : the tabstop counter of the markup printer only grows.

`WalkState.field` is the offset added to every field index that is printed; it is what makes the tabstops of one expansion
unique and ordered (C13).  That holds only if the counter never goes back: every store to `<state>.field` must be the
constructor's start value or an increment by a non-negative amount.  Positively identified violations:

* a *restore*: `saved = state.field … state.field = saved` (the numbers handed out in between are handed out again),
* a decrement (`-=`, `+= <negative constant>`),
* a reset to a constant outside the constructor.

Any other store the rule cannot read as an increment is undecided."""
import ast

from . import rule
from ..core import src_of
from ..report import Finding
from .. import shape


def F(f, node, construct, message):
    return Finding('NUM-FIELDMONO', f.module.relpath, f.short, construct, message, getattr(node, 'lineno', 0))


@rule('NUM-FIELDMONO', 'N', 'the tabstop counter `field` of the walk state is only ever advanced: no store puts back an earlier value')
def num_fieldmono(p, res):
    ws = p.cls('markup.format.walk.WalkState')
    if 'field' not in (ws.slots or ()):
        res.undecided('WalkState.field', 'the walk state no longer has a `field` slot')
        res.require_floor(2)
        return
    n_inc = 0
    for f in sorted(p.funcs.values(), key=lambda x: x.qualname):
        if not f.short.startswith(('markup.', 'output_stream')):
            continue
        defs = None
        for n in f.body_nodes():
            tgt = None
            if isinstance(n, ast.AugAssign) and isinstance(n.target, ast.Attribute) and n.target.attr == 'field':
                tgt = n.target
            elif isinstance(n, ast.Assign):
                for t in n.targets:
                    for x in ([t] if not isinstance(t, (ast.Tuple, ast.List)) else t.elts):
                        if isinstance(x, ast.Attribute) and x.attr == 'field':
                            tgt = x
            if tgt is None:
                continue
            recv = src_of(tgt.value)
            in_ctor = f.cls is not None and f.name == '__init__' and f.params and recv == f.params[0]
            if isinstance(n, ast.AugAssign):
                k = p.try_const(f, n.value)
                if isinstance(n.op, ast.Add) and not (isinstance(k, (int, float)) and k < 0):
                    n_inc += 1
                    res.ok('%s: %s' % (f.short, src_of(n)))
                elif isinstance(n.op, ast.Sub) and not (isinstance(k, (int, float)) and k <= 0) or (isinstance(n.op, ast.Add) and isinstance(k, (int, float)) and k < 0):
                    res.bad(F(f, n, src_of(n), 'the tabstop counter is moved back: field numbers that were already printed are handed out again'))
                else:
                    res.undecided('%s: %s' % (f.short, src_of(n)), 'not an increment')
                continue
            v = n.value
            if in_ctor:
                res.ok('%s: %s (start value)' % (f.short, src_of(n)))
                continue
            if defs is None:
                defs = shape.defs_of(f.node, params=f.params)
            if isinstance(v, ast.Name) and v.id in defs and src_of(defs[v.id]) == src_of(tgt):
                res.bad(F(f, n, src_of(n), 'an earlier value of the tabstop counter (saved in `%s`) is stored back: the field numbers handed out in between are used again by what follows' % v.id))
            elif isinstance(v, ast.Constant) and isinstance(v.value, int):
                res.bad(F(f, n, src_of(n), 'the tabstop counter is reset to a constant in the middle of an expansion: field numbers repeat'))
            elif isinstance(v, ast.BinOp) and isinstance(v.op, ast.Add) and src_of(tgt) in (src_of(v.left), src_of(v.right)):
                n_inc += 1
                res.ok('%s: %s' % (f.short, src_of(n)))
            else:
                res.undecided('%s: %s' % (f.short, src_of(n)), 'not recognisably an increment of the counter')
    res.stats['increments'] = n_inc
    res.require_floor(2)
