"""RNG-ORDER : a reported range (start, end) is ordered on every path that reports it.

The functions that *build* a range from two cursors (rather than forwarding a token's offsets) are few and are frozen below.
For each `return (A, B)` in them the relation between A and B is tracked along every path as a subset of {<, =, >}:

* `B = A` / `A = B`                     -> {=}
* a test `A < B`, `A != B`, ... (either operand order, negated on the false branch) intersects the set
* `A += 1` / `B -= 1` (integers)        -> < becomes {<, =};  = and > become >
* `A -= k` / `B += k` (k > 0)           -> < stays <;  = becomes <;  > becomes {=, >, <} unless k is unknown ...
* a call that receives the object holding the cursor moves it the way the callee's stores to that field say
  (only decrements / only increments / not at all / unknown)
* any other store to A or B             -> {<, =, >}

The obligation at the return is: the set is within {<, =}.  A loop that moves one end towards the other is therefore safe
exactly when the movement is guarded by a test of the two ends on the same path -- which is the shape of every correct trim
loop -- and a function that gets both ends from its caller must test their order (not only their inequality) before reporting.
"""
import ast

from . import rule
from ..core import AnalysisError, src_of
from ..report import Finding
from ..paths import PathClient, explore

ALL = frozenset('<=>')

# reviewed instances: (function, why it builds a range itself)
BUILDERS = [
    ('math_expression.extract.extract', 'backward scan from the caret, then whitespace trimmed from the left end'),
    ('css_matcher.inner_range', 'both ends trimmed towards each other; the ends come from the callers'),
]


def F(f, node, construct, message, **kw):
    return Finding('RNG-ORDER', f.module.relpath, f.short, construct, message, getattr(node, 'lineno', 0), **kw)


def _flip(op):
    return {ast.Lt: ast.Gt, ast.Gt: ast.Lt, ast.LtE: ast.GtE, ast.GtE: ast.LtE}.get(op, op)


def _neg(op):
    return {ast.Lt: ast.GtE, ast.GtE: ast.Lt, ast.Gt: ast.LtE, ast.LtE: ast.Gt, ast.Eq: ast.NotEq, ast.NotEq: ast.Eq}.get(op)


_SETS = {ast.Lt: frozenset('<'), ast.LtE: frozenset('<='), ast.Eq: frozenset('='), ast.NotEq: frozenset('<>'), ast.Gt: frozenset('>'), ast.GtE: frozenset('=>')}


def _up(r):
    """A moves up by one (or B down by one)"""
    out = set()
    if '<' in r:
        out |= {'<', '='}
    if '=' in r or '>' in r:
        out.add('>')
    return frozenset(out)


def _down(r, exact_one=False):
    """A moves down by k >= 0 (k == 1 when exact_one), or B up"""
    out = set()
    if '<' in r:
        out.add('<')
    if '=' in r:
        out |= {'<'} if exact_one else {'<', '='}
    if '>' in r:
        out |= {'=', '>'} if exact_one else ALL
    return frozenset(out)


class OrderClient(PathClient):
    PURE_CALLS = PathClient.PURE_CALLS | {'is_space', 'is_number', 'is_sign', 'is_operator', 'is_quote'}

    def __init__(self, p, f, a_src, b_src):
        super().__init__(p, f)
        self.a, self.b = a_src, b_src
        self.reports = []          # (stmt, relation, state)
        self.base = a_src.split('.')[0] if '.' in a_src else None      # object holding cursor A
        self.field = a_src.split('.', 1)[1] if '.' in a_src else None
        self._sum = {}

    def rel(self, s):
        return s.get(('ord',), ALL)

    def setrel(self, s, r):
        return s.set(('ord',), frozenset(r))

    # tests ------------------------------------------------------------------------------------------------------------
    def atom(self, it, s, expr):
        # only tests of the two ends against each other are correlated along a path; every other pure test takes both
        # outcomes without being remembered (keeps the state set small)
        if self.is_pure(expr):
            srcs = {src_of(expr.left), src_of(expr.comparators[0])} if isinstance(expr, ast.Compare) and len(expr.ops) == 1 else set()
            if srcs != {self.a, self.b}:
                return [s], [s]
            t, f = self.on_test(it, s, expr, True), self.on_test(it, s, expr, False)
            return ([t] if self.rel(t) else []), ([f] if self.rel(f) else [])          # an empty relation: infeasible branch
        return super().atom(it, s, expr)

    def on_test(self, it, s, expr, truth):
        if isinstance(expr, ast.Compare) and len(expr.ops) == 1:
            l, r = src_of(expr.left), src_of(expr.comparators[0])
            op = type(expr.ops[0])
            if (l, r) == (self.b, self.a):
                op, l, r = _flip(op), r, l
            if (l, r) == (self.a, self.b) and op in _SETS:
                if not truth:
                    op = _neg(op)
                return self.setrel(s, self.rel(s) & _SETS[op])
        return s

    # movements --------------------------------------------------------------------------------------------------------
    def on_aug(self, it, s, stmt):
        t = src_of(stmt.target)
        if t not in (self.a, self.b):
            return s
        k = self.p.try_const(self.f, stmt.value)
        up = isinstance(stmt.op, ast.Add)
        if not isinstance(stmt.op, (ast.Add, ast.Sub)) or not isinstance(k, int) or isinstance(k, bool) or k == 0:
            return self.setrel(s, ALL)
        if k < 0:
            up, k = not up, -k
        towards = up if t == self.a else not up        # A up / B down: the ends approach each other
        r = self.rel(s)
        if towards:
            r = _up(r) if k == 1 else (ALL if '<' in r else frozenset('>'))
        else:
            r = _down(r, exact_one=(k == 1))
        return self.setrel(s, r)

    def on_store(self, it, s, target, value, stmt):
        t = src_of(target)
        if t in (self.a, self.b):
            other = self.b if t == self.a else self.a
            v = getattr(stmt, 'value', None)
            if v is not None and src_of(v) == other:
                return self.setrel(s, '=')
            return self.setrel(s, ALL)
        if isinstance(target, (ast.Tuple, ast.List)) and any(src_of(e) in (self.a, self.b) for e in target.elts):
            return self.setrel(s, ALL)
        if self.base is not None and t == self.base:
            return self.setrel(s, ALL)           # the object holding the cursor is replaced
        return s

    def _field_moves(self, g, pname, depth=0):
        """how g moves <pname>.<field>: 'none' | 'down' | 'up' | 'unknown'"""
        key = (g.qualname, pname)
        if key in self._sum:
            return self._sum[key]
        self._sum[key] = 'unknown'
        kinds = set()
        want = '%s.%s' % (pname, self.field)
        for n in g.body_nodes():
            if isinstance(n, ast.AugAssign) and src_of(n.target) == want:
                k = self.p.try_const(g, n.value)
                if isinstance(n.op, (ast.Add, ast.Sub)) and isinstance(k, int) and k > 0:
                    kinds.add('up' if isinstance(n.op, ast.Add) else 'down')
                else:
                    kinds.add('unknown')
            elif isinstance(n, (ast.Assign, ast.AnnAssign)):
                for tg in (n.targets if isinstance(n, ast.Assign) else [n.target]):
                    for x in ast.walk(tg):
                        if isinstance(x, ast.Attribute) and isinstance(x.ctx, ast.Store) and src_of(x) == want:
                            kinds.add('unknown')
                        if isinstance(x, ast.Name) and isinstance(x.ctx, ast.Store) and x.id == pname:
                            kinds.add('unknown')
            elif isinstance(n, ast.Call):
                passes = [i for i, a in enumerate(n.args) if isinstance(a, ast.Name) and a.id == pname]
                recv = isinstance(n.func, ast.Attribute) and isinstance(n.func.value, ast.Name) and n.func.value.id == pname
                if passes or recv or any(isinstance(k.value, ast.Name) and k.value.id == pname for k in n.keywords):
                    kinds.add(self._call_moves(g, n, pname, depth + 1))
        kinds.discard('none')
        out = 'none' if not kinds else (next(iter(kinds)) if len(kinds) == 1 else 'unknown')
        self._sum[key] = out
        return out

    def _call_moves(self, scope, call, obj, depth=0):
        if depth > 3:
            return 'unknown'
        tgt = self.p.resolve_call(scope, call)
        if not isinstance(tgt, list) or not tgt:
            return 'unknown'
        kinds = set()
        for g in tgt:
            if not hasattr(g, 'params'):
                return 'unknown'
            if isinstance(call.func, ast.Attribute) and isinstance(call.func.value, ast.Name) and call.func.value.id == obj and g.cls is not None and g.params:
                kinds.add(self._field_moves(g, g.params[0], depth))
            for i, a in enumerate(call.args):
                if isinstance(a, ast.Name) and a.id == obj:
                    params = g.params[1:] if (g.cls is not None and isinstance(call.func, ast.Attribute)) else g.params
                    if i >= len(params):
                        return 'unknown'
                    kinds.add(self._field_moves(g, params[i], depth))
            if any(isinstance(k.value, ast.Name) and k.value.id == obj for k in call.keywords):
                return 'unknown'
        kinds.discard('none')
        return 'none' if not kinds else (next(iter(kinds)) if len(kinds) == 1 else 'unknown')

    def on_call(self, it, s, call):
        if self.base is None:
            return s
        touches = (isinstance(call.func, ast.Attribute) and isinstance(call.func.value, ast.Name) and call.func.value.id == self.base) \
            or any(isinstance(a, ast.Name) and a.id == self.base for a in call.args) \
            or any(isinstance(k.value, ast.Name) and k.value.id == self.base for k in call.keywords)
        if not touches:
            return s
        mv = self._call_moves(self.f, call, self.base)
        r = self.rel(s)
        if mv == 'none':
            return s
        if mv == 'down':
            return self.setrel(s, _down(r))
        if mv == 'up':
            return self.setrel(s, ALL if '<' in r else frozenset('>'))
        return self.setrel(s, ALL)

    # reports ----------------------------------------------------------------------------------------------------------
    def on_exit(self, it, s, value, stmt):
        if isinstance(value, (ast.Tuple, ast.List)) and len(value.elts) >= 2 and src_of(value.elts[0]) == self.a and src_of(value.elts[1]) == self.b:
            self.reports.append((stmt, self.rel(s), s))
        return s


def _range_returns(f):
    """distinct (A, B) source pairs of the 2-tuples f returns"""
    pairs = []
    for n in f.body_nodes():
        if isinstance(n, ast.Return) and n.value is not None:
            vals = [n.value]
            if isinstance(n.value, ast.IfExp):
                vals = [n.value.body, n.value.orelse]
            for v in vals:
                if isinstance(v, (ast.Tuple, ast.List)) and len(v.elts) == 2 and not any(isinstance(e, ast.Constant) for e in v.elts):
                    pr = (src_of(v.elts[0]), src_of(v.elts[1]))
                    if pr not in pairs:
                        pairs.append(pr)
    return pairs


@rule('RNG-ORDER', 'D', 'a range built from two cursors is reported only on paths that establish start <= end')
def rng_order(p, res):
    n = 0
    for fq, why in BUILDERS:
        f = p.func(fq)
        pairs = _range_returns(f)
        if not pairs:
            res.undecided('%s: return (start, end)' % f.short, 'the function no longer returns a two-element range display')
            continue
        for a, b in pairs:
            c = OrderClient(p, f, a, b)
            try:
                explore(p, f, c, normal='guard')
            except AnalysisError as e:
                res.undecided('%s: (%s, %s)' % (f.short, a, b), 'paths not explorable: %s' % e)
                continue
            if not c.reports:
                res.undecided('%s: (%s, %s)' % (f.short, a, b), 'no path reaches the report')
                continue
            bad = [(st, r, s_) for st, r, s_ in c.reports if not r <= frozenset('<=')]
            n += 1
            if bad:
                st, r, s_ = bad[0]
                res.bad(F(f, st, '(%s, %s)' % (a, b),
                          'the range (%s, %s) is reported on a path on which nothing establishes %s <= %s (possible relations: %s): '
                          'an inverted range start > end can be returned' % (a, b, a, b, ' '.join(sorted(r))),
                          details=['path : ' + s_.show_trace()]))
            else:
                res.ok('%s: (%s, %s) ordered on %d reporting path(s) [%s]' % (f.short, a, b, len(c.reports), why), n=len(c.reports))
    res.stats['range_builders'] = n
    res.require_floor(2)
