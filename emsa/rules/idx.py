"""EXC-INDEX / EXC-RET-STR : implicit IndexError / TypeError families."""
import ast
import re

from . import rule
from ..core import AnalysisError, src_of, Class, Func
from ..report import Finding
from ..paths import PathClient, explore
from ..linear import linear
from .. import callgraph


def F(rule_name, f, node, construct, message, **kw):
    return Finding(rule_name, f.module.relpath, f.short, construct, message, getattr(node, 'lineno', 0), **kw)


# ---------------------------------------------------------------- EXC-INDEX
REVIEWED_INDEX = {
    # (function, construct): reason
    ('markup.addon.bem.expand_class_names', 'cl[0]'): "evaluated only when cl.find('_') > 0, i.e. the string has at least two characters",
    ('markup.lorem.insert_commas', 'words[pos][-1]'): 'pos is randint(0, l - 2) with l = len(words) >= 2; vocabulary words are non-empty (TAB-VOCAB)',
    ('markup.lorem.sentence', 'words[0]'): 'guarded by `if words`',
    ('abbreviation.convert.convert_statement', 'state.repeaters.pop()'): 'paired with the append before the copy loop (PATH-STACK)',
    ('markup.snippets.resolve_snippets.resolve', 'stack.pop()'): 'paired with the append before the recursive walk (PATH-STACK)',
    ('markup.utils.walk.callback', 'ancestors.pop()'): 'paired with the append before the child loop (PATH-STACK)',
    ('markup.format.walk.walk.walk_next', 'state.ancestors.pop()'): 'paired with the append before the callback (PATH-STACK)',
    ('css_abbreviation.tokenizer.merge_tokens', 'token_list[-1]'): 'guarded by `while token_list`',
    ('css_abbreviation.tokenizer.merge_tokens', 'token_list.pop()'): 'guarded by `while token_list`',
    ('stylesheet.snippets.nest', 'stack[-1]'): 'guarded by `while stack`',
    ('stylesheet.snippets.nest', 'stack.pop()'): 'guarded by `while stack`',
    ('stylesheet.snippets.nest', 'cur.property[len(prev.property)]'): 'non-constant index guarded by the length comparison in the same conjunction',
    ('abbreviation.parser.get_text', 'scanner.tokens[start]'): 'only called after text() consumed at least the opening brace token',
    ('abbreviation.parser.get_text', 'scanner.tokens[end - 1]'): 'only called after text() consumed at least the opening brace token',
}

INDEX_SCOPE = ('abbreviation', 'markup', 'stylesheet', 'css_abbreviation', 'scanner', 'scanner_utils', 'token_scanner', 'config',
               'output_stream', 'list_utils', 'math_expression', 'expand', 'snippets')


def _fixed_shape(p, f, recv, need):
    """receiver is a record of statically known length >= need (tuple/list display, closure box, fixed-shape return)"""
    if isinstance(recv, ast.Name):
        g = f
        while g is not None:
            if recv.id in g.locals:
                break
            g = g.parent
        if g is None:
            return False
        vals = p.local_assignments(g, recv.id)
        if recv.id in g.all_params():
            # all call sites pass fixed-shape values
            sites = callgraph.get(p).callers_of(g)
            if not sites:
                return False
            ix = g.params.index(recv.id) if recv.id in g.params else None
            for caller, call in sites:
                if ix is None or ix >= len(call.args):
                    return False
                if not _fixed_expr(p, caller, call.args[ix], need):
                    return False
            return True
        if not vals:
            return False
        # never shrunk
        scope_funcs = [g] + list(g.nested.values())
        for h in scope_funcs:
            for n in h.body_nodes():
                if isinstance(n, ast.Call) and isinstance(n.func, ast.Attribute) and isinstance(n.func.value, ast.Name) and n.func.value.id == recv.id \
                        and n.func.attr in ('pop', 'clear', 'remove'):
                    return False
        base = 0
        for v in vals:
            if v is None:
                return False
            if isinstance(v, (ast.List, ast.Tuple)):
                k = len(v.elts)
            elif _fixed_expr(p, g, v, need):
                k = need
            else:
                return False
            base = k if base == 0 else min(base, k)
        # `x = []` followed by unconditional top-level appends
        apps = sum(1 for st in g.node.body if isinstance(st, ast.Expr) and isinstance(st.value, ast.Call) and src_of(st.value.func) == '%s.append' % recv.id)
        return base + apps >= need
    return False


def _is_local(f, name):
    g = f
    while g is not None:
        if name in g.locals and name not in g.globals_decl:
            return True
        g = g.parent
    return False


def _mutated_table(p, f, name):
    """the module-level table `name` is written somewhere in its module after its definition"""
    m = f.module
    for n in ast.walk(m.tree):
        if isinstance(n, (ast.Subscript, ast.Attribute)) and isinstance(n.ctx, (ast.Store, ast.Del)) and isinstance(n.value, ast.Name) and n.value.id == name:
            return True
        if isinstance(n, ast.Call) and isinstance(n.func, ast.Attribute) and isinstance(n.func.value, ast.Name) and n.func.value.id == name \
                and n.func.attr in ('update', 'pop', 'popitem', 'clear', 'setdefault', '__setitem__', '__delitem__'):
            return True
    return False


def _fixed_expr(p, f, e, need, depth=0):
    if depth > 4:
        return False
    if isinstance(e, (ast.List, ast.Tuple)):
        return len(e.elts) >= need and not any(isinstance(x, ast.Starred) for x in e.elts)
    # lookup in a module-level constant table whose values are all records of sufficient length: T[k], T.get(k), T.get(k, d)
    # (a missing key gives KeyError / None -- TypeError on the subscript --, never IndexError)
    tab = dflt = None
    if isinstance(e, ast.Subscript) and not isinstance(e.slice, ast.Slice) and isinstance(e.value, ast.Name):
        tab = e.value
    elif isinstance(e, ast.Call) and isinstance(e.func, ast.Attribute) and e.func.attr == 'get' and isinstance(e.func.value, ast.Name) \
            and 1 <= len(e.args) <= 2 and not e.keywords:
        tab = e.func.value
        dflt = e.args[1] if len(e.args) == 2 else None
    if tab is not None and not _is_local(f, tab.id):
        v = p.try_const(f, tab)
        if isinstance(v, dict) and v and all(isinstance(x, (tuple, list)) and len(x) >= need for x in v.values()) and not _mutated_table(p, f, tab.id):
            if dflt is None or (isinstance(dflt, ast.Constant) and dflt.value is None) or _fixed_expr(p, f, dflt, need, depth + 1):
                return True
    if isinstance(e, ast.Call):
        tgt = p.resolve_call(f, e)
        if isinstance(tgt, list) and len(tgt) == 1:
            g = tgt[0]
            rets = [n.value for n in g.body_nodes() if isinstance(n, ast.Return)]
            if rets and all(r is not None and _fixed_expr(p, g, r, need, depth + 1) for r in rets):
                return True
        return False
    if isinstance(e, ast.Name):
        return _fixed_shape(p, f, e, need)
    if isinstance(e, ast.BoolOp) and isinstance(e.op, ast.Or):
        return all(_fixed_expr(p, f, v, need, depth + 1) for v in e.values)
    return False


class IndexClient(PathClient):
    PURE_CALLS = PathClient.PURE_CALLS | {'is_quote', 'is_bracket', 'is_literal', 'is_field', 'is_group'}

    def __init__(self, p, f):
        super().__init__(p, f)
        self.sites = {}
        # single-assignment aliases of len(): l = len(value), last_ix = len(x) - 1
        self.defs = {}
        counts = {}
        for n in f.body_nodes():
            if isinstance(n, ast.Assign) and len(n.targets) == 1 and isinstance(n.targets[0], ast.Name):
                counts[n.targets[0].id] = counts.get(n.targets[0].id, 0) + 1
                self.defs[n.targets[0].id] = n.value
            elif isinstance(n, ast.AugAssign) and isinstance(n.target, ast.Name):
                counts[n.target.id] = counts.get(n.target.id, 0) + 2
        self.defs = {k: v for k, v in self.defs.items() if counts.get(k) == 1 and k not in f.rebound_by_nested()}
        # only conditions that talk about an indexed receiver are tracked (keeps the state set small)
        recvs = set()
        for x in f.body_nodes():
            if isinstance(x, ast.Subscript) and not isinstance(x.slice, ast.Slice):
                recvs.add(src_of(x.value))
            elif isinstance(x, ast.Call) and isinstance(x.func, ast.Attribute) and x.func.attr == 'pop':
                recvs.add(src_of(x.func.value))
        words = set()
        for r in recvs:
            words.add(r)
        for k, v in self.defs.items():
            if any(r in src_of(v) for r in recvs):
                words.add(k)
        # boolean carriers assigned on several branches (closed = len(tokens) and ..  /  closed = tokens and ..)
        for n in f.body_nodes():
            if isinstance(n, ast.Assign) and len(n.targets) == 1 and isinstance(n.targets[0], ast.Name) and isinstance(n.value, (ast.BoolOp, ast.Compare, ast.Call, ast.UnaryOp)):
                if any(re.search(r'(?<![\w.])%s(?![\w])' % re.escape(r), src_of(n.value)) for r in recvs):
                    words.add(n.targets[0].id)
        # copies: tokens = node.value[:]  -> conditions on node.value matter for tokens
        for k, v in self.defs.items():
            if k in recvs and isinstance(v, ast.Subscript):
                words.add(src_of(v.value))
            # aliases: value = node.value -> conditions on node.value matter for value
            if k in recvs and isinstance(v, (ast.Name, ast.Attribute)):
                words.add(src_of(v))
        self.relevant = [re.compile(r'(?<![\w.])%s(?![\w])' % re.escape(w)) for w in words]

    # known minimal length of expression text X from the facts of state s
    def min_len(self, s, X, depth=0):
        best = 0
        v = s.get(('len', X))
        if v is not None:
            best = max(best, v)
        # a local that stands for another expression on this path (v = node.value): what is known about that expression
        b = self.binding(s, X) if X.isidentifier() else None
        if b is not None and b[0] == 'alias' and depth < 3:
            best = max(best, self.min_len(s, b[1], depth + 1))
        for key, val in s.facts.items():
            if key[0] != 'cond':
                continue
            e = self._parsed(key[1])
            if e is None:
                continue
            best = max(best, self._len_from_cond(e, val, X))
        # copies: X := Y[:] / list(Y)
        return best

    _cache = {}

    def _parsed(self, src):
        if src not in self._cache:
            try:
                self._cache[src] = ast.parse(src, mode='eval').body
            except SyntaxError:
                self._cache[src] = None
        return self._cache[src]

    def _subst(self, e):
        """inline single-assignment locals (one level)"""
        if isinstance(e, ast.Name) and e.id in self.defs:
            return self.defs[e.id]
        return e

    def _len_from_cond(self, e, truth, X):
        if truth and src_of(e) == X:
            return 1
        if truth and src_of(e) == 'len(%s)' % X:
            return 1
        if isinstance(e, ast.Compare) and len(e.ops) == 1:
            a, b, op = self._subst(e.left), self._subst(e.comparators[0]), e.ops[0]
            # X.find(..) / X.rfind(..) / X.index(..) returned an index >= 0: X has at least index + 1 characters
            if isinstance(a, ast.Call) and isinstance(a.func, ast.Attribute) and a.func.attr in ('find', 'rfind', 'index') and src_of(a.func.value) == X \
                    and isinstance(b, (ast.Constant, ast.UnaryOp)):
                try:
                    c = ast.literal_eval(b)
                except ValueError:
                    c = None
                if isinstance(c, int) and not isinstance(c, bool):
                    opn = type(op)
                    if not truth:
                        opn = {ast.Lt: ast.GtE, ast.GtE: ast.Lt, ast.Gt: ast.LtE, ast.LtE: ast.Gt, ast.Eq: ast.NotEq, ast.NotEq: ast.Eq}.get(opn)
                    if opn is ast.Gt and c >= -1:
                        return c + 2
                    if opn is ast.GtE and c >= 0:
                        return c + 1
                    if opn is ast.NotEq and c == -1:
                        return 1
                    if opn is ast.Eq and c >= 0:
                        return c + 1
                return 0
            la, lb = linear(a), linear(b)
            if la is None or lb is None:
                return 0
            key = 'len(%s)' % X
            # bring to the form  len(X) + c  op  0
            diff = dict(la)
            for k, v in lb.items():
                diff[k] = diff.get(k, 0) - v
            diff = {k: v for k, v in diff.items() if v}
            coef = diff.get(key, 0)
            rest = {k: v for k, v in diff.items() if k not in (key, '1')}
            if rest or coef not in (1, -1):
                return 0
            c = diff.get('1', 0)
            opn = type(op)
            if coef == -1:
                c = -c
                opn = {ast.Lt: ast.Gt, ast.Gt: ast.Lt, ast.LtE: ast.GtE, ast.GtE: ast.LtE}.get(opn, opn)
            # len(X) + c  opn  0   <=>  len(X) opn -c
            k = -c
            if not truth:
                opn = {ast.Lt: ast.GtE, ast.GtE: ast.Lt, ast.Gt: ast.LtE, ast.LtE: ast.Gt, ast.Eq: ast.NotEq, ast.NotEq: ast.Eq}.get(opn)
            if opn is ast.Eq:
                return max(0, k)
            if opn is ast.Gt:
                return max(0, k + 1)
            if opn is ast.GtE:
                return max(0, k)
            if opn is ast.NotEq and k == 0:
                return 1
        return 0

    # facts about list lengths from assignments and mutators
    def on_store(self, it, s, target, value, stmt):
        raw = getattr(stmt, 'value', None)
        if isinstance(target, ast.Name) and isinstance(raw, ast.BoolOp) and isinstance(raw.op, ast.Or) \
                and isinstance(raw.values[-1], (ast.List, ast.Tuple)) and raw.values[-1].elts and isinstance(stmt, ast.Assign) and len(stmt.targets) == 1:
            # X = A or [c, ..]: A when it is truthy (so non-empty), else the non-empty display
            X = target.id
            s = s.drop_if(lambda k, v: k[0] == 'len' and (k[1] == X or k[1].startswith(X + '.') or k[1].startswith(X + '[')))
            return s.set(('len', X), 1)
        if isinstance(target, ast.Name) and value is not None and not isinstance(value, tuple):
            X = target.id
            s = s.drop_if(lambda k, v: k[0] == 'len' and (k[1] == X or k[1].startswith(X + '.') or k[1].startswith(X + '[')))
            if isinstance(value, (ast.List, ast.Tuple)):
                s = s.set(('len', X), len(value.elts))
            elif isinstance(value, ast.Subscript) and isinstance(value.slice, ast.Slice) and value.slice.lower is None and value.slice.upper is None:
                s = s.set(('len', X), self.min_len(s, src_of(value.value)))      # full copy keeps the length
            elif isinstance(value, ast.Subscript) and isinstance(value.slice, ast.Slice):
                lo = self.p.try_const(self.f, value.slice.lower) if value.slice.lower is not None else 0
                hi = self.p.try_const(self.f, value.slice.upper) if value.slice.upper is not None else 0
                cut = (lo if isinstance(lo, int) and lo >= 0 else 0) + (-hi if isinstance(hi, int) and hi < 0 else 0)
                if (value.slice.lower is not None and not (isinstance(lo, int) and not isinstance(lo, bool) and lo >= 0)) \
                        or (value.slice.upper is not None and not (isinstance(hi, int) and not isinstance(hi, bool) and hi < 0)):
                    s = s.set(('len', X), 0)          # a computed bound: nothing is known about what is left
                elif src_of(value.value) == X or True:
                    s = s.set(('len', X), max(0, self.min_len(s.set(('len', X), 0), src_of(value.value)) - cut) if src_of(value.value) != X else 0)
        elif isinstance(stmt, ast.Delete) and isinstance(target, ast.Subscript):
            base = src_of(target.value)          # del xs[i] / del xs[a:b]: the container shrinks by an unknown amount
            s = s.drop_if(lambda k, v: (k[0] == 'len' and (k[1] == base or k[1].startswith(base + '['))) or (k[0] == 'cond' and base in k[1]))
        elif isinstance(target, (ast.Attribute, ast.Subscript)):
            ts = src_of(target)
            s = s.drop_if(lambda k, v: k[0] == 'len' and k[1] == ts)
            if isinstance(value, (ast.List, ast.Tuple)):
                s = s.set(('len', ts), len(value.elts))
        return s

    watch = None          # (Func, parameter index): record the proven minimal length of that argument at every call

    def on_call(self, it, s, call):
        fn = call.func
        if self.watch is not None:
            tgt = self.p.resolve_call(self.f, call)
            if isinstance(tgt, list) and self.watch[0] in tgt:
                ix = self.watch[1]
                n = self.min_len(s, src_of(call.args[ix])) if ix < len(call.args) and len(tgt) == 1 else 0
                self.watch_min = n if self.watch_min is None else min(self.watch_min, n)
        if isinstance(fn, ast.Attribute) and fn.attr in ('append', 'insert', 'add'):
            X = src_of(fn.value)
            s = s.set(('len', X), min(4, self.min_len(s, X) + 1))
            s = s.drop_if(lambda k, v: k[0] == 'cond' and X in k[1])
        elif isinstance(fn, ast.Attribute) and fn.attr == 'pop' and len(call.args) <= 1:
            X = src_of(fn.value)
            self.check(s, call, fn.value, 1, src_of(call))
            n = self.min_len(s, X)
            s = s.drop_if(lambda k, v: k[0] == 'cond' and X in k[1])
            s = s.set(('len', X), max(0, n - 1))
        elif isinstance(fn, ast.Attribute) and fn.attr in ('clear', 'remove', 'extend', 'reverse', 'sort'):
            X = src_of(fn.value)
            s = s.drop_if(lambda k, v: (k[0] == 'cond' and X in k[1]) or (k[0] == 'len' and k[1] == X))
        # subscripts inside the arguments
        for a in list(call.args) + [k.value for k in call.keywords]:
            self.scan(s, a)
        return s

    def scan(self, s, expr):
        if expr is None or isinstance(expr, tuple):
            return
        if isinstance(expr, ast.IfExp):
            self.scan(s, expr.test)
            if self.is_pure(expr.test):
                k = ('cond', src_of(expr.test))
                self.scan(s.set(k, True) if s.get(k) is None else s, expr.body) if s.get(k) is not False else None
                self.scan(s.set(k, False) if s.get(k) is None else s, expr.orelse) if s.get(k) is not True else None
            else:
                self.scan(s, expr.body)
                self.scan(s, expr.orelse)
            return
        if isinstance(expr, ast.BoolOp):
            cur = s
            for v in expr.values:
                self.scan(cur, v)
                if self.is_pure(v):
                    k = ('cond', src_of(v))
                    if cur.get(k) is None:
                        cur = cur.set(k, isinstance(expr.op, ast.And))
            return
        if not isinstance(expr, (ast.Subscript,)) and any(isinstance(c, (ast.IfExp, ast.BoolOp)) for c in ast.walk(expr) if c is not expr):
            for c in ast.iter_child_nodes(expr):
                if isinstance(c, ast.expr):
                    self.scan(s, c)
            return
        for n in ast.walk(expr):
            if isinstance(n, ast.Subscript) and isinstance(n.ctx, ast.Load) and not isinstance(n.slice, ast.Slice):
                c = self.p.try_const(self.f, n.slice)
                if isinstance(c, int) and not isinstance(c, bool):
                    self.check(s, n, n.value, c + 1 if c >= 0 else -c, src_of(n))

    def check(self, s, node, recv, need, construct):
        key = (construct, getattr(node, 'lineno', 0))
        X = src_of(recv)
        ok = self.min_len(s, X) >= need
        rec = self.sites.setdefault(key, {'node': node, 'recv': recv, 'need': need, 'construct': construct, 'ok': True, 'state': None})
        if not ok:
            rec['ok'] = False
            rec['state'] = rec['state'] or s

    # every evaluated expression is scanned for subscripts
    def atom(self, it, s, expr):
        self.scan(s, expr)
        if self.is_pure(expr):
            src = src_of(expr)
            if not any(r.search(src) for r in self.relevant):
                return [s], [s]          # irrelevant condition: both outcomes, nothing recorded
        return super().atom(it, s, expr)

    def assign(self, it, s, target, value, stmt):
        if value is not None and not isinstance(value, tuple):
            self.scan(s, value)
        elif isinstance(value, tuple):
            if not (isinstance(target, ast.Name) and any(r.search(target.id) for r in self.relevant)):
                value = None         # boolean carrier nobody indexes: do not fork on it
        if isinstance(target, (ast.Subscript, ast.Attribute)):
            self.scan(s, target.value)
        return super().assign(it, s, target, value, stmt)

    def augassign(self, it, s, stmt):
        self.scan(s, stmt.value)
        if isinstance(stmt.target, ast.Subscript):
            # x[-1] += v reads x[-1]
            c = self.p.try_const(self.f, stmt.target.slice)
            if isinstance(c, int):
                self.check(s, stmt.target, stmt.target.value, c + 1 if c >= 0 else -c, src_of(stmt.target))
        return super().augassign(it, s, stmt)

    def on_exit(self, it, s, value, stmt):
        if value is not None and not isinstance(value, tuple):
            self.scan(s, value)
        return s


def _entry_len(p, f, pname):
    """minimal length of parameter `pname` that every call site of f establishes for its argument (0 when unknown)"""
    if pname not in f.params or f.cls is not None:
        return 0
    ix = f.params.index(pname)
    sites = callgraph.get(p).callers_of(f)
    if not sites:
        return 0
    best = None
    for caller, call in sites:
        c = IndexClient(p, caller)
        c.watch = (f, ix)
        c.watch_min = None
        if ix < len(call.args):
            words = {src_of(call.args[ix])}
            a = call.args[ix]
            if isinstance(a, ast.Name) and a.id in c.defs and isinstance(c.defs[a.id], ast.Subscript):
                words.add(src_of(c.defs[a.id].value))
            c.relevant += [re.compile(r'(?<![\w.])%s(?![\w])' % re.escape(w)) for w in words]
        try:
            explore(p, caller, c)
        except AnalysisError:
            return 0
        if c.watch_min is None:
            return 0
        best = c.watch_min if best is None else min(best, c.watch_min)
    return best or 0


@rule('EXC-INDEX', 'N', 'constant-index subscripts and pop() on strings / variable-length lists are dominated by a non-emptiness fact')
def exc_index(p, res):
    n_fixed = n_rev = 0
    for f in sorted(p.funcs.values(), key=lambda x: x.qualname):
        top = f.short.split('.')[0]
        if top not in INDEX_SCOPE:
            continue
        has = any((isinstance(x, ast.Subscript) and not isinstance(x.slice, ast.Slice)) or
                  (isinstance(x, ast.Call) and isinstance(x.func, ast.Attribute) and x.func.attr == 'pop') for x in f.body_nodes())
        if not has:
            continue
        c = IndexClient(p, f)
        try:
            explore(p, f, c)
        except AnalysisError as e:
            raise AnalysisError('EXC-INDEX: %s: %s' % (f.short, e))
        # sites on a parameter that fail locally: assume what every call site establishes about the argument, and look again
        failing = {src_of(rec['recv']) for rec in c.sites.values() if not rec['ok'] and isinstance(rec['recv'], ast.Name) and src_of(rec['recv']) in f.params}
        if failing:
            from ..absint import State
            init = {}
            for pn in failing:
                k = _entry_len(p, f, pn)
                if k:
                    init[('len', pn)] = k
            if init:
                c2 = IndexClient(p, f)
                explore(p, f, c2, init=State(init))
                for key, rec in c2.sites.items():
                    if rec['ok'] and key in c.sites and not c.sites[key]['ok']:
                        c.sites[key]['ok'] = True
                        c.sites[key]['construct_note'] = ' (every call site passes at least %s element(s))' % init.get(('len', src_of(rec['recv'])))
        for key, rec in sorted(c.sites.items(), key=lambda kv: kv[0][1]):
            construct = rec['construct']
            if rec['ok']:
                res.ok('%s: %s guarded on every path' % (f.short, construct))
                continue
            if _fixed_shape(p, f, rec['recv'], rec['need']) or _fixed_expr(p, f, rec['recv'], rec['need']):
                n_fixed += 1
                res.ok('%s: %s on a fixed-shape record' % (f.short, construct))
                continue
            if (f.short, construct) in REVIEWED_INDEX:
                n_rev += 1
                res.ok('%s: %s (reviewed: %s)' % (f.short, construct, REVIEWED_INDEX[(f.short, construct)]))
                continue
            # regex group / match results and dict lookups are not sequences we reason about
            rt = p.type_of(f, rec['recv'])
            if rt == 'dict':
                continue
            res.bad(F('EXC-INDEX', f, rec['node'], construct,
                      '`%s` needs at least %d element(s) in `%s` but no test on this path establishes that: IndexError on an empty value'
                      % (construct, rec['need'], src_of(rec['recv'])),
                      details=['path : ' + rec['state'].show_trace()] if rec['state'] is not None else []))
    res.stats['fixed_shape_sites'] = n_fixed
    res.stats['reviewed_sites'] = n_rev
    res.stats['reviewed_table_size'] = len(REVIEWED_INDEX)
    res.require_floor(40)


# -------------------------------------------------------------- EXC-RET-STR
def _ret_kind(p, f, e, depth=0):
    """'str' | 'none' | 'nullable' | 'other' for a return expression"""
    if e is None:
        return 'none'
    if isinstance(e, ast.Constant):
        if e.value is None:
            return 'none'
        return 'str' if isinstance(e.value, str) else 'other'
    if isinstance(e, ast.JoinedStr):
        return 'str'
    if isinstance(e, ast.IfExp):
        a, b = _ret_kind(p, f, e.body, depth), _ret_kind(p, f, e.orelse, depth)
        if 'none' in (a, b) or 'nullable' in (a, b):
            return 'nullable'
        return a if a == b else 'other'
    if isinstance(e, ast.BinOp) and isinstance(e.op, (ast.Mod, ast.Add)):
        return 'str'
    if isinstance(e, ast.Call):
        fn = e.func
        if isinstance(fn, ast.Attribute) and fn.attr == 'get':
            if len(e.args) == 1:
                tbl = p.try_const(f, fn.value)
                if isinstance(tbl, dict):
                    return 'str-if-total'      # decided by the table rules (TAB-OPS)
                return 'nullable'
            return _ret_kind(p, f, e.args[1], depth) if len(e.args) == 2 else 'other'
        if isinstance(fn, ast.Attribute) and fn.attr in ('strip', 'join', 'lower', 'upper', 'format', 'replace', 'rjust', 'zfill'):
            return 'str'
        if isinstance(fn, ast.Name) and fn.id == 'str':
            return 'str'
        tgt = p.resolve_call(f, e)
        if isinstance(tgt, list) and len(tgt) == 1 and depth < 3:
            return func_ret_kind(p, tgt[0], depth + 1)
        return 'other'
    if isinstance(e, ast.Attribute):
        return 'str'      # token.value etc. (field typed str by annotation; checked separately)
    if isinstance(e, ast.Name):
        vals = p.local_assignments(f, e.id) if isinstance(f, Func) and e.id in f.locals else []
        kinds = {_ret_kind(p, f, v, depth + 1) for v in vals if v is not None} if vals and depth < 3 else set()
        if e.id in (f.all_params() if isinstance(f, Func) else []) and not kinds:
            return 'str'  # parameter passed through (name)
        if 'none' in kinds or 'nullable' in kinds:
            return 'nullable'
        return 'str' if kinds and kinds <= {'str', 'str-if-total'} else 'other'
    return 'other'


def func_ret_kind(p, g, depth=0):
    kinds = set()
    for n in g.body_nodes():
        if isinstance(n, ast.Return):
            kinds.add(_ret_kind(p, g, n.value, depth))
    last = g.node.body[-1] if g.node.body else None
    if not isinstance(last, (ast.Return, ast.Raise)):
        kinds.add('none')
    if 'none' in kinds or 'nullable' in kinds:
        return 'nullable'
    return 'str' if kinds <= {'str', 'str-if-total'} else 'other'


@rule('EXC-RET-STR', 'N', 'every string visitor returns a string on every path (its result is joined into names and values)')
def exc_ret_str(p, res):
    tok = p.cls('abbreviation.tokenizer.tokens.Token')
    sm = p.module('abbreviation.stringify')
    names = {c.name for c in p.subclasses(tok)}
    for name in sorted(names):
        f = sm.funcs.get(name)
        if f is None:
            continue       # EXC-VISITOR reports it
        for n in f.body_nodes():
            if isinstance(n, ast.Return):
                k = _ret_kind(p, f, n.value)
                if k in ('none', 'nullable'):
                    res.bad(F('EXC-RET-STR', f, n, src_of(n), 'this path returns None: the caller joins visitor results with str.join -> TypeError',
                              failing_input="expand('$#') / expand('a{${foo}}')"))
                else:
                    res.ok('%s: %s -> %s' % (f.short, src_of(n), k))
        last = f.node.body[-1]
        if not isinstance(last, (ast.Return, ast.Raise)):
            res.bad(F('EXC-RET-STR', f, f.node, 'implicit return of %s' % f.name, 'a path falls off the end and returns None'))
    # callees whose result the visitors return
    for fq in ('abbreviation.convert.ConvertState.get_variable', 'abbreviation.convert.ConvertState.get_text'):
        g = p.func(fq)
        for n in g.body_nodes():
            if isinstance(n, ast.Return):
                k = _ret_kind(p, g, n.value)
                if k in ('none', 'nullable'):
                    res.bad(F('EXC-RET-STR', g, n, src_of(n), 'may return None; the value is joined into the element text / name -> TypeError',
                              failing_input="expand('a{${foo}}')"))
                else:
                    res.ok('%s: %s -> %s' % (g.short, src_of(n), k))
    # the consumers join
    sn = p.func('abbreviation.convert.stringify_name')
    if "''.join([stringify(token, state) for token in tokens])" in src_of(sn.node):
        res.ok('stringify_name joins the visitor results')
    res.require_floor(12)
