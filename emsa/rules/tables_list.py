"""functions whose reviewed decision tables are kept in tables_spec.py: (qualified name, options for dtable.table_rows)"""
TABLES = [
    ('extract_abbreviation.extract_abbreviation', {'inline': True}),
    ('extract_abbreviation.create_options', {'inline': True}),
    ('extract_abbreviation.consume_list', {'inline': True}),
    ('extract_abbreviation.consume_pair', {'inline': True}),
    ('extract_abbreviation.get_start_offset', {'inline': True}),
    ('extract_abbreviation.is_html.consume_quoted', {'inline': True}),
    ('action_utils.utils.token_list', {'inline': True}),
    ('action_utils.utils.push_range', {'inline': True}),
    ('html_matcher.utils.get_unquoted_value', {'inline': True}),
    ('markup.format.html.get_indent', {'inline': True}),
    ('markup.format.comment.should_comment', {'inline': True}),
    ('markup.format.comment.comment_node_before', {'inline': False}),
    ('markup.format.comment.comment_node_after', {'inline': False}),
    ('markup.snippets.merge', {'inline': True}),
    ('markup.snippets.resolve_snippets.resolve', {'inline': True}),
    ('markup.snippets.walk_resolve', {'inline': True}),
    ('markup.utils.find_deepest', {'inline': True}),
    ('snippets.parse_snippets', {'inline': True}),
    ('math_expression.evaluate', {'inline': True}),
    ('math_expression.parser.order_tokens', {'inline': True}),
    ('math_expression.parser.parse', {'inline': False}),
    ('scanner_utils.eat_quoted', {'inline': True}),
    ('scanner_utils.eat_pair', {'inline': True}),
    ('css_matcher.scan.literal', {'inline': True}),
    ('abbreviation.tokenizer.utils.escaped', {'inline': True}),
    ('abbreviation.convert.insert_text', {'inline': True}),
    ('abbreviation.convert.insert_href', {'inline': True}),
    ('abbreviation.convert.deepest_node', {'inline': True}),
    ('abbreviation.convert.attach_repeater', {'inline': True}),
    ('abbreviation.convert.clone_repeater', {'inline': True}),
]

SCN_METHODS = ['scanner.Scanner.' + m for m in ('eof', 'peek', 'next', 'eat', 'eat_while', 'back_up', 'current', 'substring', 'error', '__init__')] + \
    ['token_scanner.TokenScanner.' + m for m in ('peek', 'readable', 'next', 'consume', 'consume_while', 'slice', 'error', '__init__')] + \
    ['extract_abbreviation.reader.BackwardScanner.' + m for m in ('sol', 'peek', 'previous', 'consume', 'consume_while', '__init__')] + \
    ['math_expression.extract.BackwardScanner.prev', 'math_expression.extract.BackwardScanner.cur', 'markup.format.template.TokenScanner.peek',
     'scanner.ScannerException.__init__']
