"""functions whose reviewed decision tables are kept in tables_spec.py: (qualified name, options for dtable.table_rows)"""
TABLES = [
    ('extract_abbreviation.extract_abbreviation', {'inline': True}),
    ('extract_abbreviation.create_options', {'inline': True}),
    ('extract_abbreviation.consume_list', {'inline': True}),
    ('extract_abbreviation.consume_pair', {'inline': True}),
    ('extract_abbreviation.get_start_offset', {'inline': True}),
    ('extract_abbreviation.is_html.consume_quoted', {'inline': True}),
    ('action_utils.utils.token_list', {'inline': True}),
    ('action_utils.utils.push_range', {'inline': True}),
    ('html_matcher.utils.get_unquoted_value', {'inline': True}),
]
