"""INF-* : information flow.  Formatting options may only influence whitespace
emission; comment options only comment emission; the self-closing style only
the self-close marker."""
import ast
import re

from . import rule
from ..core import AnalysisError, src_of, Class
from ..report import Finding

FORMAT_KEYS = {'output.format', 'output.indent', 'output.newline', 'output.baseIndent', 'output.inlineBreak',
               'output.formatLeafNode', 'output.formatSkip', 'output.formatForce'}
FORMAT_DECIDERS = {'should_format', 'get_indent'}
WHITESPACE_EMITTERS = {'push_newline', 'push_indent'}
CONTENT_EMITTERS = {'push_string', 'push', 'push_tokens', 'push_field', 'push_attribute', '_next', 'walk_next', 'push_snippet',
                    'comment_node_before', 'comment_node_after', 'push_value', 'push_primary_attributes', 'push_secondary_attributes',
                    'css_property', 'css_property_value', 'output_value', 'output_token', 'output_important', 'output', '_push'}


def F(rule_name, f, node, construct, message, **kw):
    return Finding(rule_name, f.module.relpath, f.short, construct, message, getattr(node, 'lineno', 0), **kw)


def is_option_read(p, f, n, keys):
    if isinstance(n, ast.Call) and isinstance(n.func, ast.Attribute) and n.func.attr == 'get' and n.args:
        k = p.try_const(f, n.args[0])
        return isinstance(k, str) and k in keys
    if isinstance(n, ast.Subscript):
        k = p.try_const(f, n.slice)
        return isinstance(k, str) and k in keys
    return False


def tainted_names(p, f, is_source):
    """locals whose value depends (data) on a source"""
    t = set()
    changed = True
    while changed:
        changed = False
        for n in f.body_nodes():
            tgt = val = None
            if isinstance(n, ast.Assign):
                tgt, val = n.targets, n.value
            elif isinstance(n, ast.AugAssign):
                tgt, val = [n.target], n.value
            if tgt is None:
                continue
            dep = any(is_source(x) or (isinstance(x, ast.Name) and x.id in t) for x in ast.walk(val))
            if dep:
                for tg in tgt:
                    for x in ast.walk(tg):
                        if isinstance(x, ast.Name) and isinstance(x.ctx, ast.Store) and x.id not in t:
                            t.add(x.id)
                            changed = True
    return t


def expr_tainted(e, t, is_source):
    return any(is_source(x) or (isinstance(x, ast.Name) and x.id in t) for x in ast.walk(e))


def control_tainted(p, f, node, t, is_source):
    pm = p.parents(f)
    n = node
    while n is not None:
        par = pm.get(n)
        if isinstance(par, (ast.If, ast.While)) and (n in par.body or n in par.orelse) and expr_tainted(par.test, t, is_source):
            return par
        if isinstance(par, ast.IfExp) and n is not par.test and expr_tainted(par.test, t, is_source):
            return par
        n = par
    return None


FORMAT_FUNCS = ['markup.format.html.element', 'markup.format.html.push_attribute', 'markup.format.html.push_snippet',
                'markup.format.indent_format.element', 'markup.format.indent_format.push_value',
                'markup.format.indent_format.push_primary_attributes', 'markup.format.indent_format.push_secondary_attributes',
                'markup.format.utils.push_tokens', 'markup.format.comment.output', 'stylesheet.format.stringify',
                'stylesheet.format.css_property', 'markup.format.html.html', 'markup.format.indent_format.indent_format',
                'markup.format.walk.walk', 'markup.format.html._next']


@rule('INF-FORMAT', 'D', 'formatting options and format decisions influence only newline/indent emission and the level, never which content is emitted')
def inf_format(p, res):
    def src(f):
        def is_source(x):
            if is_option_read(p, f, x, FORMAT_KEYS):
                return True
            if isinstance(x, ast.Call) and isinstance(x.func, ast.Name) and x.func.id in FORMAT_DECIDERS:
                return True
            return False
        return is_source
    for fq in FORMAT_FUNCS:
        f = p.func(fq)
        is_source = src(f)
        t = tainted_names(p, f, is_source)
        n_tainted_sites = 0
        for n in f.body_nodes():
            if isinstance(n, ast.Call):
                fn = n.func
                name = fn.attr if isinstance(fn, ast.Attribute) else (fn.id if isinstance(fn, ast.Name) else None)
                if name in WHITESPACE_EMITTERS:
                    continue
                if name in CONTENT_EMITTERS:
                    ctl = control_tainted(p, f, n, t, is_source)
                    args_t = any(expr_tainted(a, t, is_source) for a in n.args)
                    if ctl is not None:
                        res.bad(F('INF-FORMAT', f, n, src_of(n), 'content emission depends on a formatting option / format decision (`%s`): the option changes more than whitespace'
                                  % src_of(ctl.test).split('\n')[0]))
                    elif args_t:
                        res.bad(F('INF-FORMAT', f, n, src_of(n), 'emitted content is computed from a formatting option / format decision'))
                    else:
                        res.ok('%s: %s independent of format options' % (f.short, src_of(n).split('\n')[0][:60]))
            elif isinstance(n, (ast.Return, ast.Break, ast.Continue)):
                ctl = control_tainted(p, f, n, t, is_source)
                if ctl is not None and f.name not in FORMAT_DECIDERS:
                    res.bad(F('INF-FORMAT', f, n, src_of(n), 'early exit under a formatting condition (`%s`): everything after it becomes format-dependent' % src_of(ctl.test).split('\n')[0]))
            elif isinstance(n, ast.Assign):
                # stores into the tree / walk state other than locals
                for tg in n.targets:
                    if isinstance(tg, (ast.Attribute, ast.Subscript)) and (expr_tainted(n.value, t, is_source) or control_tainted(p, f, n, t, is_source) is not None):
                        if isinstance(tg, ast.Attribute) and tg.attr == 'level':
                            continue
                        res.bad(F('INF-FORMAT', f, n, src_of(n), 'a formatting option / format decision is stored into %s' % src_of(tg)))
        res.stats[f.short] = sorted(t)
    # the whitespace emitters themselves emit nothing but the newline, base-indent and indent option strings (ACC-WRITER checks their bodies)
    res.require_floor(30)


@rule('INF-FMTREADERS', 'D', 'the indent-based formatter (haml / pug / slim) never reads output.format: its line breaks and indentation are the nesting syntax')
def inf_fmtreaders(p, res):
    readers = {}
    for f in p.funcs.values():
        for n in f.body_nodes():
            if is_option_read(p, f, n, {'output.format'}):
                readers.setdefault(f.short, []).append((f, n))
    res.stats['readers_of_output.format'] = sorted(readers)
    if not readers:
        res.undecided('readers of output.format', 'the html formatter is expected to read it')
    for name, sites in sorted(readers.items()):
        f, n = sites[0]
        if f.module.name.startswith('emmet.markup.format.indent_format'):
            res.bad(F('INF-FMTREADERS', f, n, src_of(n), 'the indent-based formatter consults output.format: with formatting switched off elements lose their own lines, and in haml / pug / slim the line structure is the tree'))
        else:
            res.ok('%s reads output.format' % name)
    n_indent = sum(1 for f in p.funcs.values() if f.module.name.startswith('emmet.markup.format.indent_format'))
    res.ok('%d functions of the indent-based formatter scanned' % n_indent)
    if n_indent < 5:
        raise AnalysisError('INF-FMTREADERS: indent formatter module has %d functions' % n_indent)
    res.require_floor(2)


@rule('INF-LEVEL', 'D', 'the indentation level counts open elements: what an element adds to the level does not depend on whether it is itself put on a new line')
def inf_level(p, res):
    # html.element: level = get_indent(state); indent_format.element: level = 1 if state.parent else 0
    for fq, want in (('markup.format.html.element', ('get_indent(state)',)), ('markup.format.indent_format.element', ('1 if state.parent else 0',))):
        f = p.func(fq)
        incs = [n for n in f.body_nodes() if isinstance(n, ast.AugAssign) and isinstance(n.target, ast.Attribute) and n.target.attr == 'level'
                and isinstance(n.op, ast.Add) and isinstance(n.value, ast.Name)]
        outer = [n for n in incs if n in f.node.body]
        if len(outer) != 1:
            raise AnalysisError('INF-LEVEL: %s has %d top-level level increments' % (fq, len(outer)))
        var = outer[0].value.id
        defs = [v for v in p.local_assignments(f, var)]

        def is_dec(x):
            return isinstance(x, ast.Call) and isinstance(x.func, ast.Name) and x.func.id == 'should_format'
        t = tainted_names(p, f, is_dec)
        from .. import shape
        pm = shape.parent_map(f.node)
        # an if/else that assigns the two constants is the conditional expression spelled as statements
        split = {}
        for st in f.body_nodes():
            if isinstance(st, ast.Assign) and len(st.targets) == 1 and isinstance(st.targets[0], ast.Name) and st.targets[0].id == var:
                c = p.try_const(f, st.value)
                facts = {fs: pol for fs, pol in shape.implied(st, pm)}
                split[c if isinstance(c, int) and not isinstance(c, bool) else src_of(st.value)] = facts
        as_ifexp = fq.endswith('indent_format.element') and len(defs) == 2 and set(split) == {0, 1} \
            and split[1] == {'state.parent': True} and split[0] == {'state.parent': False}
        if var in t:
            res.bad(F('INF-LEVEL', f, outer[0], '%s = %s' % (var, ' | '.join(src_of(d) for d in defs if d is not None)),
                      'what an element adds to the indentation level must be %s, independent of should_format(): an element that stays on its parent\'s line is still an open element for every line inside it' % want[0]))
        elif (len(defs) == 1 and defs[0] is not None and src_of(defs[0]) in want) or as_ifexp:
            res.ok('%s: level += %s = %s' % (f.short, var, want[0]))
        elif len(defs) == 1 and defs[0] is not None and isinstance(p.try_const(f, defs[0]), int):
            res.bad(F('INF-LEVEL', f, outer[0], '%s = %s' % (var, src_of(defs[0])),
                      'what an element adds to the indentation level must be %s, not a constant' % want[0]))
        else:
            res.undecided('%s: %s = %s' % (f.short, var, ' | '.join(src_of(d) for d in defs if d is not None)), 'expected %s' % want[0])
    # every line break is indented by the *absolute* level: push_newline receives True (= the current level), or an expression in
    # <stream>.level; a local offset (what this element adds: 0 / 1) is not a level
    from ..linear import linear as _lin
    from .. import shape as _shape
    for fq in ('markup.format.html.element', 'markup.format.indent_format.element', 'markup.format.indent_format.push_value', 'stylesheet.format.stringify'):
        try:
            g = p.func(fq)
        except AnalysisError:
            continue
        gdefs = _shape.defs_of(g.node, params=g.params)
        for c in g.body_nodes():
            if not (isinstance(c, ast.Call) and isinstance(c.func, ast.Attribute) and c.func.attr == 'push_newline' and c.args):
                continue
            a = _shape.expand(c.args[0], gdefs)
            cv = p.try_const(g, a)
            mentions_level = any(isinstance(x, ast.Attribute) and x.attr == 'level' for x in ast.walk(a))
            if cv is True or isinstance(a, (ast.Compare, ast.BoolOp)) or (isinstance(a, ast.Name) and a.id in g.params):
                res.ok('%s: %s (current level)' % (g.short, src_of(c)))
            elif mentions_level:
                res.ok('%s: %s (absolute level)' % (g.short, src_of(c)))
            elif isinstance(cv, int) and not isinstance(cv, bool):
                res.bad(F('INF-LEVEL', g, c, src_of(c), 'the line is indented by the constant %d instead of the current nesting level' % cv))
            elif isinstance(a, ast.Call) and isinstance(a.func, ast.Name) and a.func.id == 'get_indent' or (isinstance(a, ast.IfExp) and all(isinstance(p.try_const(g, x), int) for x in (a.body, a.orelse))):
                res.bad(F('INF-LEVEL', g, c, src_of(c), 'the line is indented by what this element adds to the level (`%s`, 0 or 1), not by the absolute level: from depth 2 on the line is under-indented' % src_of(a)))
            else:
                res.undecided('%s: %s' % (g.short, src_of(c)), 'push_newline(True) or push_newline(<stream>.level ..) expected')
    from .tablecheck import check_table
    check_table(p, res, 'INF-LEVEL', 'markup.format.html.get_indent', 'get_indent must be 0 for top level / snippet parent / formatSkip parent and 1 otherwise')
    # closing line: after the last formatted child the parent's closing tag goes on its own line one level up
    from .. import shape
    from ..linear import linear
    el = p.func('markup.format.html.element')
    V = shape.View(p, el, inline=False)
    cands = [c for c in V.calls('push_newline') if c.args and isinstance(V.xe(c.args[0]), ast.BinOp)]
    if len(cands) == 1:
        c = cands[0]
        facts = {k: v for k, v in V.facts(c, expand_defs=False)}
        arg = V.xe(c.args[0])
        lin = None
        off = None
        if isinstance(arg, ast.BinOp) and isinstance(arg.op, ast.Sub):
            lin = linear(arg.left)
            off = src_of(arg.right)
        from ..dtable import canon_atom
        cfacts = {}
        for k, v in facts.items():
            ck, cv = canon_atom(k, v)
            cfacts[ck] = cv
        last_key, last_pol = canon_atom('index == len(items) - 1', True)
        is_last = cfacts.get(last_key) is last_pol
        facts = dict(facts)
        facts['index == len(items) - 1'] = True if is_last else (None if not any('index' in k and 'len(items)' in k for k in facts) else facts.get('index == len(items) - 1', False))
        guard_ok = any(v and 'should_format(' in V.x(ast.parse(k, mode='eval').body) for k, v in facts.items() if k != 'index == len(items) - 1') and is_last and facts.get('state.parent') is True
        if lin == {'out.level': 1} and off in ('(0 if is_snippet(state.parent) else 1)', '0 if is_snippet(state.parent) else 1') and guard_ok:
            res.ok('closing tag line: newline at level - 1 after the last formatted child')
        elif lin == {'out.level': 1} and guard_ok is False and not is_last and not any('index' in k and 'items' in k for k in facts if k != 'index == len(items) - 1'):
            res.bad(F('INF-LEVEL', el, c, src_of(c), "the parent's closing line is emitted after a child that is not the last one"))
        else:
            res.undecided('closing line of the last child: %s under %s' % (src_of(c), sorted(facts)), 'push_newline(level - (0 if snippet parent else 1)) after the last formatted child of a parent')
    else:
        res.undecided('closing line of the last child', 'one push_newline(level - offset) expected')
    res.require_floor(4)


@rule('INF-COMMENT', 'D', 'comment options reach only the comment emitter')
def inf_comment(p, res):
    keys = {'comment.enabled', 'comment.trigger', 'comment.before', 'comment.after'}
    readers = set()
    for f in p.funcs.values():
        for n in f.body_nodes():
            if is_option_read(p, f, n, keys):
                readers.add(f.short)
                if f.short != 'markup.format.comment.CommentWalkState.__init__':
                    res.bad(F('INF-COMMENT', f, n, src_of(n), 'comment option read outside CommentWalkState: comments could influence the element output'))
                else:
                    res.ok('%s reads %s' % (f.short, src_of(n)))
    # the state fields are read only inside comment.py
    for f in p.funcs.values():
        if f.module.name == 'emmet.markup.format.comment':
            continue
        for n in f.body_nodes():
            if isinstance(n, ast.Attribute) and n.attr in ('trigger', 'enabled') and 'comment' in src_of(n.value):
                res.bad(F('INF-COMMENT', f, n, src_of(n), 'comment state consulted outside the comment module'))
    from .tablecheck import check_table
    for fq in ('markup.format.comment.comment_node_before', 'markup.format.comment.comment_node_after'):
        check_table(p, res, 'INF-COMMENT', fq, 'comment emission must be exactly output(..) guarded by should_comment(node, state)')
    check_table(p, res, 'INF-COMMENT', 'markup.format.comment.should_comment', 'a comment is written for enabled comments with triggers on a named node that has a trigger attribute')
    # output(): reads attributes, never writes the node
    out = p.func('markup.format.comment.output')
    for n in out.body_nodes():
        if isinstance(n, (ast.Assign, ast.AugAssign)):
            for tg in (n.targets if isinstance(n, ast.Assign) else [n.target]):
                if isinstance(tg, (ast.Attribute,)) and src_of(tg).startswith('node.'):
                    res.bad(F('INF-COMMENT', out, n, src_of(n), 'comment output writes into the node it comments'))
    res.require_floor(7)


@rule('INF-SELFCLOSE', 'D', 'the self-closing style is consulted only where the self-close marker is produced')
def inf_selfclose(p, res):
    allowed = {'output_stream.self_close': 'produces the marker', 'markup.format.pug': 'pug self-close marker of the profile'}
    for f in p.funcs.values():
        for n in f.body_nodes():
            if is_option_read(p, f, n, {'output.selfClosingStyle'}):
                if f.short in allowed:
                    res.ok('%s reads output.selfClosingStyle (%s)' % (f.short, allowed[f.short]))
                else:
                    res.bad(F('INF-SELFCLOSE', f, n, src_of(p.enclosing_stmt(f, n)).split('\n')[0],
                              'output.selfClosingStyle influences more than the characters before ">": here it decides whether an empty boolean attribute prints =""',
                              failing_input="expand('input[disabled.]', {'options': {'output.compactBoolean': True, 'output.selfClosingStyle': 'xml'}})"))
    # the marker is used on the self-close edge only
    users = []
    for f in p.funcs.values():
        for n in f.body_nodes():
            if isinstance(n, ast.Call) and isinstance(n.func, ast.Name) and n.func.id == 'self_close':
                users.append((f, n))
    from .path import _const_prefix
    for f, n in users:
        st = p.enclosing_stmt(f, n)
        pm = p.parents(f)
        # the marker is a piece of a string that ends in ">" and is pushed to the output: '%s>' % self_close(config)
        emitted = False
        if isinstance(st, ast.Expr) and isinstance(st.value, ast.Call) and isinstance(st.value.func, ast.Attribute) and st.value.func.attr in ('push', 'push_string') \
                and len(st.value.args) == 1 and f.module.name.startswith('emmet.markup.format'):
            ps = _const_prefix(p, f, st.value.args[0])
            emitted = ps is not None and ps[1].endswith('>') and any(x is n for x in ast.walk(st.value.args[0]))
        # positively wrong: the marker decides something (it is tested or compared)
        tested = False
        x = n
        while x is not None and x is not st:
            par = pm.get(x)
            if isinstance(par, (ast.Compare, ast.BoolOp)) or (isinstance(par, (ast.If, ast.IfExp, ast.While)) and par.test is x) \
                    or (isinstance(par, ast.UnaryOp) and isinstance(par.op, ast.Not)):
                tested = True
            x = par
        if emitted and not tested:
            res.ok('%s: self_close(config) is pushed as the marker before ">"' % f.short)
        elif tested:
            res.bad(F('INF-SELFCLOSE', f, n, src_of(st), 'self_close() used outside the self-closing tag edge: the marker is tested, so the style decides more than the characters before ">"'))
        else:
            res.undecided('%s: %s' % (f.short, src_of(st).split('\n')[0][:120]), 'the self-close marker is used in a shape that is not the emission of "<marker>>"')
    res.require_floor(3)
