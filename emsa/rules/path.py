"""PATH-* : typestate over all paths of a function (level pairing, stack
pairing, emission order and completeness, stop conditions of scan callbacks)."""
import ast
import re

from . import rule
from ..core import AnalysisError, src_of, Class
from ..report import Finding
from ..paths import PathClient, explore
from .. import callgraph


def F(rule_name, f, node, construct, message, **kw):
    return Finding(rule_name, f.module.relpath, f.short, construct, message, getattr(node, 'lineno', 0), **kw)


def emit(res, rname, f, client):
    for node, construct, message, s in client.violations:
        res.bad(F(rname, f, node, construct, message, details=['path : ' + s.show_trace()]))


# --------------------------------------------------------------- PATH-LEVEL
class LevelClient(PathClient):
    """stack of the expressions added to <out>.level; each subtraction must undo the latest addition"""

    def on_aug(self, it, s, stmt):
        t = stmt.target
        if isinstance(t, ast.Attribute) and t.attr == 'level' and isinstance(stmt.op, (ast.Add, ast.Sub)):
            e = src_of(stmt.value)
            st = self.auto(s)
            self.n_events += 1
            if isinstance(stmt.op, ast.Add):
                if len(st) > 4:
                    raise AnalysisError('PATH-LEVEL: level stack deeper than 4 in %s' % self.f.short)
                return self.set_auto(s, st + (e,))
            if not st:
                self.bad(stmt, src_of(stmt), 'level is decremented without a matching increment on this path', s)
                return s
            if st[-1] != e:
                self.bad(stmt, src_of(stmt), 'level is decremented by `%s` but the innermost open increment was `%s`' % (e, st[-1]), s)
            return self.set_auto(s, st[:-1])
        return s

    def on_store(self, it, s, target, value, stmt):
        if isinstance(target, ast.Attribute) and target.attr == 'level':
            self.bad(stmt, src_of(stmt), 'level is overwritten instead of being incremented/decremented in pairs', s)
        if isinstance(target, ast.Name):
            st = self.auto(s)
            pat = re.compile(r'\b%s\b' % re.escape(target.id))
            if any(pat.search(e) for e in st):
                self.bad(stmt, src_of(stmt), 'variable `%s` is re-assigned while an increment by it is still open' % target.id, s)
        return s

    def on_exit(self, it, s, value, stmt):
        st = self.auto(s)
        if st:
            self.bad(stmt or self.f.node, 'exit of %s with level still raised by %s' % (self.f.name, ' + '.join(st)),
                     'a path leaves the function with the indentation level still raised: every following line is indented too deep', s)
        return s


@rule('PATH-LEVEL', 'D', 'every change of the indentation level is undone on every path before the function returns')
def path_level(p, res):
    n = 0
    for f in p.funcs.values():
        has = any(isinstance(x, ast.AugAssign) and isinstance(x.target, ast.Attribute) and x.target.attr == 'level' for x in f.body_nodes())
        stores = any(isinstance(x, ast.Assign) and any(isinstance(t, ast.Attribute) and t.attr == 'level' for t in x.targets) for x in f.body_nodes())
        if not (has or stores) or f.name == '__init__':
            continue
        c = LevelClient(p, f)
        fl = explore(p, f, c)
        emit(res, 'PATH-LEVEL', f, c)
        npaths = len(fl.ret)
        n += 1
        if not c.violations:
            res.ok('%s: %d exits, level balanced on all' % (f.short, npaths), n=max(1, min(npaths, 4)))
        res.stats[f.short] = {'exits': npaths, 'level_events': c.n_events}
    # the level-neutral callees: who else writes level?  (census)
    if n < 3:
        raise AnalysisError('PATH-LEVEL: only %d functions change the level' % n)
    res.require_floor(8)


# --------------------------------------------------------------- PATH-STACK
class StackClient(PathClient):
    def __init__(self, p, f, list_src):
        super().__init__(p, f)
        self.list_src = list_src

    def on_call(self, it, s, call):
        fn = call.func
        if isinstance(fn, ast.Attribute) and src_of(fn.value) == self.list_src:
            d = self.auto(s, 0)
            self.n_events += 1
            if fn.attr == 'append':
                if d >= 3:
                    return s         # saturate (loops that push repeatedly are not the pairing idiom)
                return self.set_auto(s, d + 1)
            if fn.attr == 'pop':
                if d == 0:
                    self.bad(call, src_of(call), '%s is popped without a matching push on this path' % self.list_src, s)
                    return s
                return self.set_auto(s, d - 1)
            if fn.attr in ('clear', 'remove', 'insert', 'extend', 'reverse', 'sort'):
                self.bad(call, src_of(call), 'context stack %s is modified by .%s(): the entries of enclosing activations are lost/disturbed' % (self.list_src, fn.attr), s)
        return s

    def on_store(self, it, s, target, value, stmt):
        if src_of(target) == self.list_src and self.auto(s, 0) > 0:
            self.bad(stmt, src_of(stmt), 'context stack %s is re-bound while an entry is pushed' % self.list_src, s)
        return s

    def on_exit(self, it, s, value, stmt):
        d = self.auto(s, 0)
        if d:
            self.bad(stmt or self.f.node, 'exit of %s with %s still holding its entry' % (self.f.name, self.list_src),
                     'a path returns without popping what it pushed on %s: later lookups see a stale context' % self.list_src, s)
        return s


STACK_SITES = [
    ('abbreviation.convert.convert_statement', 'state.repeaters'),
    ('markup.snippets.resolve_snippets.resolve', 'stack'),
    ('markup.utils.walk.callback', 'ancestors'),
    ('markup.format.walk.walk.walk_next', 'state.ancestors'),
]


@rule('PATH-STACK', 'D', 'context stacks (repeaters, snippet cycle guard, ancestors) are pushed and popped in pairs on every path')
def path_stack(p, res):
    def by_role(fq, lst):
        """the reviewed function is gone (a closure turned into a method / a module-level function): the one function of the
        same module that pushes and pops a stack whose last name component is the reviewed one takes its place"""
        mod = fq.rsplit('.', 1)[0]
        while mod and ('emmet.' + mod) not in p.modules:
            mod = mod.rsplit('.', 1)[0] if '.' in mod else ''
        last = lst.split('.')[-1]
        cands = []
        for g in p.funcs.values():
            if not g.module.name == 'emmet.' + mod:
                continue
            pushed = {src_of(n.func.value) for n in g.body_nodes() if isinstance(n, ast.Call) and isinstance(n.func, ast.Attribute) and n.func.attr == 'append'
                      and src_of(n.func.value).split('.')[-1] == last}
            popped = {src_of(n.func.value) for n in g.body_nodes() if isinstance(n, ast.Call) and isinstance(n.func, ast.Attribute) and n.func.attr == 'pop'
                      and src_of(n.func.value).split('.')[-1] == last}
            for x in sorted(pushed & popped):
                cands.append((g, x))
        return cands[0] if len(cands) == 1 else None
    for fq, lst in STACK_SITES:
        try:
            f = p.func(fq)
        except AnalysisError:
            alt = by_role(fq, lst)
            if alt is None:
                raise
            f, lst = alt
            res.notes.append('%s is gone; %s pushes and pops %s and is analysed in its place' % (fq, f.short, lst))
        c = StackClient(p, f, lst)
        fl = explore(p, f, c)
        if c.n_events < 2:
            raise AnalysisError('PATH-STACK: %s no longer pushes/pops %s' % (fq, lst))
        emit(res, 'PATH-STACK', f, c)
        if not c.violations:
            res.ok('%s: %s push/pop paired on %d exits' % (f.short, lst, len(fl.ret)), n=2)
    # recursion guard of resolve(): membership test, push, recursive walk, pop in this order (COV-MERGE compares the whole decision table of
    # resolve() with the reviewed one); the stack is local to one resolve_snippets call
    rs = p.func('markup.snippets.resolve_snippets')
    r = rs.nested.get('resolve')
    if r is None:
        res.undecided('resolve_snippets: cycle-guard stack', 'resolve() is no longer a closure of resolve_snippets: where the stack is created is not decided')
        res.require_floor(8)
        return
    inits = [n for n in rs.node.body if isinstance(n, ast.Assign) and src_of(n.targets[0]) == 'stack']
    if len(inits) == 1 and src_of(inits[0].value) in ('[]', 'list()'):
        res.ok('stack is a fresh list per resolve_snippets call')
    elif not inits and 'stack' not in rs.locals and p.resolve_name(rs, 'stack') is not None and p.resolve_name(rs, 'stack').kind == 'const':
        res.bad(F('PATH-STACK', rs, rs.node, 'stack', 'the cycle-guard stack must be created per resolve_snippets call (it is shared between calls now)'))
    else:
        res.undecided('stack = ...', 'fresh list per resolve_snippets call')
    # the repeater read by the numbering visitor is the top of that stack
    res.require_floor(8)


# ---------------------------------------------------------------- PATH-EMIT
class EmitClient(PathClient):
    """records the sequence of emission events of a formatter function"""

    def __init__(self, p, f, classify):
        super().__init__(p, f)
        self.classify = classify
        self.exits = []

    def push_event(self, s, ev, node):
        seq = self.auto(s)
        self.n_events += 1
        if seq and seq[-1] == ev and ev in ('ATTR', 'CHILD', 'NL', 'TEXTLINE'):
            return s
        if len(seq) > 24:
            raise AnalysisError('PATH-EMIT: event sequence too long in %s' % self.f.short)
        return self.set_auto(s, seq + (ev,))

    def on_call(self, it, s, call):
        ev = self.classify(self, s, call)
        if not ev:
            # a helper that emits but could not be inlined (returns a value, recursion, too long): what it emits is not seen
            tgt = self.p.resolve_call(self.f, call)
            if isinstance(tgt, list) and len(tgt) == 1 and tgt[0] is not self.f and tgt[0].module is self.f.module and tgt[0].cls is None \
                    and any(isinstance(n, ast.Call) and self.classify(self, None, n) for n in tgt[0].body_nodes()):
                ev = 'HELPER?'
        if ev:
            for e in (ev if isinstance(ev, (list, tuple)) else [ev]):
                s = self.push_event(s, e, call)
        return s

    def on_exit(self, it, s, value, stmt):
        self.exits.append((self.auto(s), s))
        return s


def emitting_helper(classify, client):
    """selector for norm.inline_helpers: inline exactly the same-module helpers that are not events themselves but
    contain events (so that `extract helper` refactorings of an emission sequence do not change what is seen)"""
    def sel(call, g):
        if classify(client, None, call):
            return False
        for n in g.body_nodes():
            if isinstance(n, ast.Call) and classify(client, None, n):
                return True
            if isinstance(n, ast.AugAssign) and isinstance(n.target, ast.Attribute) and n.target.attr == 'level':
                return True
        return False
    return sel


def _const_prefix(p, f, expr):
    """constant prefix/suffix of a string expression: ('<', '') for '<%s' % name"""
    if isinstance(expr, ast.Constant) and isinstance(expr.value, str):
        return expr.value, expr.value
    if isinstance(expr, ast.BinOp) and isinstance(expr.op, ast.Mod) and isinstance(expr.left, ast.Constant) and isinstance(expr.left.value, str):
        fmt = expr.left.value
        return fmt.split('%')[0], fmt.rsplit('%', 1)[-1][1:] if '%' in fmt else fmt
    if isinstance(expr, ast.JoinedStr):
        pre = expr.values[0].value if expr.values and isinstance(expr.values[0], ast.Constant) else ''
        suf = expr.values[-1].value if expr.values and isinstance(expr.values[-1], ast.Constant) else ''
        return pre, suf
    if isinstance(expr, ast.BinOp) and isinstance(expr.op, ast.Add):
        a = _const_prefix(p, f, expr.left)
        b = _const_prefix(p, f, expr.right)
        return (a[0] if a else ''), (b[1] if b else '')
    return None


def html_classify(c, s, call):
    fn = call.func
    name = fn.attr if isinstance(fn, ast.Attribute) else (fn.id if isinstance(fn, ast.Name) else None)
    if name in ('push_string', 'push') and call.args:
        ps = _const_prefix(c.p, c.f, call.args[0])
        if ps is None:
            return 'STR?'
        pre, suf = ps
        if pre.startswith('</'):
            return 'CLOSE'
        if pre.startswith('<'):
            return 'OPEN'
        if any(isinstance(x, ast.Call) and isinstance(x.func, ast.Name) and x.func.id == 'self_close' for x in ast.walk(call.args[0])) and suf.endswith('>'):
            return 'SELFCLOSE'
        if suf.endswith('>') or pre == '>':
            return 'GT'
        return 'STR?'
    if name == 'push_attribute':
        return 'ATTR'
    if name == 'push_tokens' and call.args:
        a = src_of(call.args[0])
        b = c.binding(s, a) if isinstance(call.args[0], ast.Name) else None
        if b is not None and b[0] == 'alias':
            a = b[1]            # a local that stands for node.value / caret on this path
        if a == 'node.value':
            return 'VALUE'
        if a == 'caret':
            return 'CARET'
        return 'TOKENS?'
    if name == '_next' and call.args and src_of(call.args[0]) == 'node.children':
        return 'CHILDREN'
    if name == 'push_snippet':
        return 'SNIPPET'
    if name == 'comment_node_before':
        return 'CBEFORE'
    if name == 'comment_node_after':
        return 'CAFTER'
    return None


@rule('PATH-EMIT-HTML', 'N', 'html element(): open tag, attributes, then self-close only for empty elements, else text before children, caret only in empty leaves, close tag')
def path_emit_html(p, res):
    f = p.func('markup.format.html.element')
    c = EmitClient(p, f, html_classify)

    # content checks at event time
    orig = c.on_call

    def on_call(it, s, call):
        ev = html_classify(c, s, call)
        if ev == 'SELFCLOSE':
            for cond in ('node.children', 'node.value'):
                if c.cond_value(s, cond) is not False:
                    c.bad(call, src_of(call) + '  [with %s possibly non-empty]' % cond,
                          'the element is emitted as a self-closing tag on a path where %s may be non-empty: that content is dropped from the output' % cond, s)
        if ev == 'CARET':
            for cond in ('node.children', 'node.value'):
                if c.cond_value(s, cond) is not False:
                    c.bad(call, src_of(call), 'the caret tabstop is emitted on a path where %s may be non-empty' % cond, s)
        return orig(it, s, call)
    c.on_call = on_call
    fl = explore(p, f, c, normal=emitting_helper(html_classify, c))
    emit(res, 'PATH-EMIT-HTML', f, c)
    # the caret is only emitted where node.children is known to be empty (checked at the event), so its order relative to the
    # (then empty) children is immaterial
    pat = re.compile(r'^(CBEFORE )?OPEN( ATTR)? (SELFCLOSE|GT SNIPPET CLOSE( CAFTER)?|GT SNIPPET( VALUE)? (CHILDREN( CARET)?|CARET CHILDREN) CLOSE( CAFTER)?)$')
    n_open = 0
    seen_flat = set()
    for seq, s in c.exits:
        if 'OPEN' not in seq:
            # text-only snippet node: value before children
            flat = ' '.join(seq)
            if flat not in ('', 'SNIPPET', 'SNIPPET VALUE CHILDREN'):
                c.violations.clear()
                res.bad(F('PATH-EMIT-HTML', f, f.node, 'nameless node emits: ' + flat, 'a text-only node emits its text, then its children', details=['path : ' + s.show_trace()]))
            continue
        n_open += 1
        flat = ' '.join(seq)
        if not pat.match(flat) and any(e.endswith('?') for e in seq):
            res.undecided('emission order: ' + flat, 'an emission whose content cannot be classified (a computed string or token list)')
        elif not pat.match(flat):
            res.bad(F('PATH-EMIT-HTML', f, f.node, 'emission order: ' + flat,
                      'every path must emit  <name attrs> then either the self-close marker, or > [snippet | text? children caret?] </name>',
                      details=['path : ' + s.show_trace()]))
        else:
            # VALUE present exactly when node.value may be truthy
            if any(e.endswith('?') for e in seq):
                res.undecided('emission order: ' + flat, 'an emission whose content cannot be classified (a helper that is not inlined, a computed token list)')
            elif 'SELFCLOSE' not in seq and 'VALUE' not in seq and c.cond_value(s, 'node.value') is not False and seq.count('SNIPPET') and 'CHILDREN' in seq:
                res.bad(F('PATH-EMIT-HTML', f, f.node, 'text skipped: ' + flat, 'the element text is not emitted although node.value may be non-empty', details=['path : ' + s.show_trace()]))
            elif flat not in seen_flat:
                seen_flat.add(flat)
                res.ok(flat)
    # the caret is not forgotten: an element with neither text nor children that is not self-closed gets it
    for seq, s_ in c.exits:
        if 'OPEN' in seq and 'CHILDREN' in seq and 'CARET' not in seq and 'VALUE' not in seq and 'SELFCLOSE' not in seq and not any(e.endswith('?') for e in seq) \
                and c.cond_value(s_, 'node.value') is False and c.cond_value(s_, 'node.children') is False:
            res.bad(F('PATH-EMIT-HTML', f, f.node, 'no caret: ' + ' '.join(seq), 'an element without text and children is printed without the caret tabstop', details=['path : ' + s_.show_trace()]))
    # CLOSE prints the same name as OPEN, and that name went through tag_name()
    from .. import shape
    from ..shape import strparts
    V = shape.View(p, f, inline=False)
    opens = [n for n in V.nodes if isinstance(n, ast.Call) and html_classify(c, None, n) == 'OPEN']
    closes = [n for n in V.nodes if isinstance(n, ast.Call) and html_classify(c, None, n) == 'CLOSE']
    if len(opens) == 1 and len(closes) == 1:
        po, pc = strparts(V.xe(opens[0].args[0])), strparts(V.xe(closes[0].args[0]))
        if po is not None and pc is not None and len(po) == 2 and len(pc) == 3 and po[0] == '<' and pc[0] == '</' and pc[2] == '>' and po[1] == pc[1]:
            nm = po[1][1]
            if nm.startswith('tag_name(node.name, '):
                res.ok('open and close tag print the same tag_name(node.name, config)')
            elif nm == 'node.name':
                res.bad(F('PATH-EMIT-HTML', f, opens[0], src_of(opens[0]), 'the tag name must go through tag_name() (output.tagCase)'))
            else:
                res.undecided('tag name %s' % nm, 'tag_name(node.name, config) expected')
        elif po is not None and pc is not None and len(po) == 2 and len(pc) == 3 and po[1] != pc[1]:
            res.bad(F('PATH-EMIT-HTML', f, closes[0], '%s / %s' % (src_of(opens[0]), src_of(closes[0])), 'open and close tag must print the same name'))
        else:
            res.undecided('open/close tag strings', "'<' name ... '</' name '>'")
    else:
        res.undecided('open/close tag', 'one open and one close emission expected')
    # attributes: every attribute that should be output is pushed, in list order
    loops = [n for n in V.nodes if isinstance(n, ast.For) and any(isinstance(x, ast.Call) and html_classify(c, None, x) == 'ATTR' for x in ast.walk(n))]
    if len(loops) == 1 and isinstance(loops[0].target, ast.Name):
        lp = loops[0]
        av = lp.target.id
        calls = [x for x in ast.walk(lp) if isinstance(x, ast.Call) and html_classify(c, None, x) == 'ATTR']
        facts = V.facts(calls[0], expand_defs=False) if len(calls) == 1 else set()
        inner = {(a_, b_) for a_, b_ in facts if re.search(r'(?<![\w.])%s(?!\w)' % re.escape(av), a_)}
        if src_of(lp.iter) == 'node.attributes' and len(calls) == 1 and src_of(calls[0].args[0]) == av and inner == {('should_output_attribute(%s)' % av, True)} \
                and not any(isinstance(x, (ast.Break, ast.Continue, ast.Return)) for x in ast.walk(lp)):
            res.ok('attributes pushed in list order behind should_output_attribute')
        elif isinstance(lp.iter, ast.Call) and isinstance(lp.iter.func, ast.Name) and lp.iter.func.id == 'filter' and len(lp.iter.args) == 2 \
                and src_of(lp.iter.args[0]) == 'should_output_attribute' and src_of(lp.iter.args[1]) in ('node.attributes', 'node.attributes or ()', 'node.attributes or []') \
                and len(calls) == 1 and src_of(calls[0].args[0]) == av and not inner and not any(isinstance(x, (ast.Break, ast.Continue, ast.Return)) for x in ast.walk(lp)):
            res.ok('attributes pushed in list order behind filter(should_output_attribute, ..)')
        elif src_of(lp.iter) != 'node.attributes' and 'node.attributes' in src_of(lp.iter) and (
                (isinstance(lp.iter, ast.Call) and isinstance(lp.iter.func, ast.Name) and lp.iter.func.id in ('reversed', 'sorted', 'set'))
                or (isinstance(lp.iter, ast.Subscript) and isinstance(lp.iter.slice, ast.Slice))):
            res.bad(F('PATH-EMIT-HTML', f, lp, 'for %s in %s' % (av, src_of(lp.iter)), 'every attribute must be pushed in list order (this iterates %s)' % src_of(lp.iter)))
        elif src_of(lp.iter) == 'node.attributes' and len(calls) == 1 and not inner:
            res.bad(F('PATH-EMIT-HTML', f, calls[0], src_of(calls[0]), 'attributes must be filtered by should_output_attribute (implied attributes without value are not printed)'))
        else:
            res.undecided('attribute loop', 'for attr in node.attributes: if should_output_attribute(attr): push_attribute(attr, state)')
    else:
        res.undecided('attribute loop', 'one loop pushing the attributes expected')
    res.stats['exits'] = len(c.exits)
    res.stats['exits_with_open_tag'] = n_open
    res.require_floor(8)


def indent_classify(c, s, call):
    fn = call.func
    name = fn.attr if isinstance(fn, ast.Attribute) else (fn.id if isinstance(fn, ast.Name) else None)
    if name == 'push_newline':
        return 'NL'
    if name == 'push_string' and call.args:
        a = src_of(call.args[0])
        if isinstance(call.args[0], ast.Name):
            vals = [v for v in c.p.local_assignments(c.f, call.args[0].id) if v is not None]
            if len(vals) == 1:
                a = src_of(vals[0])
        if 'node.name' in a:
            return 'NAME'
        if 'selfClose' in a:
            return 'SELFCLOSE'
        return 'STR?'
    if name == 'push_primary_attributes':
        return 'PRIMARY'
    if name == 'push_secondary_attributes':
        return 'SECONDARY'
    if name == 'push_value':
        return 'VALUE'
    if name == 'walk_next':
        return 'CHILD'
    return None


@rule('PATH-EMIT-INDENT', 'N', 'indent element(): newline, name, primary, secondary attributes, then self-close only for empty elements, else text then children')
def path_emit_indent(p, res):
    f = p.func('markup.format.indent_format.element')
    c = EmitClient(p, f, indent_classify)
    orig = c.on_call

    def on_call(it, s, call):
        ev = indent_classify(c, s, call)
        if ev == 'SELFCLOSE':
            for cond in ('node.children', 'node.value'):
                if c.cond_value(s, cond) is not False:
                    c.bad(call, src_of(call) + '  [with %s possibly non-empty]' % cond,
                          'the self-closing branch is taken on a path where %s may be non-empty: that content is dropped (the HTML formatter prints it)' % cond, s)
        return orig(it, s, call)
    c.on_call = on_call
    explore(p, f, c, normal=emitting_helper(indent_classify, c))
    emit(res, 'PATH-EMIT-INDENT', f, c)
    pat = re.compile(r'^(NL )?(NAME )?PRIMARY SECONDARY( SELFCLOSE| VALUE( CHILD)?)?$')
    seen_flat = set()
    for seq, s in c.exits:
        flat = ' '.join(seq)
        if not pat.match(flat):
            res.bad(F('PATH-EMIT-INDENT', f, f.node, 'emission order: ' + flat,
                      'every path must emit newline? name? primary secondary then (self-close marker | text children)', details=['path : ' + s.show_trace()]))
        else:
            if 'SELFCLOSE' not in seq and 'VALUE' not in seq and c.cond_value(s, 'node.self_closing') is not True:
                res.bad(F('PATH-EMIT-INDENT', f, f.node, 'content skipped: ' + flat, 'neither the self-close marker nor the content was emitted', details=['path : ' + s.show_trace()]))
            elif flat not in seen_flat:
                seen_flat.add(flat)
                res.ok(flat)
    # the element name is omitted exactly for div elements that have an id or class (the first list of collect_attributes)
    from .. import shape
    from ..pattern import match_expr
    V = shape.View(p, f, inline=False)
    prim = sec = None
    for n in V.nodes:
        if isinstance(n, ast.Assign) and isinstance(n.targets[0], ast.Tuple) and len(n.targets[0].elts) == 2 and isinstance(n.value, ast.Call) \
                and src_of(n.value.func) == 'collect_attributes' and all(isinstance(t, ast.Name) for t in n.targets[0].elts):
            prim, sec = n.targets[0].elts[0].id, n.targets[0].elts[1].id
    if prim is None:
        res.undecided('primary, secondary = collect_attributes(node)', 'role of the attribute lists')
    else:
        def truth(s_, src):
            for k, v in s_.facts.items():
                if k[0] == 'cond' and k[1] in (src, 'bool(%s)' % src, 'len(%s) > 0' % src, 'len(%s)' % src):
                    return v
            return None
        n_named = n_omit = 0
        for seq, s_ in c.exits:
            named = 'NAME' in seq
            has_name = truth(s_, 'node.name')
            isdiv = c.cond_value(s_, "node.name == 'div'")
            if isdiv is None and c.cond_value(s_, "node.name != 'div'") is not None:
                isdiv = not c.cond_value(s_, "node.name != 'div'")
            hp = truth(s_, prim)
            if named:
                n_named += 1
                if has_name is not True:
                    res.undecided('name printed [%s]' % s_.show_trace(), 'node.name not known to be set')
            elif has_name is False:
                pass
            elif isdiv is True and hp is True:
                n_omit += 1
            elif isdiv is True and hp is None:
                res.bad(F('PATH-EMIT-INDENT', f, f.node, 'name omitted: ' + ' '.join(seq), 'the name `div` is dropped on a path that does not establish the element has an id or class: e.g. div[title] would lose its name',
                          details=['path : ' + s_.show_trace()]))
            elif isdiv is False or (isdiv is None and has_name is True):
                res.bad(F('PATH-EMIT-INDENT', f, f.node, 'name omitted: ' + ' '.join(seq), 'an element other than div loses its name', details=['path : ' + s_.show_trace()]))
        if n_named and n_omit:
            res.ok('name omitted only for div with id/class')
        names = [n for n in V.nodes if isinstance(n, ast.Call) and indent_classify(c, None, n) == 'NAME']
        if len(names) == 1:
            parts = shape.strparts(V.xe(names[0].args[0]))
            if parts is not None and [x for x in parts if isinstance(x, tuple)] == [('x', "options.get('beforeName', '')"), ('x', 'node.name'), ('x', "options.get('afterName', '')")] \
                    or parts is not None and [x[1].replace('state.options', 'options') for x in parts if isinstance(x, tuple)] == ["options.get('beforeName', '')", 'node.name', "options.get('afterName', '')"]:
                res.ok('name printed between beforeName and afterName')
            else:
                res.undecided('name emission %s' % src_of(names[0]), 'beforeName + node.name + afterName')
        pats = ['push_secondary_attributes(list(filter(should_output_attribute, %s)), $s)' % sec, 'push_secondary_attributes([$a for $a in %s if should_output_attribute($a)], $s)' % sec]
        calls = V.calls('push_secondary_attributes')
        if len(calls) == 1 and any(match_expr(pt, V.xe(calls[0])) is not None for pt in pats):
            res.ok('secondary attributes filtered by should_output_attribute only')
        elif len(calls) == 1 and src_of(V.xe(calls[0].args[0])) == sec:
            res.bad(F('PATH-EMIT-INDENT', f, calls[0], src_of(calls[0]), 'secondary attributes must be filtered by should_output_attribute (implied attributes without value are not printed)'))
        else:
            res.undecided('secondary attribute filter', 'filter by should_output_attribute only')
    if V.find_stmt('for $i, $c in enumerate(node.children):\n    walk_next($c, $i, node.children)'):
        res.ok('children walked in order')
    else:
        loops = [n for n in V.nodes if isinstance(n, ast.For) and any(isinstance(x, ast.Call) and src_of(x.func) == 'walk_next' for x in ast.walk(n))]
        if len(loops) == 1 and isinstance(loops[0].iter, ast.Call) and src_of(loops[0].iter.func) in ('reversed', 'sorted'):
            res.bad(F('PATH-EMIT-INDENT', f, loops[0], src_of(loops[0].iter), 'children must be walked in list order'))
        else:
            res.undecided('children loop', 'for i, child in enumerate(node.children): walk_next(child, i, node.children)')
    res.stats['exits'] = len(c.exits)
    res.require_floor(6)


# ----------------------------------------------------------------- RNG-STOP
class StopClient(PathClient):
    """a scan callback may stop the scan (return False) only after it recorded a result or compared a token bound with the position"""

    def __init__(self, p, f, posnames, result_names):
        super().__init__(p, f)
        self.posnames = posnames
        self.result_names = result_names
        self.stops = 0

    def on_test(self, it, s, expr, truth):
        names = {n.id for n in ast.walk(expr) if isinstance(n, ast.Name)}
        if names & self.posnames and isinstance(expr, ast.Compare):
            return s.set(('auto',), self.auto(s) + ('POSCMP',)) if 'POSCMP' not in self.auto(s) else s
        return s

    def on_store(self, it, s, target, value, stmt):
        base = target
        while isinstance(base, (ast.Subscript, ast.Attribute)):
            base = base.value
        if isinstance(base, ast.Name) and base.id in self.result_names:
            return s.set(('auto',), self.auto(s) + ('RECORD',)) if 'RECORD' not in self.auto(s) else s
        return s

    def on_call(self, it, s, call):
        names = {n.id for a in call.args for n in ast.walk(a) if isinstance(n, ast.Name)}
        fn = call.func
        recv = fn.value.id if isinstance(fn, ast.Attribute) and isinstance(fn.value, ast.Name) else None
        if (recv in self.result_names and fn.attr in ('append', 'extend')) or (isinstance(fn, ast.Name) and fn.id in ('push', 'push_range') and names & self.result_names):
            return s.set(('auto',), self.auto(s) + ('RECORD',)) if 'RECORD' not in self.auto(s) else s
        return s

    def on_exit(self, it, s, value, stmt):
        if stmt is not None and value is not None and not isinstance(value, tuple) and isinstance(value, ast.Constant) and value.value is False:
            self.stops += 1
            a = self.auto(s)
            if 'POSCMP' not in a and 'RECORD' not in a:
                self.bad(stmt, 'return False', 'the scan is stopped on a path that neither recorded a result nor compared the token with the position: '
                                               'everything after this token is never seen', s)
        return s


def scan_callbacks(p):
    out = []
    cg = callgraph.get(p)
    for sq in ('css_matcher.scan.scan', 'html_matcher.scan.scan'):
        scan = p.func(sq)
        for f, call in cg.callers_of(scan):
            if len(call.args) >= 2:
                e = p.resolve_expr(f, call.args[1])
                if e is not None and e.kind == 'func':
                    out.append((f, e.obj, sq))
    return out


@rule('RNG-STOP', 'N', 'a scan callback stops the scan only after recording a result or comparing the token with the position')
def rng_stop(p, res):
    cbs = scan_callbacks(p)
    if len(cbs) < 12:
        raise AnalysisError('RNG-STOP: only %d scan callbacks found' % len(cbs))
    total = 0
    for outer, cb, sq in cbs:
        # result cells: locals of the outer function that are returned or whose element is returned
        result_names = set()
        for n in outer.body_nodes():
            if isinstance(n, ast.Return) and n.value is not None:
                for x in ast.walk(n.value):
                    if isinstance(x, ast.Name):
                        result_names.add(x.id)
        result_names |= {'result', 'tag', 'last', 'state'} & outer.locals
        posnames = {'pos'} & set(outer.params)
        c = StopClient(p, cb, posnames, result_names)
        explore(p, cb, c)
        total += c.stops
        emit(res, 'RNG-STOP', cb, c)
        if not c.violations:
            res.ok('%s: %d stop exits, each after a record or a position test' % (cb.short, c.stops), n=max(1, c.stops))
    res.stats['callbacks'] = len(cbs)
    res.stats['stop_exits'] = total
    res.require_floor(13)


# ------------------------------------------------------------ RNG-SCANSTATE
class ScanStateClient(PathClient):
    """predicate abstraction of css_matcher.scan.scan: each ScanState position field is abstracted to
    NEG (== -1, nothing recorded) or NN (>= 0).  Tests of the fields are evaluated exactly on the abstract value."""
    FIELDS = ('start', 'end', 'property_start', 'property_end', 'property_delimiter')

    def __init__(self, p, f, sv='state'):
        super().__init__(p, f)
        self.sv = sv
        self.notifies = {}
        self.sentinel_types = set()

    def fld(self, s, name):
        return s.get(('fld', name))

    def absval(self, s, e):
        """abstract value of an integer expression: 'NEG' | 'NN' | None"""
        if isinstance(e, ast.Attribute) and isinstance(e.value, ast.Name) and e.value.id == self.sv and e.attr in self.FIELDS:
            return self.fld(s, e.attr)
        c = self.p.try_const(self.f, e)
        if isinstance(c, int) and not isinstance(c, bool):
            return 'NEG' if c == -1 else ('NN' if c >= 0 else None)
        if isinstance(e, ast.Attribute) and isinstance(e.value, ast.Name) and e.value.id == 'scanner' and e.attr in ('pos', 'start'):
            return 'NN'
        if isinstance(e, ast.BinOp) and isinstance(e.op, ast.Add):
            a, b = self.absval(s, e.left), self.absval(s, e.right)
            cb = self.p.try_const(self.f, e.right)
            if a in ('NEG', 'NN') and isinstance(cb, int) and cb >= 1:
                return 'NN'
            if a == 'NN' and b == 'NN':
                return 'NN'
        if isinstance(e, ast.BinOp) and isinstance(e.op, ast.Sub):
            # scanner.pos - 1 right after a successful eat: >= 0
            if src_of(e) == 'scanner.pos - 1':
                return 'NN'
        return None

    def atom(self, it, s, expr):
        if isinstance(expr, ast.Compare) and len(expr.ops) == 1:
            a, b, op = expr.left, expr.comparators[0], expr.ops[0]
            for x, y in ((a, b), (b, a)):
                cy = self.p.try_const(self.f, y)
                if cy == -1 and isinstance(op, (ast.Eq, ast.NotEq)):
                    v = self.absval(s, x)
                    if v in ('NEG', 'NN'):
                        is_neg = v == 'NEG'
                        truth = is_neg if isinstance(op, ast.Eq) else not is_neg
                        return ([s], []) if truth else ([], [s])
                    if v is None and isinstance(x, ast.Attribute) and x.attr in self.FIELDS:
                        raise AnalysisError('RNG-SCANSTATE: field %s has no abstract value' % x.attr)
        if self.is_pure(expr) and not (isinstance(expr, ast.Name) and expr.id in ('block_end',)) and 'state.expression' not in src_of(expr):
            return [s], [s]
        return super().atom(it, s, expr)

    def on_store(self, it, s, target, value, stmt):
        if isinstance(target, ast.Attribute) and isinstance(target.value, ast.Name) and target.value.id == self.sv and target.attr in self.FIELDS:
            v = self.absval(s, value) if not isinstance(value, tuple) else None
            if v is None:
                raise AnalysisError('RNG-SCANSTATE: cannot abstract the value stored by `%s`' % src_of(stmt))
            if target.attr == 'property_start' and self.fld(s, 'property_start') == 'NN' and v is not None and not (isinstance(value, ast.Constant)):
                self.bad(stmt, src_of(stmt), 'a recorded property start is overwritten (first colon wins): with two single colons in one selector (a:hover, a:focus) the selector then starts mid-way', s)
            return s.set(('fld', target.attr), v)
        if isinstance(target, ast.Name) and target.id == self.sv:
            for fl in self.FIELDS:
                s = s.set(('fld', fl), 'NEG')
        return s

    def on_call(self, it, s, call):
        fn = call.func
        if isinstance(fn, ast.Attribute) and src_of(fn) == '%s.reset' % self.sv:
            for fl in self.FIELDS:
                s = s.set(('fld', fl), 'NEG')
            return s
        if isinstance(fn, ast.Name) and fn.id == 'notify':
            args = list(call.args)
            ttype = src_of(args[0]) if args else '?'
            delim = self.absval(s, args[1]) if len(args) > 1 else 'NN'        # default: scanner.start
            start = self.absval(s, args[2]) if len(args) > 2 else self.fld(s, 'start')
            end = self.absval(s, args[3]) if len(args) > 3 else self.fld(s, 'end')
            types = [src_of(args[0].body), src_of(args[0].orelse)] if args and isinstance(args[0], ast.IfExp) else [ttype]
            key = (src_of(call), call.lineno)
            rec = self.notifies.setdefault(key, {'node': call, 'ok': 0, 'bad': None})
            if start != 'NN' or end != 'NN':
                what = 'start' if start != 'NN' else 'end'
                if rec['bad'] is None:
                    rec['bad'] = (what, s)
            else:
                rec['ok'] += 1
            if delim == 'NEG':
                for t in types:
                    self.sentinel_types.add(t)
            self.n_events += 1
        return s


@rule('RNG-SCANSTATE', 'D', 'css scan(): on every path the start and end handed to the callback are real offsets (>= 0), never the -1 "nothing recorded" sentinel')
def rng_scanstate(p, res):
    f = p.func('css_matcher.scan.scan')
    ss = p.cls('css_matcher.scan.ScanState')
    init = ss.methods['__init__']
    for fl in ScanStateClient.FIELDS:
        if ('self.%s = -1' % fl) not in src_of(init.node):
            raise AnalysisError('RNG-SCANSTATE: ScanState.%s no longer starts at -1' % fl)
    rs = ss.methods.get('reset')
    if rs is None or src_of(rs.node.body[-1]) != 'self.start = self.end = self.property_start = self.property_end = self.property_delimiter = -1':
        raise AnalysisError('RNG-SCANSTATE: ScanState.reset() no longer resets all five fields to -1')
    c = ScanStateClient(p, f)
    explore(p, f, c)
    if len(c.notifies) < 6:
        raise AnalysisError('RNG-SCANSTATE: only %d notify sites explored' % len(c.notifies))
    emit(res, 'RNG-SCANSTATE', f, c)
    for (src, ln), rec in sorted(c.notifies.items(), key=lambda kv: kv[0][1]):
        if rec['bad'] is not None:
            what, s = rec['bad']
            vals = {fl: s.get(('fld', fl)) for fl in ScanStateClient.FIELDS}
            res.bad(F('RNG-SCANSTATE', f, rec['node'], src, 'a path reaches this notify with %s still -1 (abstract state %s): the callback receives a range with a missing %s'
                      % (what, vals, what), details=['path : ' + s.show_trace()], failing_input="css scan('a:{') / scan('a{b: :c;}')"))
        else:
            res.ok('%s: start/end >= 0 in all %d abstract states' % (src, rec['ok']))
    res.stats['token_types_with_sentinel_delimiter'] = sorted(c.sentinel_types)
    res.require_floor(6)


# ----------------------------------------------------------- PATH-INITORDER
@rule('PATH-INITORDER', 'N', 'a field of a freshly built node is not consulted before the statement that fills it')
def path_initorder(p, res):
    n_sites = 0
    for f in sorted(p.funcs.values(), key=lambda x: x.qualname):
        # locals bound once to a constructor call
        fresh = {}
        for n in f.body_nodes():
            if isinstance(n, ast.Assign) and len(n.targets) == 1 and isinstance(n.targets[0], ast.Name) and isinstance(n.value, ast.Call) \
                    and isinstance(p.resolve_call(f, n.value), Class):
                fresh.setdefault(n.targets[0].id, []).append(n)
        fresh = {k: v[0] for k, v in fresh.items() if len(v) == 1 and len(p.local_assignments(f, k)) == 1}
        if not fresh:
            continue
        pm = p.parents(f)
        for var, ctor in fresh.items():
            stores = {}
            for n in f.body_nodes():
                if isinstance(n, (ast.Assign, ast.AugAssign)):
                    for t in (n.targets if isinstance(n, ast.Assign) else [n.target]):
                        if isinstance(t, ast.Attribute) and isinstance(t.value, ast.Name) and t.value.id == var:
                            stores.setdefault(t.attr, []).append(n)
            for fld, sts in stores.items():
                first = min(sts, key=lambda x: x.lineno)
                # loops: a read in an earlier iteration-position is legitimate (accumulators); only straight-line order is judged
                def in_loop(x):
                    q = pm.get(x)
                    while q is not None:
                        if isinstance(q, (ast.While, ast.For)):
                            return True
                        q = pm.get(q)
                    return False
                if in_loop(first):
                    continue
                for n in f.body_nodes():
                    if isinstance(n, ast.Attribute) and isinstance(n.ctx, ast.Load) and isinstance(n.value, ast.Name) and n.value.id == var and n.attr == fld:
                        if n.lineno >= first.lineno or n.lineno <= ctor.lineno:
                            continue
                        # reads inside the test that guards the store are the "set if unset" idiom
                        q = first
                        guards = []
                        while q is not None:
                            par = pm.get(q)
                            if isinstance(par, ast.If):
                                guards.append(par.test)
                            q = par
                        if any(any(x is n for x in ast.walk(g)) for g in guards):
                            continue
                        # AugAssign accumulators read themselves
                        n_sites += 1
                        st = p.enclosing_stmt(f, n)
                        res.bad(F('PATH-INITORDER', f, n, src_of(st).split('\n')[0],
                                  '`%s.%s` is read here but only filled further down (line %d: `%s`): at this point it still has the value the constructor gave it'
                                  % (var, fld, first.lineno, src_of(first).split('\n')[0])))
                n_sites += 1
        res.ok('%s: fields of %s read only after they are filled' % (f.short, ', '.join(sorted(fresh))) if len(res.samples) < 5 else None)
    res.stats['fresh_object_fields_with_later_stores'] = n_sites
    res.require_floor(25)


# ---------------------------------------------------------- PATH-PARSER-CTX
@rule('PATH-PARSER-CTX', 'N', 'parser statements(): append once, descend on >, stay on +, climb on ^ only while the stack is non-empty')
def path_parser_ctx(p, res):
    """decision tables of one iteration of statements() (the parsed element is appended to the current context exactly once;
    after > the context is pushed and the element becomes the context; after + nothing changes; each ^ pops one context,
    only while the stack is non-empty) and of group() (`(` statements `)` optional repeater) against the reviewed ones"""
    from .tablecheck import check_table

    def never_popped(p, f):
        """the context stack is pushed but nothing ever removes an entry: contexts that were left stay pending"""
        pushed = {src_of(n.func.value) for n in f.body_nodes() if isinstance(n, ast.Call) and isinstance(n.func, ast.Attribute) and n.func.attr == 'append'
                  and isinstance(n.func.value, ast.Name) and n.func.value.id in f.locals and n.args and isinstance(n.args[0], ast.Name)}
        for st in sorted(pushed):
            removes = [n for n in f.body_nodes() if (isinstance(n, ast.Call) and isinstance(n.func, ast.Attribute) and n.func.attr in ('pop', 'clear', 'remove') and src_of(n.func.value) == st)
                       or (isinstance(n, ast.Delete) and any(st in src_of(t) for t in n.targets))
                       or (isinstance(n, ast.Assign) and any(src_of(t).startswith(st) for t in n.targets) and not isinstance(n.value, (ast.List,)))]
            reads_top = [n for n in f.body_nodes() if isinstance(n, ast.Subscript) and src_of(n.value) == st and isinstance(n.ctx, ast.Load)]
            if not removes and reads_top:
                return reads_top[0], src_of(p.enclosing_stmt(f, reads_top[0])), 'the context stack `%s` is pushed on > but never popped: after a climb the contexts that were left stay on it, so a later ^ returns to a stale context' % st
        return None
    check_table(p, res, 'PATH-PARSER-CTX', 'abbreviation.parser.statements',
                'every parsed element is appended to the current context once; > pushes the context and descends; + keeps it; each ^ pops one context and stops at the top level',
                detectors=(never_popped,))
    check_table(p, res, 'PATH-PARSER-CTX', 'abbreviation.parser.group', 'a group is `(` statements `)` followed by an optional repeater')
    check_table(p, res, 'PATH-PARSER-CTX', 'abbreviation.parser.element', 'an element is name, attributes / shorthands and text in any order, then the self-closing mark and the repeater; it must consume something')
    res.require_floor(3)


# ---------------------------------------------------------------- PATH-ONCE
class CopyLoopClient(PathClient):
    """one iteration of the copy loop of convert_statement:  number the copy, convert it, accumulate it, charge the
    budget, maybe stop, step the counter.  Roles are found by what the constructs do (callee, field written, variable
    returned / compared in the loop test), never by the names of locals."""

    IDLE = ('idle', False, 0, 0)           # (phase, numbered, charges, steps)

    def __init__(self, p, f, conv, result, counter, loop):
        super().__init__(p, f)
        self.conv, self.result, self.counter, self.loop = conv, result, counter, loop
        self.items = set()
        self.inloop = set(id(n) for n in ast.walk(loop))
        self.seen = {'conv': 0, 'acc': 0, 'charge': 0, 'step': 0, 'number': 0, 'break': 0}
        self.budget_tests = {}        # source of a call that returns a comparison on the budget -> that comparison
        self.opaque_budget = None

    def _is_conv(self, call):
        t = self.p.resolve_call(self.f, call)
        return isinstance(t, list) and t and all(x in self.conv for x in t)

    def _budget_callee(self, call):
        """a helper / method that does the budget bookkeeping: -> (number of `<x>.repeat_guard -= 1` it always executes, source
        of the comparison on the budget it returns or None); None when the call is nothing of the kind or not straight-line"""
        try:
            t = self.p.resolve_call(self.f, call)
        except Exception:
            return None
        if not (isinstance(t, list) and len(t) == 1):
            return None
        g = t[0]
        body = [st for st in g.node.body if not (isinstance(st, ast.Expr) and isinstance(st.value, ast.Constant))]
        if not any(isinstance(n, ast.Attribute) and n.attr == 'repeat_guard' for st in body for n in ast.walk(st)):
            return None
        charges, test = 0, None
        for st in body:
            if isinstance(st, ast.AugAssign) and isinstance(st.target, ast.Attribute) and st.target.attr == 'repeat_guard' \
                    and isinstance(st.op, ast.Sub) and src_of(st.value) == '1':
                charges += 1
            elif isinstance(st, ast.Return) and st is body[-1] and isinstance(st.value, ast.Compare) and 'repeat_guard' in src_of(st.value):
                test = src_of(st.value)
            elif isinstance(st, ast.Return) and st is body[-1] and (st.value is None or isinstance(st.value, ast.Constant)):
                pass
            else:
                return ('opaque', None)
        return (charges, test)

    def _has_conv(self, e):
        return any(isinstance(n, ast.Call) and self._is_conv(n) for n in ast.walk(e))

    def loop_enter(self, it, s, loop):
        return self.set_auto(s, self.IDLE) if loop is self.loop else s

    def on_call(self, it, s, call):
        if id(call) not in self.inloop:
            return s
        ph, num, ch, stp = self.auto(s, self.IDLE)
        if self._is_conv(call):
            self.seen['conv'] += 1
            if not num:
                self.bad(call, src_of(call), 'a copy is converted before the running repeater was given the number of this copy', s)
            if ph == 'conv':
                self.bad(call, src_of(call), 'a second copy is converted in the same iteration while the previous one was not added to the result', s)
            return self.set_auto(s, ('conv', num, ch, stp))
        fn = call.func
        if isinstance(fn, ast.Attribute) and fn.attr in ('extend',) and src_of(fn.value) == self.result and call.args:
            return self._acc(s, call.args[0], call)
        bc = self._budget_callee(call)
        if bc is not None:
            if bc[0] == 'opaque':
                self.opaque_budget = src_of(call)
                return s
            if bc[1] is not None:
                self.budget_tests[src_of(call)] = bc[1]
            if bc[0]:
                self.seen['charge'] += 1
                if ph == 'idle':
                    self.bad(call, src_of(call), 'the repeat budget is charged when a copy is started, not when it is completed: a copy that is still being built uses up the budget of the copies inside it', s)
                return self.set_auto(s, (ph, num, ch + bc[0], stp))
        return s

    def on_test(self, it, s, expr, truth):
        if isinstance(expr, ast.Call) and src_of(expr) in self.budget_tests:
            return s.set(('cond', 'repeat_guard test: ' + src_of(expr)), truth)
        return s

    def _acc(self, s, operand, node):
        ph, num, ch, stp = self.auto(s, self.IDLE)
        if (isinstance(operand, ast.Name) and operand.id in self.items) or self._has_conv(operand):
            self.seen['acc'] += 1
            if ph == 'acc':
                self.bad(node, src_of(node), 'the same copy is added to the result twice', s)
            return self.set_auto(s, ('acc', num, ch, stp))
        return s

    def on_store(self, it, s, target, value, stmt):
        if id(stmt) not in self.inloop:
            return s
        ph, num, ch, stp = self.auto(s, self.IDLE)
        v = stmt.value if isinstance(stmt, ast.Assign) else None
        if isinstance(target, ast.Name) and v is not None and self._has_conv(v):
            self.items.add(target.id)
        if isinstance(target, ast.Attribute) and target.attr == 'value' and v is not None and src_of(v) == self.counter:
            self.seen['number'] += 1
            return self.set_auto(s, (ph, True, ch, stp))
        if isinstance(target, ast.Name) and target.id == self.counter and v is not None:
            if src_of(v) in ('%s + 1' % self.counter, '1 + %s' % self.counter):
                self.seen['step'] += 1
                return self.set_auto(s, (ph, num, ch, stp + 1))
            self.bad(stmt, src_of(stmt), 'the copy counter is overwritten inside the loop', s)
        if isinstance(target, ast.Name) and target.id == self.result and v is not None:
            if src_of(v).startswith(self.result + ' + '):
                return self._acc(s, v.right if isinstance(v, ast.BinOp) else v, stmt)
            self.bad(stmt, src_of(stmt), 'the list of finished copies is overwritten inside the loop: earlier copies are lost', s)
        return s

    def on_aug(self, it, s, stmt):
        if id(stmt) not in self.inloop:
            return s
        ph, num, ch, stp = self.auto(s, self.IDLE)
        t = stmt.target
        if isinstance(t, ast.Name) and t.id == self.result and isinstance(stmt.op, ast.Add):
            return self._acc(s, stmt.value, stmt)
        if isinstance(t, ast.Name) and t.id == self.counter:
            if isinstance(stmt.op, ast.Add) and src_of(stmt.value) == '1':
                self.seen['step'] += 1
                return self.set_auto(s, (ph, num, ch, stp + 1))
            self.bad(stmt, src_of(stmt), 'the copy counter must advance by exactly one per copy', s)
        if isinstance(t, ast.Attribute) and t.attr == 'repeat_guard':
            if isinstance(stmt.op, ast.Sub) and src_of(stmt.value) == '1':
                self.seen['charge'] += 1
                if ph == 'idle':
                    self.bad(stmt, src_of(stmt), 'the repeat budget is charged when a copy is started, not when it is completed: a copy that is still being built uses up the budget of the copies inside it', s)
                return self.set_auto(s, (ph, num, ch + 1, stp))
            self.bad(stmt, src_of(stmt), 'the repeat budget must be charged by exactly one per completed copy', s)
        return s

    def loop_back(self, it, s, loop):
        if loop is not self.loop:
            return s
        ph, num, ch, stp = self.auto(s, self.IDLE)
        if ph != 'acc':
            self.bad(loop, 'iteration of the copy loop', 'an iteration ends without adding a converted copy to the result (phase %s)' % ph, s)
        if ch != 1:
            self.bad(loop, 'iteration of the copy loop', 'the repeat budget is charged %d times in one iteration (must be once per completed copy)' % ch, s)
        if stp != 1:
            self.bad(loop, 'iteration of the copy loop', 'the copy counter advances %d times in one iteration (must be once): copies are skipped or numbered twice' % stp, s)
        return self.set_auto(s, self.IDLE)

    def on_exit(self, it, s, value, stmt):
        a = self.auto(s, ())
        if a and a != self.IDLE:
            self._stop(s, self.loop, a, 'return out of the copy loop')
        return s

    def _stop(self, s, loop, a, how):
        if True:
            ph, num, ch, stp = a
            self.seen['break'] += 1
            if ph != 'acc':
                self.bad(loop, how, 'the loop can stop before the copy of this iteration is complete: with an exhausted budget no copy at all is produced (one is documented)', s)
            if ch != 1:
                self.bad(loop, how, 'the loop stops without having charged this copy to the budget', s)
            g = [k[1] for k, v in s.facts.items() if k[0] == 'cond' and 'repeat_guard' in k[1]]
            if not g:
                self.bad(loop, how, 'the loop is left early for a reason other than the repeat budget', s)

    def loop_exit(self, it, s, loop):
        if loop is not self.loop:
            return s
        a = self.auto(s, self.IDLE)
        if a != self.IDLE:
            self._stop(s, loop, a, 'break out of the copy loop')
        return self.set_auto(s, ())


def _cmp_normal(src):
    """'<x> <= 0' style normal form of a comparison against a small integer:  (expr, op, k)"""
    try:
        e = ast.parse(src, mode='eval').body
    except SyntaxError:
        return None
    neg = False
    while isinstance(e, ast.UnaryOp) and isinstance(e.op, ast.Not):
        neg, e = not neg, e.operand
    if not (isinstance(e, ast.Compare) and len(e.ops) == 1):
        return None
    l, r, op = e.left, e.comparators[0], type(e.ops[0])
    flip = {ast.Lt: ast.Gt, ast.Gt: ast.Lt, ast.LtE: ast.GtE, ast.GtE: ast.LtE, ast.Eq: ast.Eq, ast.NotEq: ast.NotEq}
    if isinstance(l, ast.Constant) and isinstance(l.value, int) and not isinstance(r, ast.Constant):
        l, r, op = r, l, flip.get(op)
    if not (isinstance(r, ast.Constant) and isinstance(r.value, int)) or op is None:
        return None
    k = r.value
    inv = {ast.Lt: ast.GtE, ast.GtE: ast.Lt, ast.Gt: ast.LtE, ast.LtE: ast.Gt, ast.Eq: ast.NotEq, ast.NotEq: ast.Eq}
    if neg:
        op = inv[op]
    # integers:  x < k  ==  x <= k-1 ;  x >= k == x > k-1
    if op is ast.Lt:
        op, k = ast.LtE, k - 1
    if op is ast.GtE:
        op, k = ast.Gt, k - 1
    return (src_of(l), {ast.LtE: '<=', ast.Gt: '>', ast.Eq: '==', ast.NotEq: '!='}[op], k)


def _ordered_full_loop(res, rname, p, f, node, coll_attr, conv_name, what):
    """a for loop over <x>.<coll_attr> whose body accumulates conv(<item>, ..) : complete and in order?"""
    from .. import shape
    loops = [n for n in shape.own_nodes(node) if isinstance(n, ast.For) and any(isinstance(c, ast.Call) and isinstance(c.func, ast.Name) and c.func.id == conv_name for c in ast.walk(n))]
    comps = [n for n in shape.own_nodes(node) if isinstance(n, (ast.ListComp, ast.GeneratorExp)) and any(isinstance(c, ast.Call) and isinstance(c.func, ast.Name) and c.func.id == conv_name for c in ast.walk(n.elt))]
    if len(loops) + len(comps) != 1:
        res.undecided('%s: %s' % (f.short, what), 'exactly one loop/comprehension converting the items is expected')
        return
    if loops:
        lp = loops[0]
        it, tgt, filt = lp.iter, lp.target, [x for x in ast.walk(lp) if isinstance(x, (ast.Break, ast.Continue, ast.If, ast.Return))]
    else:
        g = comps[0].generators
        if len(g) != 1:
            res.undecided('%s: %s' % (f.short, what), 'single generator expected')
            return
        it, tgt, filt = g[0].iter, g[0].target, list(g[0].ifs)
        lp = comps[0]
    its = src_of(it)
    if isinstance(it, ast.Attribute) and it.attr == coll_attr and not filt:
        # the converted item is the loop variable
        calls = [c for c in ast.walk(lp) if isinstance(c, ast.Call) and isinstance(c.func, ast.Name) and c.func.id == conv_name]
        if all(c.args and src_of(c.args[0]) == src_of(tgt) for c in calls) and len(calls) == 1:
            accum = True
            if loops:
                body = lp.body
                accum = len(body) == 1 and ((isinstance(body[0], ast.AugAssign) and isinstance(body[0].op, ast.Add) and body[0].value is calls[0])
                                            or (isinstance(body[0], ast.Expr) and isinstance(body[0].value, ast.Call) and isinstance(body[0].value.func, ast.Attribute)
                                                and body[0].value.func.attr in ('extend', 'append') and body[0].value.args and body[0].value.args[0] is calls[0]))
            if accum:
                res.ok('%s: %s: every item of .%s converted once, in order' % (f.short, what, coll_attr))
                return
        res.undecided('%s: %s' % (f.short, what), 'loop body is not a plain accumulation of %s(item)' % conv_name)
        return
    if (isinstance(it, ast.Call) and isinstance(it.func, ast.Name) and it.func.id in ('reversed', 'sorted', 'set')) or \
            (isinstance(it, ast.Subscript) and isinstance(it.slice, ast.Slice) and isinstance(it.value, ast.Attribute) and it.value.attr == coll_attr):
        res.bad(F(rname, f, lp, 'for .. in %s' % its, '%s: the items of .%s must all be converted, in written order (this iterates %s)' % (what, coll_attr, its)))
        return
    if filt and isinstance(it, ast.Attribute) and it.attr == coll_attr and any(isinstance(x, (ast.Break, ast.Continue, ast.Return)) for x in filt):
        res.bad(F(rname, f, filt[0], src_of(filt[0]).split('\n')[0], '%s: an item of .%s can be skipped / the loop can stop early' % (what, coll_attr)))
        return
    res.undecided('%s: %s' % (f.short, what), 'iteration over %s not recognised' % its)


@rule('PATH-ONCE', 'N', 'converter loops visit every written element once, in order, and attach copies in order')
def path_once(p, res):
    from .. import norm, shape
    from ..pattern import find_stmt, find_expr
    ce = p.func('abbreviation.convert.convert_element')
    cen = norm.nf(p, ce, inline=True)
    _ordered_full_loop(res, 'PATH-ONCE', p, ce, cen, 'elements', 'convert_statement', 'children')
    _ordered_full_loop(res, 'PATH-ONCE', p, ce, cen, 'attributes', 'convert_attribute', 'attributes')
    cg = p.func('abbreviation.convert.convert_group')
    cgn = norm.nf(p, cg, inline=True)
    _ordered_full_loop(res, 'PATH-ONCE', p, cg, cgn, 'elements', 'convert_statement', 'group children')
    hits = find_stmt('if $n.repeat:\n    $r = attach_repeater($r, $n.repeat)', cgn)
    rets = [n for n in shape.own_nodes(cgn) if isinstance(n, ast.Return)]
    if len(hits) == 1 and len(rets) == 1 and src_of(rets[0].value) == src_of(hits[0][1]['r']):
        res.ok('convert_group: group repeater attached to the results')
    elif not any(isinstance(c, ast.Call) and isinstance(c.func, ast.Name) and c.func.id == 'attach_repeater' for c in ast.walk(cgn)):
        res.bad(F('PATH-ONCE', cg, cg.node, 'attach_repeater(...)', 'a repeated group must hand its repeater to the nodes it produced (numbering inside unrolled groups)'))
    else:
        res.undecided('convert_group: attach_repeater', 'shape of the repeater hand-over not recognised')
    # ---- the copy loop
    cs = p.func('abbreviation.convert.convert_statement')
    csn = norm.nf(p, cs, inline=False)
    conv = [p.func('abbreviation.convert.convert_group'), p.func('abbreviation.convert.convert_element')]
    rets = [n for n in shape.own_nodes(csn) if isinstance(n, ast.Return)]
    whiles = [n for n in shape.own_nodes(csn) if isinstance(n, ast.While)]
    loop = whiles[0] if len(whiles) == 1 else None
    counter = None
    if loop is not None and isinstance(loop.test, ast.Compare) and len(loop.test.ops) == 1 and isinstance(loop.test.ops[0], ast.Lt) and isinstance(loop.test.left, ast.Name):
        counter = loop.test.left.id
    if not (rets and all(isinstance(r.value, ast.Name) and r.value.id == rets[0].value.id for r in rets)) or loop is None:
        res.undecided('copy loop of convert_statement', 'one while loop and one returned list expected')
    elif any('repeat_guard' in src_of(x) for x in ast.walk(loop.test) if isinstance(x, ast.Attribute)):
        res.bad(F('PATH-ONCE', cs, loop, 'while %s' % src_of(loop.test), 'the repeat budget is tested before the first copy: with an exhausted budget the repeater yields no copy at all (one is documented)'))
    elif counter is None:
        res.undecided('while %s' % src_of(loop.test), 'loop test must be <counter> < <count>')
    else:
        result = rets[0].value.id
        c = CopyLoopClient(p, cs, conv, result, counter, loop)
        it_body = csn.body
        from ..absint import Interp, State
        fl = Interp(p, cs, c, body=it_body).run([State({})])
        if c.opaque_budget:
            c.violations.clear()
            c.seen['charge'] = c.seen['charge'] or -1
            res.undecided('copy loop: %s' % c.opaque_budget, 'the budget bookkeeping is done by a helper that is not straight-line: charging not decided')
        emit(res, 'PATH-ONCE', cs, c)
        for k in ('conv', 'acc', 'charge', 'step', 'number'):
            if c.seen[k] == 0:
                msg = {'conv': 'no copy is converted in the loop', 'acc': 'converted copies are never added to the returned list',
                       'charge': 'the repeat budget is never charged: maxRepeat has no effect', 'step': 'the copy counter never advances',
                       'number': 'the running repeater is never given the number of the current copy'}[k]
                if k in ('charge',) or c.seen['conv']:
                    res.bad(F('PATH-ONCE', cs, loop, 'copy loop: %s' % k, msg))
                else:
                    res.undecided('copy loop: %s' % k, msg)
        if c.seen['break'] == 0 and c.seen['charge']:
            res.bad(F('PATH-ONCE', cs, loop, 'copy loop: stop', 'nothing stops the loop when the repeat budget is used up'))
        if not c.violations and all(c.seen.values()):
            res.ok('convert_statement: each iteration numbers, converts, accumulates, charges, then may stop, then steps (%d states)' % len(fl.ret), n=5)
        # the stop condition:  budget <= 0  after the charge
        brk = [n for n in ast.walk(loop) if isinstance(n, (ast.Break, ast.Return))]
        pm = shape.parent_map(csn)
        for b in brk:
            facts = [(c.budget_tests.get(fs, fs), pol) for fs, pol in shape.implied(b, pm, root=loop) if 'repeat_guard' in fs or fs in c.budget_tests]
            nf_ = [_cmp_normal(fs if pol else 'not (%s)' % fs) for fs, pol in facts]
            if len(nf_) == 1 and nf_[0] is not None and nf_[0][1:] == ('<=', 0):
                res.ok('stop exactly when the budget is used up: %s' % facts[0][0])
            elif len(nf_) == 1 and nf_[0] is not None and nf_[0][1] in ('<=', '==') :
                res.bad(F('PATH-ONCE', cs, b, 'break if %s' % facts[0][0], 'the loop must stop as soon as the budget reaches 0 after the charge (<= 0); this stops at a different count, so the number of copies differs from maxRepeat'))
            elif nf_:
                res.undecided('break if %s' % facts, 'stop condition on the budget not recognised')
        # count defaults: repeat.count = len(clean_text) for implicit with list text, else count or 1
        hits = find_stmt('$r.count = len($s.clean_text) if $r.implicit and isinstance($s.text, list) else $r.count or 1', csn)
        if len(hits) == 1:
            res.ok('count: number of text lines for implicit repeaters over a list, else count or 1')
        else:
            res.undecided('repeat.count = ...', 'count default shape')
        # restore of node.repeat after the loop and pop of the repeater are PATH-STACK / OWN-CALLER obligations
    st = p.cls('abbreviation.convert.ConvertState').methods['__init__']
    stn = norm.nf(p, st, inline=False)
    defs = {}
    stores = [n for n in shape.own_nodes(stn) if isinstance(n, ast.Assign) and src_of(n.targets[0]) == 'self.repeat_guard']
    mr = [a for a in st.params if a in ('max_repeat',)]
    if len(stores) == 1:
        v = stores[0].value
        vs = src_of(v)
        names = {x.id for x in ast.walk(v) if isinstance(x, ast.Name)}
        big = [x.value for x in ast.walk(v) if isinstance(x, ast.Constant) and isinstance(x.value, int)]
        for nm in list(names):
            ee = p.resolve_name(st, nm)
            if ee is not None and ee.kind == 'const':
                cv = p.try_const(st.module, ast.Name(id=nm, ctx=ast.Load()))
                if isinstance(cv, int):
                    big.append(cv)
        if 'max_repeat' in names and isinstance(v, ast.IfExp) and src_of(v.test) in ('max_repeat is not None', 'max_repeat is None') and big and max(big) >= 100000:
            res.ok('repeat_guard = max_repeat, or a large default when no limit is given')
        elif 'max_repeat' not in names:
            res.bad(F('PATH-ONCE', st, stores[0], src_of(stores[0]), 'the repeat budget must come from max_repeat'))
        elif isinstance(v, ast.BoolOp):
            res.bad(F('PATH-ONCE', st, stores[0], src_of(stores[0]), 'max_repeat == 0 is a limit, not "no limit": the default may only replace None'))
        else:
            res.undecided(src_of(stores[0]), 'budget initialisation not recognised')
    else:
        res.undecided('self.repeat_guard = ...', 'one initialisation of the budget expected')
    # text-only snippet hoisting
    hits = find_stmt('if not $e.name and $e.attributes is None and $e.value and (not some($e.value, is_field)):\n    $r += $e.children\n    $e.children = []', cen)
    if len(hits) == 1:
        res.ok('text-only snippet: children become siblings')
    else:
        res.undecided('text-only snippet test', 'children are hoisted only for nameless, attribute-less text nodes without fields')
    res.require_floor(8)


# ----------------------------------------------------------- PATH-EMIT-ATTR
_EMITTERS = ('push_string', 'push', 'push_tokens', 'push_field', 'push_newline')


def _emits(g):
    return any(isinstance(n, ast.Call) and (getattr(n.func, 'attr', None) or getattr(n.func, 'id', None)) in _EMITTERS for n in g.body_nodes())


def _emission(q):
    """[(kind, pieces | argument source, call node)] of one path: 'str' pieces of push_string/push, 'tok' argument of push_tokens"""
    from ..shape import strparts
    out = []
    for sym, n, conds in q.calls(*_EMITTERS):
        nm = n.func.attr if isinstance(n.func, ast.Attribute) else n.func.id
        r = q.resolve(n)
        if nm in ('push_string', 'push') and r.args:
            out.append(('str', strparts(r.args[0]), r, conds))
        elif nm == 'push_tokens' and r.args:
            out.append(('tok', src_of(r.args[0]), r, conds))
        else:
            out.append((nm, None, r, conds))
    return out


_QUOTE_DEFAULT_OPEN = [False]


def _quote_role(piece):
    """('open'|'close'|'estart'|'eend'|None, attribute source) of an inserted piece"""
    from ..pattern import match_expr
    if not (isinstance(piece, tuple) and piece[0] == 'x'):
        return None, None
    e = ast.parse(piece[1], mode='eval').body
    b = match_expr('attr_quote($a, $c, True)', e) or match_expr('attr_quote($a, $c, is_open=True)', e)
    if b is not None:
        return 'open', src_of(b['a'])
    b = match_expr('attr_quote($a, $c, False)', e) or match_expr('attr_quote($a, $c, is_open=False)', e)
    if b is not None:
        return 'close', src_of(b['a'])
    b = match_expr('attr_quote($a, $c)', e)
    if b is not None:
        # the role of a call that leaves is_open out is decided by the parameter's default
        return ('open' if _QUOTE_DEFAULT_OPEN[0] else 'close'), src_of(b['a'])
    if piece[1] == 'expression_start':
        return 'estart', None
    if piece[1] == 'expression_end':
        return 'eend', None
    return None, None


def _check_quoted_value(res, rname, f, seq, where, what):
    """seq = emission events after the name: nothing | ['=' open close] | ['=' open, tokens, close]; quotes must pair up"""
    kinds = [k for k, _, _, _ in seq]
    if not seq:
        return 'none'
    if kinds == ['str'] and seq[0][1] is not None and len(seq[0][1]) == 3 and seq[0][1][0] == '=':
        lq, rq = _quote_role(seq[0][1][1]), _quote_role(seq[0][1][2])
    elif kinds == ['str', 'tok', 'str'] and seq[0][1] is not None and seq[2][1] is not None and len(seq[0][1]) == 2 and seq[0][1][0] == '=' and len(seq[2][1]) == 1:
        lq, rq = _quote_role(seq[0][1][1]), _quote_role(seq[2][1][0])
    elif 'tok' in kinds and kinds.count('str') >= 1 and kinds.index('tok') == 0:
        res.bad(F(rname, f, f.node, '%s: %s' % (what, ' ; '.join(src_of(r) for _, _, r, _ in seq)), 'the value is emitted before `=` and the opening quote', details=where))
        return 'bad'
    elif kinds == ['str', 'tok'] and seq[0][1] is not None and len(seq[0][1]) == 2 and seq[0][1][0] == '=':
        res.bad(F(rname, f, f.node, '%s: %s' % (what, ' ; '.join(src_of(r) for _, _, r, _ in seq)), 'the closing quote is not emitted on this path', details=where))
        return 'bad'
    else:
        return None
    pair = (lq[0], rq[0])
    if pair == ('open', 'close') and lq[1] == rq[1]:
        return 'quoted'
    if pair == ('estart', 'eend'):
        return 'expression'
    if None in pair:
        return None
    res.bad(F(rname, f, f.node, '%s: %s' % (what, ' ; '.join(src_of(r) for _, _, r, _ in seq)),
              'opening and closing delimiter do not belong together (%s / %s): the value must sit between the matching pair' % pair, details=where))
    return 'bad'


@rule('PATH-EMIT-ATTR', 'N', 'an attribute is emitted as name, =, opening quote, value, matching closing quote; the name passes through attr_name')
def path_emit_attr(p, res):
    from .. import sympath, shape, norm
    from ..pattern import match_expr
    aq = p.func('output_stream.attr_quote')
    dflt = aq.defaults.get(aq.params[2]) if len(aq.params) > 2 else None
    _QUOTE_DEFAULT_OPEN[0] = bool(p.try_const(aq, dflt)) if dflt is not None else False
    f = p.func('markup.format.html.push_attribute')
    try:
        paths = sympath.feasible(sympath.summaries(p, f, inline=True, select=lambda call, g: _emits(g)))
    except sympath.Unsupported as e:
        paths = []
        res.undecided('html.push_attribute', str(e))
    shapes = {}
    A = f.params[0]
    for q in paths:
        em = _emission(q)
        where = ['path: ' + q.cond_str()[:400]]
        rc = q.rconds()
        if rc.get('%s.name' % A) is False:
            if em:
                res.undecided('push_attribute without a name emits %s' % [src_of(r) for _, _, r, _ in em], 'nameless attributes print nothing')
            continue
        if not em:
            res.bad(F('PATH-EMIT-ATTR', f, f.node, 'named attribute, nothing emitted', 'a named attribute prints nothing on this path', details=where))
            continue
        k0, parts, r0, _ = em[0]
        name_ok = None
        if k0 == 'str' and parts is not None and len(parts) == 2 and parts[0] == ' ' and isinstance(parts[1], tuple):
            e = ast.parse(parts[1][1], mode='eval').body
            b = match_expr('attr_name($n, $c)', e)
            if b is not None:
                n = src_of(b['n'])
                nb = match_expr('get_multi_value(%s.name, $t, %s.multiple)' % (A, A), b['n'])
                if n == '%s.name' % A or (nb is not None and 'markup.attributes' in src_of(nb['t'])):
                    name_ok = True
                else:
                    name_ok = 'mapped name not recognised: %s' % n
            elif parts[1][1] == '%s.name' % A or match_expr('get_multi_value(%s.name, $t, %s.multiple)' % (A, A), e) is not None:
                name_ok = False
        if name_ok is True:
            pass
        elif name_ok is False:
            res.bad(F('PATH-EMIT-ATTR', f, f.node, src_of(r0), 'the emitted attribute name must be attr_name() of the (possibly mapped) name: the case option is skipped', details=where))
            continue
        else:
            res.undecided('first emission %s' % src_of(r0), 'space + attr_name(name) expected' if name_ok is None else name_ok)
            continue
        v = _check_quoted_value(res, 'PATH-EMIT-ATTR', f, em[1:], where, 'html attribute')
        if v is None:
            res.undecided('emission %s' % ' ; '.join(src_of(r) for _, _, r, _ in em), 'name then nothing | ="" | =", value, "')
        elif v == 'expression' and rc.get("state.config.options.get('jsx.enabled')") is not True:
            res.undecided('expression braces on %s' % q.cond_str()[:200], 'braces replace the quotes only for jsx value prefixes')
        elif v != 'bad':
            shapes[v] = shapes.get(v, 0) + 1
    for v, n in sorted(shapes.items()):
        res.ok('html.push_attribute: %d paths emit name then %s' % (n, {'none': 'nothing (compact boolean)', 'quoted': 'the value between matching quotes', 'expression': 'the value between expression braces'}[v]), n=2)
    V = shape.View(p, f, inline=False)
    if V.find_stmt("if not $c.options.get('output.compactBoolean'):\n    $v = [$n]"):
        res.ok('boolean attribute without value: value = [name] unless compactBoolean')
    else:
        res.undecided('boolean expansion', 'a boolean attribute expands to name="name" unless output.compactBoolean')
    # ---- indent syntaxes: one iteration of push_secondary_attributes
    g = p.func('markup.format.indent_format.push_secondary_attributes')
    gn = norm.nf(p, g, select=lambda call, h: _emits(h))
    loops = [x for x in shape.own_nodes(gn) if isinstance(x, ast.For)]
    if len(loops) != 1:
        res.undecided('push_secondary_attributes', 'one loop over the attributes expected')
    else:
        lp = loops[0]
        defs = shape.defs_of(gn, params=g.params)
        tgt = [t.id for t in ast.walk(lp.target) if isinstance(t, ast.Name)]
        AV = tgt[-1]
        try:
            its = sympath.feasible(sympath.block_summaries(p, g, lp.body, env={k: shape.expand(v, defs) for k, v in defs.items()}))
        except sympath.Unsupported as e:
            its = []
            res.undecided('push_secondary_attributes loop', str(e))
        n_ok = 0
        for q in its:
            em = _emission(q)
            where = ['iteration path: ' + q.cond_str()[:400]]
            rc = q.rconds()
            # trailing glue
            glue = None
            if em and em[-1][0] == 'str' and em[-1][1] is not None and len(em[-1][1]) == 1 and isinstance(em[-1][1][0], tuple) and 'glueAttribute' in em[-1][1][0][1]:
                glue = em.pop()
            if not em or em[0][0] != 'str' or em[0][1] is None or len(em[0][1]) != 1 or not isinstance(em[0][1][0], tuple) \
                    or not any(match_expr(pt, ast.parse(em[0][1][0][1], mode='eval').body) is not None
                               for pt in ("attr_name(%s.name or '', $c)" % AV, 'attr_name(%s.name, $c)' % AV, "attr_name('', $c)")):
                res.undecided('indent attribute emission %s' % [src_of(r) for _, _, r, _ in em], 'attr_name(attr.name or "") first')
                continue
            rest = em[1:]
            if len(rest) == 1 and rest[0][0] == 'str' and rest[0][1] is not None and len(rest[0][1]) == 2 and rest[0][1][0] == '=' and 'booleanValue' in rest[0][1][1][1]:
                n_ok += 1
                continue
            v = _check_quoted_value(res, 'PATH-EMIT-ATTR', g, rest, where, 'indent attribute')
            if v is None:
                res.undecided('indent attribute emission %s' % ' ; '.join(src_of(r) for _, _, r, _ in em), 'name then nothing | =booleanValue | =", value, "')
            elif v == 'quoted':
                n_ok += 1
            elif v == 'none':
                n_ok += 1
            if glue is not None:
                gc = q.rconds(glue[3])
                last = [k for k in gc if 'len(' in k and ('!=' in k or '<' in k or '==' in k)]
                if not last:
                    res.bad(F('PATH-EMIT-ATTR', g, lp, src_of(glue[2]), 'the glue is emitted after every attribute, also the last one: it goes between attributes only', details=where))
        if n_ok:
            res.ok('indent.push_secondary_attributes: %d iteration paths emit name, then (=booleanValue | value between matching quotes), glue only between' % n_ok, n=3)
    pa = p.func('markup.format.indent_format.push_primary_attributes')
    pan = norm.nf(p, pa, select=lambda call, h: _emits(h))
    loops = [x for x in shape.own_nodes(pan) if isinstance(x, ast.For)]
    if len(loops) != 1 or not isinstance(loops[0].target, ast.Name):
        res.undecided('push_primary_attributes', 'one loop expected')
    else:
        AV = loops[0].target.id
        try:
            its = sympath.feasible(sympath.block_summaries(p, pa, loops[0].body))
        except sympath.Unsupported as e:
            its = []
            res.undecided('push_primary_attributes loop', str(e))
        for q in its:
            em = _emission(q)
            rc = q.rconds()
            hasval = rc.get('%s.value is not None' % AV)
            if hasval is None and rc.get('%s.value is None' % AV) is not None:
                hasval = not rc['%s.value is None' % AV]
            iscls = rc.get("%s.name == 'class'" % AV)
            where = ['iteration path: ' + q.cond_str()]
            if hasval is False:
                if em:
                    res.undecided('primary attribute without value emits %s' % [src_of(r) for _, _, r, _ in em], 'nothing expected')
                else:
                    res.ok('primary attribute without value prints nothing')
                continue
            if hasval is None:
                if em and any(k == 'tok' and a == '%s.value' % AV for k, a, _, _ in em):
                    res.bad(F('PATH-EMIT-ATTR', pa, loops[0], 'push_tokens(%s.value, ..) [%s]' % (AV, q.cond_str()), 'a class/id attribute without value (None) reaches push_tokens: TypeError', details=where))
                else:
                    res.undecided('primary attribute path %s' % q.cond_str(), 'value presence not tested')
                continue
            ks = [k for k, _, _, _ in em]
            if ks != ['str', 'tok'] or em[0][1] is None or len(em[0][1]) != 1:
                res.undecided('primary attribute emission %s' % [src_of(r) for _, _, r, _ in em], 'marker then value')
                continue
            marker = em[0][1][0]
            if iscls is True:
                if marker == '.' and "re.sub('\\\\s+', '.'," in em[1][1]:
                    res.ok('class printed as .a.b (whitespace -> dots)')
                elif marker != '.':
                    res.bad(F('PATH-EMIT-ATTR', pa, loops[0], src_of(em[0][2]), 'class is printed with the `.` marker', details=where))
                elif em[1][1] == '%s.value' % AV:
                    res.bad(F('PATH-EMIT-ATTR', pa, loops[0], src_of(em[1][2]), 'several class names must be joined by dots (.a.b), not printed with the space', details=where))
                else:
                    res.undecided('class value %s' % em[1][1], 'whitespace replaced by dots')
            elif iscls is False:
                if marker == '#' and em[1][1] == '%s.value' % AV:
                    res.ok('id printed as #x')
                elif marker != '#':
                    res.bad(F('PATH-EMIT-ATTR', pa, loops[0], src_of(em[0][2]), 'id is printed with the `#` marker', details=where))
                else:
                    res.undecided('id value %s' % em[1][1], 'the value itself')
            else:
                res.undecided('primary attribute path %s' % q.cond_str(), 'class / id not distinguished')
    ca = p.func('markup.format.indent_format.collect_attributes')
    ip = p.func('markup.format.indent_format.is_primary_attribute')
    from ..minieval import MiniEval, Rec
    ev = MiniEval(p)
    try:
        tbl = {nm: bool(ev.call(ip, [Rec(name=nm)])) for nm in ('class', 'id', 'title', '', None)}
    except Exception as e:
        tbl = None
    if tbl == {'class': True, 'id': True, 'title': False, '': False, None: False}:
        res.ok('is_primary_attribute: exactly class and id')
    elif tbl is None:
        res.undecided('is_primary_attribute', 'decision table could not be read')
    else:
        res.bad(F('PATH-EMIT-ATTR', ip, ip.node, 'is_primary_attribute decision table %s' % tbl, 'primary = class and id; all others secondary'))
    can = norm.nf(p, ca, inline=True)
    loops = [x for x in shape.own_nodes(can) if isinstance(x, ast.For)]
    rets = [x for x in shape.own_nodes(can) if isinstance(x, ast.Return)]
    if len(loops) == 1 and isinstance(loops[0].target, ast.Name) and src_of(loops[0].iter) == 'node.attributes' and len(rets) == 1 and isinstance(rets[0].value, ast.Tuple) and len(rets[0].value.elts) == 2:
        AV = loops[0].target.id
        P, S = [src_of(x) for x in rets[0].value.elts]
        try:
            its = sympath.feasible(sympath.block_summaries(p, ca, loops[0].body))
        except sympath.Unsupported:
            its = []
        good = 0
        for q in its:
            rc = q.rconds()
            prim = rc.get("%s.name == 'class'" % AV) is True or rc.get("%s.name == 'id'" % AV) is True
            notprim = rc.get("%s.name == 'class'" % AV) is False and rc.get("%s.name == 'id'" % AV) is False
            apps = [q.rsrc(n) for _, n, _ in q.calls('append')]
            if prim and apps == ['%s.append(%s)' % (P, AV)]:
                good += 1
            elif notprim and apps == ['%s.append(%s)' % (S, AV)]:
                good += 1
            elif (prim and apps == ['%s.append(%s)' % (S, AV)]) or (notprim and apps == ['%s.append(%s)' % (P, AV)]):
                res.bad(F('PATH-EMIT-ATTR', ca, loops[0], '%s [%s]' % (apps[0], q.cond_str()), 'primary and secondary attribute lists are swapped'))
            elif not apps:
                res.bad(F('PATH-EMIT-ATTR', ca, loops[0], 'no append [%s]' % q.cond_str(), 'an attribute is dropped from both lists'))
            else:
                res.undecided('collect_attributes path %s: %s' % (q.cond_str(), apps), 'append to primary or secondary')
        if good:
            res.ok('collect_attributes: class/id to the first list, others to the second, in order (%d paths)' % good)
    else:
        res.undecided('collect_attributes', 'loop over node.attributes returning (primary, secondary)')
    res.require_floor(10)
