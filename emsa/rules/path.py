"""PATH-* : typestate over all paths of a function (level pairing, stack
pairing, emission order and completeness, stop conditions of scan callbacks)."""
import ast
import re

from . import rule
from ..core import AnalysisError, src_of, Class
from ..report import Finding
from ..paths import PathClient, explore
from .. import callgraph


def F(rule_name, f, node, construct, message, **kw):
    return Finding(rule_name, f.module.relpath, f.short, construct, message, getattr(node, 'lineno', 0), **kw)


def emit(res, rname, f, client):
    for node, construct, message, s in client.violations:
        res.bad(F(rname, f, node, construct, message, details=['path : ' + s.show_trace()]))


# --------------------------------------------------------------- PATH-LEVEL
class LevelClient(PathClient):
    """stack of the expressions added to <out>.level; each subtraction must undo the latest addition"""

    def on_aug(self, it, s, stmt):
        t = stmt.target
        if isinstance(t, ast.Attribute) and t.attr == 'level' and isinstance(stmt.op, (ast.Add, ast.Sub)):
            e = src_of(stmt.value)
            st = self.auto(s)
            self.n_events += 1
            if isinstance(stmt.op, ast.Add):
                if len(st) > 4:
                    raise AnalysisError('PATH-LEVEL: level stack deeper than 4 in %s' % self.f.short)
                return self.set_auto(s, st + (e,))
            if not st:
                self.bad(stmt, src_of(stmt), 'level is decremented without a matching increment on this path', s)
                return s
            if st[-1] != e:
                self.bad(stmt, src_of(stmt), 'level is decremented by `%s` but the innermost open increment was `%s`' % (e, st[-1]), s)
            return self.set_auto(s, st[:-1])
        return s

    def on_store(self, it, s, target, value, stmt):
        if isinstance(target, ast.Attribute) and target.attr == 'level':
            self.bad(stmt, src_of(stmt), 'level is overwritten instead of being incremented/decremented in pairs', s)
        if isinstance(target, ast.Name):
            st = self.auto(s)
            pat = re.compile(r'\b%s\b' % re.escape(target.id))
            if any(pat.search(e) for e in st):
                self.bad(stmt, src_of(stmt), 'variable `%s` is re-assigned while an increment by it is still open' % target.id, s)
        return s

    def on_exit(self, it, s, value, stmt):
        st = self.auto(s)
        if st:
            self.bad(stmt or self.f.node, 'exit of %s with level still raised by %s' % (self.f.name, ' + '.join(st)),
                     'a path leaves the function with the indentation level still raised: every following line is indented too deep', s)
        return s


@rule('PATH-LEVEL', 'D', 'every change of the indentation level is undone on every path before the function returns')
def path_level(p, res):
    n = 0
    for f in p.funcs.values():
        has = any(isinstance(x, ast.AugAssign) and isinstance(x.target, ast.Attribute) and x.target.attr == 'level' for x in f.body_nodes())
        stores = any(isinstance(x, ast.Assign) and any(isinstance(t, ast.Attribute) and t.attr == 'level' for t in x.targets) for x in f.body_nodes())
        if not (has or stores) or f.name == '__init__':
            continue
        c = LevelClient(p, f)
        fl = explore(p, f, c)
        emit(res, 'PATH-LEVEL', f, c)
        npaths = len(fl.ret)
        n += 1
        if not c.violations:
            res.ok('%s: %d exits, level balanced on all' % (f.short, npaths), n=max(1, min(npaths, 4)))
        res.stats[f.short] = {'exits': npaths, 'level_events': c.n_events}
    # the level-neutral callees: who else writes level?  (census)
    if n < 3:
        raise AnalysisError('PATH-LEVEL: only %d functions change the level' % n)
    res.require_floor(8)


# --------------------------------------------------------------- PATH-STACK
class StackClient(PathClient):
    def __init__(self, p, f, list_src):
        super().__init__(p, f)
        self.list_src = list_src

    def on_call(self, it, s, call):
        fn = call.func
        if isinstance(fn, ast.Attribute) and src_of(fn.value) == self.list_src:
            d = self.auto(s, 0)
            self.n_events += 1
            if fn.attr == 'append':
                if d >= 3:
                    return s         # saturate (loops that push repeatedly are not the pairing idiom)
                return self.set_auto(s, d + 1)
            if fn.attr == 'pop':
                if d == 0:
                    self.bad(call, src_of(call), '%s is popped without a matching push on this path' % self.list_src, s)
                    return s
                return self.set_auto(s, d - 1)
            if fn.attr in ('clear', 'remove', 'insert', 'extend', 'reverse', 'sort'):
                self.bad(call, src_of(call), 'context stack %s is modified by .%s(): the entries of enclosing activations are lost/disturbed' % (self.list_src, fn.attr), s)
        return s

    def on_store(self, it, s, target, value, stmt):
        if src_of(target) == self.list_src and self.auto(s, 0) > 0:
            self.bad(stmt, src_of(stmt), 'context stack %s is re-bound while an entry is pushed' % self.list_src, s)
        return s

    def on_exit(self, it, s, value, stmt):
        d = self.auto(s, 0)
        if d:
            self.bad(stmt or self.f.node, 'exit of %s with %s still holding its entry' % (self.f.name, self.list_src),
                     'a path returns without popping what it pushed on %s: later lookups see a stale context' % self.list_src, s)
        return s


STACK_SITES = [
    ('abbreviation.convert.convert_statement', 'state.repeaters'),
    ('markup.snippets.resolve_snippets.resolve', 'stack'),
    ('markup.utils.walk.callback', 'ancestors'),
    ('markup.format.walk.walk.walk_next', 'state.ancestors'),
]


@rule('PATH-STACK', 'D', 'context stacks (repeaters, snippet cycle guard, ancestors) are pushed and popped in pairs on every path')
def path_stack(p, res):
    for fq, lst in STACK_SITES:
        f = p.func(fq)
        c = StackClient(p, f, lst)
        fl = explore(p, f, c)
        if c.n_events < 2:
            raise AnalysisError('PATH-STACK: %s no longer pushes/pops %s' % (fq, lst))
        emit(res, 'PATH-STACK', f, c)
        if not c.violations:
            res.ok('%s: %s push/pop paired on %d exits' % (f.short, lst, len(fl.ret)), n=2)
    # recursion guard of resolve(): entered only after `snippet in stack` was false, stack local to one resolve_snippets call
    rs = p.func('markup.snippets.resolve_snippets')
    r = rs.nested.get('resolve')
    s = src_of(r.node)
    if 'if not snippet or snippet in stack:\n        return None' in s and s.index('snippet in stack') < s.index('stack.append(snippet)') < s.index('walk_resolve(snippet_abbr, resolve, config)') < s.index('stack.pop()'):
        res.ok('resolve(): membership test, push, recursive walk, pop - in this order')
    else:
        res.bad(F('PATH-STACK', r, r.node, 'cycle guard of resolve()', 'the snippet must be tested against the stack before it is pushed, and popped after the recursive walk'))
    if any(isinstance(n, ast.Assign) and src_of(n.targets[0]) == 'stack' and src_of(n.value) == '[]' for n in rs.node.body):
        res.ok('stack is a fresh list per resolve_snippets call')
    else:
        res.bad(F('PATH-STACK', rs, rs.node, 'stack = []', 'the cycle-guard stack must be created per resolve_snippets call'))
    # the repeater read by the numbering visitor is the top of that stack
    res.require_floor(10)


# ---------------------------------------------------------------- PATH-EMIT
class EmitClient(PathClient):
    """records the sequence of emission events of a formatter function"""

    def __init__(self, p, f, classify):
        super().__init__(p, f)
        self.classify = classify
        self.exits = []

    def push_event(self, s, ev, node):
        seq = self.auto(s)
        self.n_events += 1
        if seq and seq[-1] == ev and ev in ('ATTR', 'CHILD', 'NL', 'TEXTLINE'):
            return s
        if len(seq) > 24:
            raise AnalysisError('PATH-EMIT: event sequence too long in %s' % self.f.short)
        return self.set_auto(s, seq + (ev,))

    def on_call(self, it, s, call):
        ev = self.classify(self, s, call)
        if ev:
            for e in (ev if isinstance(ev, (list, tuple)) else [ev]):
                s = self.push_event(s, e, call)
        return s

    def on_exit(self, it, s, value, stmt):
        self.exits.append((self.auto(s), s))
        return s


def _const_prefix(p, f, expr):
    """constant prefix/suffix of a string expression: ('<', '') for '<%s' % name"""
    if isinstance(expr, ast.Constant) and isinstance(expr.value, str):
        return expr.value, expr.value
    if isinstance(expr, ast.BinOp) and isinstance(expr.op, ast.Mod) and isinstance(expr.left, ast.Constant) and isinstance(expr.left.value, str):
        fmt = expr.left.value
        return fmt.split('%')[0], fmt.rsplit('%', 1)[-1][1:] if '%' in fmt else fmt
    if isinstance(expr, ast.JoinedStr):
        pre = expr.values[0].value if expr.values and isinstance(expr.values[0], ast.Constant) else ''
        suf = expr.values[-1].value if expr.values and isinstance(expr.values[-1], ast.Constant) else ''
        return pre, suf
    if isinstance(expr, ast.BinOp) and isinstance(expr.op, ast.Add):
        a = _const_prefix(p, f, expr.left)
        b = _const_prefix(p, f, expr.right)
        return (a[0] if a else ''), (b[1] if b else '')
    return None


def html_classify(c, s, call):
    fn = call.func
    name = fn.attr if isinstance(fn, ast.Attribute) else (fn.id if isinstance(fn, ast.Name) else None)
    if name in ('push_string', 'push') and call.args:
        ps = _const_prefix(c.p, c.f, call.args[0])
        if ps is None:
            return 'STR?'
        pre, suf = ps
        if pre.startswith('</'):
            return 'CLOSE'
        if pre.startswith('<'):
            return 'OPEN'
        if src_of(call.args[0]) == "'%s>' % self_close(config)":
            return 'SELFCLOSE'
        if suf.endswith('>') or pre == '>':
            return 'GT'
        return 'STR?'
    if name == 'push_attribute':
        return 'ATTR'
    if name == 'push_tokens' and call.args:
        a = src_of(call.args[0])
        if a == 'node.value':
            return 'VALUE'
        if a == 'caret':
            return 'CARET'
        return 'TOKENS?'
    if name == '_next' and call.args and src_of(call.args[0]) == 'node.children':
        return 'CHILDREN'
    if name == 'push_snippet':
        return 'SNIPPET'
    if name == 'comment_node_before':
        return 'CBEFORE'
    if name == 'comment_node_after':
        return 'CAFTER'
    return None


@rule('PATH-EMIT-HTML', 'N', 'html element(): open tag, attributes, then self-close only for empty elements, else text before children, caret only in empty leaves, close tag')
def path_emit_html(p, res):
    f = p.func('markup.format.html.element')
    c = EmitClient(p, f, html_classify)

    # content checks at event time
    orig = c.on_call

    def on_call(it, s, call):
        ev = html_classify(c, s, call)
        if ev == 'SELFCLOSE':
            for cond in ('node.children', 'node.value'):
                if c.cond_value(s, cond) is not False:
                    c.bad(call, src_of(call) + '  [with %s possibly non-empty]' % cond,
                          'the element is emitted as a self-closing tag on a path where %s may be non-empty: that content is dropped from the output' % cond, s)
        if ev == 'CARET':
            for cond in ('node.children', 'node.value'):
                if c.cond_value(s, cond) is not False:
                    c.bad(call, src_of(call), 'the caret tabstop is emitted on a path where %s may be non-empty' % cond, s)
        return orig(it, s, call)
    c.on_call = on_call
    fl = explore(p, f, c)
    emit(res, 'PATH-EMIT-HTML', f, c)
    pat = re.compile(r'^(CBEFORE )?OPEN( ATTR)? (SELFCLOSE|GT SNIPPET CLOSE( CAFTER)?|GT SNIPPET( VALUE)? CHILDREN( CARET)? CLOSE( CAFTER)?)$')
    n_open = 0
    seen_flat = set()
    for seq, s in c.exits:
        if 'OPEN' not in seq:
            # text-only snippet node: value before children
            flat = ' '.join(seq)
            if flat not in ('', 'SNIPPET', 'SNIPPET VALUE CHILDREN'):
                c.violations.clear()
                res.bad(F('PATH-EMIT-HTML', f, f.node, 'nameless node emits: ' + flat, 'a text-only node emits its text, then its children', details=['path : ' + s.show_trace()]))
            continue
        n_open += 1
        flat = ' '.join(seq)
        if not pat.match(flat):
            res.bad(F('PATH-EMIT-HTML', f, f.node, 'emission order: ' + flat,
                      'every path must emit  <name attrs> then either the self-close marker, or > [snippet | text? children caret?] </name>',
                      details=['path : ' + s.show_trace()]))
        else:
            # VALUE present exactly when node.value may be truthy
            if 'SELFCLOSE' not in seq and 'VALUE' not in seq and c.cond_value(s, 'node.value') is not False and seq.count('SNIPPET') and 'CHILDREN' in seq:
                res.bad(F('PATH-EMIT-HTML', f, f.node, 'text skipped: ' + flat, 'the element text is not emitted although node.value may be non-empty', details=['path : ' + s.show_trace()]))
            elif flat not in seen_flat:
                seen_flat.add(flat)
                res.ok(flat)
    # CLOSE uses the same name variable as OPEN
    opens = [n for n in f.body_nodes() if isinstance(n, ast.Call) and html_classify(c, None, n) == 'OPEN']
    closes = [n for n in f.body_nodes() if isinstance(n, ast.Call) and html_classify(c, None, n) == 'CLOSE']
    if len(opens) == 1 and len(closes) == 1 and src_of(opens[0].args[0]) == "'<%s' % name" and src_of(closes[0].args[0]) == "'</%s>' % name" \
            and 'name = tag_name(node.name, config)' in src_of(f.node):
        res.ok('open and close tag print the same tag_name(node.name, config)')
    else:
        res.bad(F('PATH-EMIT-HTML', f, f.node, 'open/close tag names', 'open and close tag must print the same name, taken from tag_name(node.name, config)'))
    # attributes: every attribute that should be output is pushed, in list order
    s = src_of(f.node)
    if 'for attr in node.attributes:\n                if should_output_attribute(attr):\n                    push_attribute(attr, state)' in s:
        res.ok('attributes pushed in list order behind should_output_attribute')
    else:
        res.bad(F('PATH-EMIT-HTML', f, f.node, 'attribute loop', 'every attribute must be pushed in list order, filtered only by should_output_attribute'))
    res.stats['exits'] = len(c.exits)
    res.stats['exits_with_open_tag'] = n_open
    res.require_floor(8)


def indent_classify(c, s, call):
    fn = call.func
    name = fn.attr if isinstance(fn, ast.Attribute) else (fn.id if isinstance(fn, ast.Name) else None)
    if name == 'push_newline':
        return 'NL'
    if name == 'push_string' and call.args:
        a = src_of(call.args[0])
        if a == 's' or 'node.name' in a:
            return 'NAME'
        if 'selfClose' in a:
            return 'SELFCLOSE'
        return 'STR?'
    if name == 'push_primary_attributes':
        return 'PRIMARY'
    if name == 'push_secondary_attributes':
        return 'SECONDARY'
    if name == 'push_value':
        return 'VALUE'
    if name == 'walk_next':
        return 'CHILD'
    return None


@rule('PATH-EMIT-INDENT', 'N', 'indent element(): newline, name, primary, secondary attributes, then self-close only for empty elements, else text then children')
def path_emit_indent(p, res):
    f = p.func('markup.format.indent_format.element')
    c = EmitClient(p, f, indent_classify)
    orig = c.on_call

    def on_call(it, s, call):
        ev = indent_classify(c, s, call)
        if ev == 'SELFCLOSE':
            for cond in ('node.children', 'node.value'):
                if c.cond_value(s, cond) is not False:
                    c.bad(call, src_of(call) + '  [with %s possibly non-empty]' % cond,
                          'the self-closing branch is taken on a path where %s may be non-empty: that content is dropped (the HTML formatter prints it)' % cond, s)
        return orig(it, s, call)
    c.on_call = on_call
    explore(p, f, c)
    emit(res, 'PATH-EMIT-INDENT', f, c)
    pat = re.compile(r'^(NL )?(NAME )?PRIMARY SECONDARY( SELFCLOSE| VALUE( CHILD)?)?$')
    seen_flat = set()
    for seq, s in c.exits:
        flat = ' '.join(seq)
        if not pat.match(flat):
            res.bad(F('PATH-EMIT-INDENT', f, f.node, 'emission order: ' + flat,
                      'every path must emit newline? name? primary secondary then (self-close marker | text children)', details=['path : ' + s.show_trace()]))
        else:
            if 'SELFCLOSE' not in seq and 'VALUE' not in seq and c.cond_value(s, 'node.self_closing') is not True:
                res.bad(F('PATH-EMIT-INDENT', f, f.node, 'content skipped: ' + flat, 'neither the self-close marker nor the content was emitted', details=['path : ' + s.show_trace()]))
            elif flat not in seen_flat:
                seen_flat.add(flat)
                res.ok(flat)
    s = src_of(f.node)
    if "if node.name and (node.name != 'div' or not primary):" in s:
        res.ok("name omitted only for div with id/class")
    else:
        res.bad(F('PATH-EMIT-INDENT', f, f.node, "if node.name and (node.name != 'div' or not primary)", 'the element name is omitted exactly for div elements that have an id or class'))
    if 'for index, child in enumerate(node.children):\n            walk_next(child, index, node.children)' in s:
        res.ok('children walked in order')
    else:
        res.bad(F('PATH-EMIT-INDENT', f, f.node, 'children loop', 'children must be walked in list order'))
    if 'push_secondary_attributes(list(filter(should_output_attribute, secondary)), state)' in s or \
            'push_secondary_attributes([a for a in secondary if should_output_attribute(a)], state)' in s:
        res.ok('secondary attributes filtered by should_output_attribute only')
    else:
        res.bad(F('PATH-EMIT-INDENT', f, f.node, 'secondary attribute filter', 'secondary attributes must be filtered by should_output_attribute only'))
    res.stats['exits'] = len(c.exits)
    res.require_floor(6)


# ----------------------------------------------------------------- RNG-STOP
class StopClient(PathClient):
    """a scan callback may stop the scan (return False) only after it recorded a result or compared a token bound with the position"""

    def __init__(self, p, f, posnames, result_names):
        super().__init__(p, f)
        self.posnames = posnames
        self.result_names = result_names
        self.stops = 0

    def on_test(self, it, s, expr, truth):
        names = {n.id for n in ast.walk(expr) if isinstance(n, ast.Name)}
        if names & self.posnames and isinstance(expr, ast.Compare):
            return s.set(('auto',), self.auto(s) + ('POSCMP',)) if 'POSCMP' not in self.auto(s) else s
        return s

    def on_store(self, it, s, target, value, stmt):
        base = target
        while isinstance(base, (ast.Subscript, ast.Attribute)):
            base = base.value
        if isinstance(base, ast.Name) and base.id in self.result_names:
            return s.set(('auto',), self.auto(s) + ('RECORD',)) if 'RECORD' not in self.auto(s) else s
        return s

    def on_call(self, it, s, call):
        names = {n.id for a in call.args for n in ast.walk(a) if isinstance(n, ast.Name)}
        fn = call.func
        recv = fn.value.id if isinstance(fn, ast.Attribute) and isinstance(fn.value, ast.Name) else None
        if (recv in self.result_names and fn.attr in ('append', 'extend')) or (isinstance(fn, ast.Name) and fn.id in ('push', 'push_range') and names & self.result_names):
            return s.set(('auto',), self.auto(s) + ('RECORD',)) if 'RECORD' not in self.auto(s) else s
        return s

    def on_exit(self, it, s, value, stmt):
        if stmt is not None and value is not None and not isinstance(value, tuple) and isinstance(value, ast.Constant) and value.value is False:
            self.stops += 1
            a = self.auto(s)
            if 'POSCMP' not in a and 'RECORD' not in a:
                self.bad(stmt, 'return False', 'the scan is stopped on a path that neither recorded a result nor compared the token with the position: '
                                               'everything after this token is never seen', s)
        return s


def scan_callbacks(p):
    out = []
    cg = callgraph.get(p)
    for sq in ('css_matcher.scan.scan', 'html_matcher.scan.scan'):
        scan = p.func(sq)
        for f, call in cg.callers_of(scan):
            if len(call.args) >= 2:
                e = p.resolve_expr(f, call.args[1])
                if e is not None and e.kind == 'func':
                    out.append((f, e.obj, sq))
    return out


@rule('RNG-STOP', 'N', 'a scan callback stops the scan only after recording a result or comparing the token with the position')
def rng_stop(p, res):
    cbs = scan_callbacks(p)
    if len(cbs) < 12:
        raise AnalysisError('RNG-STOP: only %d scan callbacks found' % len(cbs))
    total = 0
    for outer, cb, sq in cbs:
        # result cells: locals of the outer function that are returned or whose element is returned
        result_names = set()
        for n in outer.body_nodes():
            if isinstance(n, ast.Return) and n.value is not None:
                for x in ast.walk(n.value):
                    if isinstance(x, ast.Name):
                        result_names.add(x.id)
        result_names |= {'result', 'tag', 'last', 'state'} & outer.locals
        posnames = {'pos'} & set(outer.params)
        c = StopClient(p, cb, posnames, result_names)
        explore(p, cb, c)
        total += c.stops
        emit(res, 'RNG-STOP', cb, c)
        if not c.violations:
            res.ok('%s: %d stop exits, each after a record or a position test' % (cb.short, c.stops), n=max(1, c.stops))
    res.stats['callbacks'] = len(cbs)
    res.stats['stop_exits'] = total
    res.require_floor(13)
