"""EXC-* : exception discipline (explicit raises, visitor exhaustiveness,
string formatting, numeric conversion, constant-key subscripts)."""
import ast
import re

from . import rule
from ..core import AnalysisError, src_of, Class, Func
from ..report import Finding
from .. import callgraph

try:
    import re._parser as sre_parse       # 3.11+
except ImportError:                       # pragma: no cover
    import sre_parse


def F(rule_name, f, node, construct, message, **kw):
    return Finding(rule_name, f.module.relpath, f.short if isinstance(f, Func) else f.qualname[6:], construct, message,
                   getattr(node, 'lineno', 0), **kw)


EXPAND_ENTRIES = ['expand', 'expand_markup', 'expand_stylesheet', 'markup.parse', 'markup.stringify',
                  'stylesheet.parse', 'stylesheet.stringify', 'abbreviation.parse', 'css_abbreviation.parse',
                  'config.Config.__init__']
MATCHER_ENTRIES = ['html_matcher.match', 'html_matcher.balanced_outward', 'html_matcher.balanced_inward',
                   'html_matcher.scan.scan', 'html_matcher.attributes.attributes',
                   'css_matcher.match', 'css_matcher.balanced_outward', 'css_matcher.balanced_inward',
                   'css_matcher.scan.scan', 'css_matcher.parse.split_value',
                   'action_utils.html.get_open_tag', 'action_utils.html.select_item_html',
                   'action_utils.css.get_css_section', 'action_utils.css.select_item_css',
                   'extract_abbreviation.extract_abbreviation', 'math_expression.extract.extract']
MATH_ENTRIES = ['math_expression.evaluate', 'math_expression.parser.parse']


def reach(p, entries):
    cg = callgraph.get(p)
    roots = [p.func(e) for e in entries]
    return cg, roots, cg.reachable(roots)


def value_classes(p, f, e, at=None, depth=3):
    """classes an expression may evaluate to, when it can be told: a set of class names, '?<src>' for what cannot be told.
       Follows constructor calls, functions returning such calls or one of their own parameters, the variable of an enclosing
       `except X as v`, and locals assigned once."""
    if isinstance(e, ast.Call):
        tgt = p.resolve_call(f, e)
        if isinstance(tgt, Class):
            return {tgt.name}
        if isinstance(tgt, tuple) and tgt[0] == 'builtin':
            return {tgt[1]}
        if isinstance(tgt, list) and tgt and depth > 0:
            out = set()
            for g in tgt:
                rets = [n for n in g.body_nodes() if isinstance(n, ast.Return) and n.value is not None]
                if not rets:
                    out.add('?' + src_of(e))
                for n in rets:
                    v = n.value
                    if isinstance(v, ast.Name) and v.id in g.params and not p.local_assignments(g, v.id):
                        # returns its own (never re-bound) parameter: the class of the argument at this call
                        names = [a.arg for a in g.node.args.posonlyargs + g.node.args.args]
                        if names and names[0] in ('self', 'cls') and isinstance(e.func, ast.Attribute):
                            names = names[1:]
                        arg = None
                        if v.id in names and names.index(v.id) < len(e.args):
                            arg = e.args[names.index(v.id)]
                        for k in e.keywords:
                            if k.arg == v.id:
                                arg = k.value
                        out |= value_classes(p, f, arg, at, depth - 1) if arg is not None else {'?' + src_of(v)}
                    else:
                        out |= value_classes(p, g, v, n, depth - 1)
            return out
        return {'?' + src_of(e)}
    if isinstance(e, ast.Name):
        pm = p.parents(f)
        n = at
        while n is not None:
            n = pm.get(n)
            if isinstance(n, ast.ExceptHandler) and n.name == e.id and n.type is not None:
                names = set()
                for tt in (n.type.elts if isinstance(n.type, ast.Tuple) else [n.type]):
                    r = p.resolve_expr(f, tt)
                    names.add(r.obj.name if r is not None and r.kind == 'class' else (r.obj if r is not None and r.kind == 'builtin' else '?' + src_of(tt)))
                return names
        if e.id in f.locals and e.id not in f.params:
            vals = p.local_assignments(f, e.id)
            if len(vals) == 1 and vals[0] is not None and depth > 0:
                return value_classes(p, f, vals[0], at, depth - 1)
        return {'?' + src_of(e)}
    return {'?' + src_of(e)}


def raised_class(p, f, st):
    """-> (kind, name): kind in class|factory|reraise|unknown"""
    exc = st.exc
    if exc is None:
        return ('reraise', None)
    if isinstance(exc, ast.Name):
        e = p.resolve_name(f, exc.id)
        if e is not None and e.kind in ('class', 'builtin') and exc.id not in f.locals:
            return ('class', e.obj.name if e.kind == 'class' else e.obj)
    names = value_classes(p, f, exc, st)
    if any(n.startswith('?') for n in names):
        return ('unknown', tuple(sorted(names)))
    return ('class', tuple(sorted(names)))


def _guarded_by_throws(p, f, st):
    """raise reached only when options['throws'] is true (enclosing test or an earlier guard clause)"""
    from .. import shape
    pm = shape.parent_map(f.node)
    facts = shape.implied(st, pm)
    return any(pol and fs in ("options['throws']", "options.get('throws')") for fs, pol in facts)


def _visitor_missing_branch(p, f, st):
    """raise reached only when the visitor looked up in globals() is missing"""
    from .. import shape
    pm = shape.parent_map(f.node)
    defs = shape.defs_of(f.node, params=f.params)
    for fs, pol in shape.implied(st, pm):
        if not pol and fs in defs and 'globals()' in src_of(defs[fs]) and '.get(' in src_of(defs[fs]):
            return True
    return False


def _check_raises(p, res, rname, entries, allowed, skip_guarded=True):
    cg, roots, reachable = reach(p, entries)
    for q in sorted(reachable):
        f = p.funcs.get(q)
        if f is None:
            continue
        for st in f.body_nodes():
            if not isinstance(st, ast.Raise):
                continue
            if skip_guarded and _guarded_by_throws(p, f, st):
                res.ok('%s: raise under options[throws] (call sites checked by EXC-THROWS)' % f.short)
                continue
            if f.qualname == 'emmet.abbreviation.stringify.stringify' and _visitor_missing_branch(p, f, st):
                from ..report import RuleResult
                tmp = RuleResult('EXC-VISITOR')
                exc_visitor(p, tmp)
                if not tmp.findings:
                    res.ok('%s: `%s` is dead: EXC-VISITOR shows every token class has a visitor' % (f.short, src_of(st)))
                    continue
            kind, name = raised_class(p, f, st)
            if kind == 'reraise':
                # a bare `raise` hands on what escaped from the protected region: that exception is judged where it is raised
                res.ok('%s: bare raise (re-raises what escaped from its callees)' % f.short)
                continue
            if name in ('TypeError', ('TypeError',)):
                # argument validation: a TypeError raised because a value is not of the documented type (`not isinstance(..)`)
                # concerns inputs outside every property's domain (the properties quantify over strings and well-typed configurations)
                from .. import shape
                facts = shape.implied(st, shape.parent_map(f.node))
                if any((not pol) and fs.startswith('isinstance(') for fs, pol in facts):
                    res.ok('%s: TypeError for a value of the wrong type (outside the domain of the properties)' % f.short)
                    continue
            names = name if isinstance(name, tuple) else (name,)
            bad = any(n not in allowed and not str(n).startswith('?') for n in names)
            if not bad and kind == 'unknown':
                res.undecided('%s: %s' % (f.short, src_of(st)), 'the class of the raised value cannot be told (%s)' % ', '.join(map(str, names)))
            elif bad:
                chain = None
                for r in roots:
                    chain = cg.path(r, q)
                    if chain:
                        break
                res.bad(F(rname, f, st, src_of(st),
                          'raises %s; only %s may escape from %s' % ('/'.join(map(str, names)), sorted(allowed) or 'nothing', entries[0]),
                          details=['reachable: ' + ' -> '.join(c[6:] for c in (chain or []))]))
            else:
                res.ok('%s: %s' % (f.short, src_of(st)))
    res.stats['functions_reachable'] = len(reachable)


@rule('EXC-RAISE/expand', 'D', 'every explicit raise reachable from expand raises one of the two parse errors')
def exc_raise_expand(p, res):
    _check_raises(p, res, 'EXC-RAISE/expand', EXPAND_ENTRIES, {'ScannerException', 'TokenScannerException'})
    # the factories build the documented classes
    for q, cls in (('scanner.Scanner.error', 'ScannerException'), ('token_scanner.TokenScanner.error', 'TokenScannerException')):
        f = p.func(q)
        rets = [n for n in f.body_nodes() if isinstance(n, ast.Return)]
        got = set()
        for r in rets:
            got |= value_classes(p, f, r.value, r) if r.value is not None else {'None'}
        if rets and got == {cls}:
            res.ok('%s returns %s' % (q, cls))
        elif not rets or any(g.startswith('?') for g in got):
            res.undecided('return of %s' % q, 'what the error factory returns cannot be told (%s)' % ', '.join(sorted(got)))
        else:
            res.bad(F('EXC-RAISE/expand', f, f.node, 'return of %s' % q, 'error factory must build %s (returns %s)' % (cls, ', '.join(sorted(got)))))
    # both exception classes derive from Exception directly (not from each other / builtin families that callers catch broadly)
    for q in ('scanner.ScannerException', 'token_scanner.TokenScannerException'):
        c = p.cls(q)
        if [src_of(b) for b in c.base_exprs] != ['Exception']:
            res.bad(Finding('EXC-RAISE/expand', c.module.relpath, q, 'class %s(%s)' % (c.name, ', '.join(src_of(b) for b in c.base_exprs)), 'parse error class must derive from Exception', c.node.lineno))
        else:
            res.ok('%s(Exception)' % c.name)
    # the wrappers re-raise the caught ScannerException
    for q in ('abbreviation.parse', 'css_abbreviation.parse'):
        f = p.func(q)
        tries = [n for n in f.body_nodes() if isinstance(n, ast.Try)]
        if len(tries) != 1 or len(tries[0].handlers) != 1:
            raise AnalysisError('EXC-RAISE: unrecognised shape of %s' % q)
        h = tries[0].handlers[0]
        last = h.body[-1]
        if isinstance(last, ast.Raise) and (last.exc is None or (isinstance(last.exc, ast.Name) and last.exc.id == h.name)):
            res.ok('%s re-raises the decorated ScannerException' % q)
        elif isinstance(last, ast.Raise) and value_classes(p, f, last.exc, last) == {'ScannerException'}:
            res.ok('%s raises a ScannerException from its handler' % q)
        elif isinstance(last, ast.Raise):
            res.undecided('%s: %s' % (q, src_of(last)), 'the handler raises a value whose class cannot be told')
        else:
            res.bad(F('EXC-RAISE/expand', f, h, src_of(h), 'the parse wrapper must re-raise the scanner error it decorates'))
    res.require_floor(20)


@rule('EXC-RAISE/matcher', 'D', 'no explicit raise is reachable from the matchers, action helpers and extractors')
def exc_raise_matcher(p, res):
    _check_raises(p, res, 'EXC-RAISE/matcher', MATCHER_ENTRIES, set())
    res.require_floor(2)


@rule('EXC-RAISE/math', 'D', 'every explicit raise reachable from math evaluate/parse raises MathExpressionException')
def exc_raise_math(p, res):
    _check_raises(p, res, 'EXC-RAISE/math', MATH_ENTRIES, {'MathExpressionException'})
    res.require_floor(8)


@rule('EXC-THROWS', 'D', 'eat_quoted / eat_pair are never asked to throw')
def exc_throws(p, res):
    targets = {p.func('scanner_utils.eat_quoted'): 1, p.func('scanner_utils.eat_pair'): 3}
    cg = callgraph.get(p)
    co = p.func('scanner_utils.create_options')
    d = [n for n in co.body_nodes() if isinstance(n, ast.Dict) and n.keys]
    if len(d) != 1 or p.try_const(co, d[0]) is None or p.try_const(co, d[0]).get('throws') is not False:
        res.bad(F('EXC-THROWS', co, co.node, "create_options default 'throws'", 'default must be throws=False'))
    else:
        res.ok("create_options default throws=False")
    for g, ix in targets.items():
        for f, call in cg.callers_of(g):
            arg = call.args[ix] if len(call.args) > ix else None
            for k in call.keywords:
                if k.arg == 'options':
                    arg = k.value
            if arg is None:
                res.ok('%s: %s (default options)' % (f.short, src_of(call)))
                continue
            val = p.try_const(f, arg)
            if isinstance(val, dict):
                if val.get('throws'):
                    res.bad(F('EXC-THROWS', f, call, src_of(call), 'scanner helper asked to throw: ScannerException would escape a total function'))
                else:
                    res.ok('%s: %s with %r' % (f.short, src_of(call), val))
            elif isinstance(arg, ast.Name) and arg.id in f.params and f in targets:
                res.ok('%s forwards its own options' % f.short)
            else:
                res.bad(F('EXC-THROWS', f, call, src_of(call), 'options of scanner helper are not a constant dict; cannot show throws is off'))
    res.require_floor(8)


# -------------------------------------------------------------- EXC-VISITOR
@rule('EXC-VISITOR', 'D', 'every abbreviation token class has a same-named string visitor')
def exc_visitor(p, res):
    tok = p.cls('abbreviation.tokenizer.tokens.Token')
    sm = p.module('abbreviation.stringify')
    st = p.func('abbreviation.stringify.stringify')
    if 'globals().get(token.type)' not in src_of(st.node):
        raise AnalysisError('EXC-VISITOR: stringify() no longer dispatches through globals().get(token.type)')
    tf = tok.methods.get('type')
    if tf is None or 'self.__class__.__name__' not in src_of(tf.node):
        raise AnalysisError('EXC-VISITOR: Token.type is no longer the class name')
    subs = p.subclasses(tok)
    for c in subs:
        f = sm.funcs.get(c.name)
        if f is None:
            res.bad(Finding('EXC-VISITOR', sm.relpath, 'abbreviation.stringify.stringify', 'visitor for %s' % c.name,
                            'token class %s has no visitor: stringify() raises a bare Exception when such a token occurs inside text or an attribute value' % c.name,
                            st.node.lineno, failing_input='a{*b}'))
        elif len(f.params) != 2:
            res.bad(F('EXC-VISITOR', f, f.node, 'def %s(%s)' % (f.name, ', '.join(f.params)), 'visitor must take (token, state)'))
        else:
            res.ok('%s -> stringify.%s' % (c.name, f.name))
    res.require_floor(9)


# ------------------------------------------------------------------ EXC-FMT
def _fmt_count(s):
    n = 0
    i = 0
    while i < len(s):
        if s[i] == '%':
            if i + 1 < len(s) and s[i + 1] == '%':
                i += 2
                continue
            m = re.match(r'%(\([^)]*\))?[#0\- +]*(\*|\d+)?(\.(\*|\d+))?[hlL]?[diouxXeEfFgGcrsa]', s[i:])
            if not m:
                return None
            if m.group(1):
                return None
            n += 1 + (1 if m.group(2) == '*' else 0) + (1 if m.group(4) == '*' else 0)
            i += m.end()
            continue
        i += 1
    return n


def _fmt_strings(p, f, node, depth=0):
    """all constant strings the format expression can evaluate to, or None"""
    v = p.try_const(f, node)
    if isinstance(v, str):
        return [v]
    if isinstance(node, ast.IfExp):
        a = _fmt_strings(p, f, node.body, depth)
        b = _fmt_strings(p, f, node.orelse, depth)
        return a + b if a is not None and b is not None else None
    if isinstance(node, ast.Name) and isinstance(f, Func) and node.id in f.locals and depth < 3:
        vals = p.local_assignments(f, node.id)
        out = []
        for x in vals:
            if x is None:
                return None
            s = _fmt_strings(p, f, x, depth + 1)
            if s is None:
                return None
            out += s
        return out or None
    return None


@rule('EXC-FMT', 'D', '%-format strings take exactly as many arguments as they have placeholders, on every branch')
def exc_fmt(p, res):
    for f in p.funcs.values():
        for n in f.body_nodes():
            if isinstance(n, ast.BinOp) and isinstance(n.op, ast.Mod):
                fmts = _fmt_strings(p, f, n.left)
                if fmts is None:
                    from .. import shape
                    defs = shape.defs_of(f.node, params=f.params)
                    left = shape.expand(n.left, defs)
                    parts = shape.strparts(left) if isinstance(left, (ast.BinOp, ast.JoinedStr)) else None
                    if parts is not None and any(isinstance(x, str) for x in parts) and any(isinstance(x, tuple) for x in parts):
                        # a format string assembled from constants and data
                        data = [x[1] for x in parts if isinstance(x, tuple)]
                        numeric = all(d.startswith(('str(', 'int(', 'len(')) and d.endswith(')') and (p.type_of(f, ast.parse(d, mode='eval').body.args[0]) in ('int', 'float') or
                                      any(a.arg == d[4:-1] and (a.annotation is None or src_of(a.annotation) in ('int', 'float')) and isinstance(f.defaults.get(a.arg), ast.Constant) and isinstance(f.defaults[a.arg].value, int)
                                          for a in f.node.args.args)) for d in data)
                        if numeric:
                            res.ok('%s: %s (format assembled from constants and a number)' % (f.short, src_of(n)))
                        else:
                            res.bad(F('EXC-FMT', f, n, '%s  with format = %s' % (src_of(n), src_of(left)),
                                      'the format string is assembled from text data (%s): a %% inside that text is read as a conversion directive (ValueError / TypeError)' % ', '.join(data),
                                      failing_input="expand('w100%)', {'type': 'stylesheet'})"))
                    elif p.type_of(f, n.left) == 'str' or isinstance(n.left, ast.BinOp):
                        res.undecided('%s: %s' % (f.short, src_of(n)), 'format string is not a constant: placeholder count cannot be checked')
                    continue
                nargs = len(n.right.elts) if isinstance(n.right, ast.Tuple) else 1
                known = True
                if isinstance(n.right, ast.Name) and n.right.id in f.locals and n.right.id not in f.params:
                    # a local that holds the argument tuple: every assignment must be a tuple display of one length
                    vals = p.local_assignments(f, n.right.id)
                    lens = {len(v.elts) if isinstance(v, ast.Tuple) else None for v in vals}
                    if vals and None not in lens and len(lens) == 1:
                        nargs = lens.pop()
                    elif any(isinstance(v, ast.Tuple) for v in vals):
                        known = False
                for s in fmts:
                    c = _fmt_count(s)
                    if c is None:
                        res.bad(F('EXC-FMT', f, n, src_of(n), 'unparsable format string %r' % s))
                    elif not known:
                        res.undecided('%s: %s' % (f.short, src_of(n)), 'the argument is a local assigned tuples of different shapes: count not decided')
                    elif c != nargs:
                        res.bad(F('EXC-FMT', f, n, src_of(n), 'format %r has %d placeholder(s) but %d argument(s) are supplied: TypeError' % (s, c, nargs),
                                  failing_input='[${1}'))
                    else:
                        res.ok('%s: %r %% %d args' % (f.short, s, nargs))
    res.require_floor(20)


# ----------------------------------------------------------------- EXC-JOIN
def narrowed_type(p, f, name_node):
    """isinstance narrowing from enclosing if-tests."""
    pm = p.parents(f)
    n = name_node
    name = name_node.id
    while n is not None:
        par = pm.get(n)
        if isinstance(par, ast.If) and n in par.body:
            tests = par.test.values if isinstance(par.test, ast.BoolOp) and isinstance(par.test.op, ast.And) else [par.test]
            for t in tests:
                if isinstance(t, ast.Call) and src_of(t.func) == 'isinstance' and len(t.args) == 2 and src_of(t.args[0]) == name:
                    e = p.resolve_expr(f, t.args[1])
                    if e is not None and e.kind == 'class':
                        return e.obj
        n = par
    return None


def expr_type(p, f, e):
    if isinstance(e, ast.Attribute) and isinstance(e.value, ast.Name):
        c = narrowed_type(p, f, e.value)
        if c is not None:
            return p.field_type(c, e.attr)
    return p.type_of(f, e)


@rule('EXC-NEXT', 'D', 'the builtin next() is never called without a default: StopIteration cannot escape from a search that finds nothing')
def exc_next(p, res):
    """Expected count on the reviewed tree: zero calls of the builtin next() at all; every search is a loop that leaves its result
    None.  A rewrite to next(<generator>) without a default raises StopIteration for the inputs where the loop found nothing.
    The rule keeps a positive example so that it cannot pass vacuously."""
    def scan(tree, scope_names=()):
        out = []
        for n in ast.walk(tree):
            if isinstance(n, ast.Call) and isinstance(n.func, ast.Name) and n.func.id == 'next' and 'next' not in scope_names:
                out.append(n)
        return out
    # self-test of the matcher on a tiny positive / negative example
    pos = scan(ast.parse('x = next(r for r in xs if r.ok)'))
    neg = scan(ast.parse('x = next((r for r in xs if r.ok), None)'))
    if len(pos) != 1 or len(pos[0].args) != 1 or len(neg) != 1 or len(neg[0].args) != 2:
        raise AnalysisError('EXC-NEXT: matcher self-test failed')
    res.ok('matcher self-test: next(gen) found, next(gen, None) accepted')
    n_calls = 0
    for f in p.funcs.values():
        shadow = set(f.locals) | set(f.params)
        for c in f.body_nodes():
            if isinstance(c, ast.Call) and isinstance(c.func, ast.Name) and c.func.id == 'next' and 'next' not in shadow \
                    and p.resolve_name(f, 'next') is not None and p.resolve_name(f, 'next').kind == 'builtin':
                n_calls += 1
                if len(c.args) == 1 and not c.keywords:
                    res.bad(F('EXC-NEXT', f, c, src_of(c), 'next() without a default raises StopIteration when nothing is found: an internal error instead of the documented behaviour for that input'))
                else:
                    res.ok('%s: %s has a default' % (f.short, src_of(c)[:60]))
    res.stats['next_calls'] = n_calls
    res.ok('%d call(s) of the builtin next() in the package' % n_calls)
    res.require_floor(2)


@rule('EXC-JOIN', 'D', 'elements handed to str.join in a display are not provably non-strings')
def exc_join(p, res):
    nonstr = {'int', 'float', 'bool', 'list', 'dict', 'tuple', 'None'}
    for f in p.funcs.values():
        for n in f.body_nodes():
            if isinstance(n, ast.Call) and isinstance(n.func, ast.Attribute) and n.func.attr == 'join' and len(n.args) == 1 \
                    and isinstance(n.args[0], (ast.Tuple, ast.List)):
                bad = False
                for el in n.args[0].elts:
                    t = expr_type(p, f, el)
                    if isinstance(t, Class) or t in nonstr:
                        tn = t.name if isinstance(t, Class) else t
                        res.bad(F('EXC-JOIN', f, n, src_of(n), 'element %s has type %s, str.join raises TypeError' % (src_of(el), tn),
                                  failing_input="expand('animic', {'type': 'stylesheet'})"))
                        bad = True
                if not bad:
                    res.ok('%s: %s' % (f.short, src_of(n)))
    res.require_floor(3)


# -------------------------------------------------------------- EXC-NUMCONV
def _regex_for(p, f, mname):
    """pattern string of the regex whose match object is bound to local `mname`."""
    vals = [v for v in p.local_assignments(f, mname)]
    pats = []
    for v in vals:
        if v is None:
            # for-loop target over re.finditer(pat, ..)
            for n in f.body_nodes():
                if isinstance(n, ast.For) and isinstance(n.target, ast.Name) and n.target.id == mname and isinstance(n.iter, ast.Call) \
                        and src_of(n.iter.func) in ('re.finditer',):
                    s = p.try_const(f, n.iter.args[0])
                    if isinstance(s, str):
                        pats.append((s, 0))
            continue
        if isinstance(v, ast.Call) and isinstance(v.func, ast.Attribute) and v.func.attr in ('match', 'search', 'fullmatch'):
            recv = v.func.value
            if src_of(recv) == 're' and v.args:
                s = p.try_const(f, v.args[0])
                flags = 0
                if isinstance(s, str):
                    pats.append((s, flags))
                continue
            e = p.resolve_expr(f, recv)
            if e is not None and e.kind == 'const':
                m, name, values = e.obj
                if len(values) == 1 and isinstance(values[0], ast.Call) and src_of(values[0].func) == 're.compile':
                    s = p.try_const(m, values[0].args[0])
                    flags = re.I if any('re.I' in src_of(a) for a in values[0].args[1:]) else 0
                    if isinstance(s, str):
                        pats.append((s, flags))
    return pats


def group_info(pattern, flags, gno):
    """(min width, max width, charset-is-digits, optional) of group gno"""
    tree = sre_parse.parse(pattern, flags)

    def find(seq, optional):
        for op, av in seq:
            opn = str(op)
            if opn == 'SUBPATTERN':
                g, _, _, sub = av
                if g == gno:
                    return sub, optional
                r = find(sub, optional)
                if r:
                    return r
            elif opn in ('MAX_REPEAT', 'MIN_REPEAT'):
                lo, hi, sub = av
                r = find(sub, optional or lo == 0)
                if r:
                    return r
            elif opn == 'BRANCH':
                for alt in av[1]:
                    r = find(alt, True)
                    if r:
                        return r
        return None
    r = find(tree, False)
    if r is None:
        raise AnalysisError('group %d not found in %r' % (gno, pattern))
    sub, optional = r
    lo, hi = sub.getwidth()

    def chars(seq):
        out = []
        for op, av in seq:
            opn = str(op)
            if opn == 'LITERAL':
                out.append(chr(av))
            elif opn == 'IN':
                for o2, a2 in av:
                    if str(o2) == 'CATEGORY':
                        out.append(str(a2))
                    elif str(o2) == 'LITERAL':
                        out.append(chr(a2))
                    elif str(o2) == 'RANGE':
                        out.append('%s-%s' % (chr(a2[0]), chr(a2[1])))
                    else:
                        out.append('?')
            elif opn in ('MAX_REPEAT', 'MIN_REPEAT'):
                out += chars(av[2])
            elif opn == 'SUBPATTERN':
                out += chars(av[3])
            else:
                out.append('?' + opn)
        return out
    return lo, hi, chars(sub), optional, sub


def _digits_only(cs):
    return all(c == 'CATEGORY_DIGIT' or (len(c) == 1 and c.isdigit()) or c == '0-9' for c in cs)


def _truthy_guard(p, f, node, expr_src):
    """is `node` on the true side of a truthiness test of expr_src (if / IfExp / and)?"""
    pm = p.parents(f)
    n = node
    while n is not None:
        par = pm.get(n)
        if isinstance(par, ast.IfExp) and n is par.body and _conj_has(par.test, expr_src):
            return True
        if isinstance(par, ast.If) and n in par.body and _conj_has(par.test, expr_src):
            return True
        if isinstance(par, ast.BoolOp) and isinstance(par.op, ast.And):
            ix = par.values.index(n)
            if any(_conj_has(v, expr_src) for v in par.values[:ix]):
                return True
        n = par
    return False


def _conj_has(test, expr_src):
    if src_of(test) == expr_src:
        return True
    if isinstance(test, ast.BoolOp) and isinstance(test.op, ast.And):
        return any(_conj_has(v, expr_src) for v in test.values)
    return False


_SRG = {}
# scanner functions that, when they return true, have consumed exactly one float literal (reviewed once, by function)
NUMBER_CONSUMERS = {'consume_number': 'accepts -?digits[.digits] and restores the position on a lone dash / lone dot'}


def _validate_run(q, i, x, inert=None):
    """events of path q before index i that touch scanner x must establish that x.current() is a digit run / a number:
         A:  x.start = x.pos ; x.eat_while(is_number) true ; [current]
         B:  s = x.pos (snapshot) ; consume_number(x) true ; x.start = s ; [current]
       -> True or the reason it is not established"""
    from .. import sympath
    ev = q.events
    conds = ev[i][2]
    j = i - 1
    stage = 'first'
    snap_at = None
    while j >= 0:
        s2, n2, c2 = ev[j]
        j -= 1
        if s2.startswith(('_iter', '_stable', '_unstable', '@')):
            continue
        if not sympath.touches(n2, x):
            continue
        if inert is not None and isinstance(n2, ast.Call) and inert(n2, x):
            continue            # a helper that receives the scanner but, by its effect summary, never modifies it (error reporting)
        if stage == 'first':
            if isinstance(n2, ast.Call) and src_of(n2) == '%s.eat_while(is_number)' % x:
                if (s2, True) in conds:
                    stage = 'startA'
                    continue
                return 'the digit run may be empty here (the result of %s.eat_while(is_number) is not required to be true on this path)' % x
            if isinstance(n2, ast.Call) and isinstance(n2.func, ast.Name) and n2.func.id in NUMBER_CONSUMERS and len(n2.args) == 1 and src_of(n2.args[0]) == x:
                if (s2, True) in conds:
                    stage = 'startA'
                    continue
                return 'the result of %s(%s) is not required to be true on this path' % (n2.func.id, x)
            if isinstance(n2, ast.Assign) and src_of(n2.targets[0]) == '%s.start' % x and isinstance(n2.value, ast.Name) and n2.value.id in q.snaps \
                    and src_of(q.snaps[n2.value.id][1]) == '%s.pos' % x:
                snap_at = q.snaps[n2.value.id][2]
                stage = 'consumeB'
                continue
            return ('undecided', 'not dominated by a recognised digit scan (last scanner event before it: `%s`)' % q.rsrc(n2))
        if stage == 'startA':
            if isinstance(n2, ast.Assign) and src_of(n2.targets[0]) == '%s.start' % x and src_of(n2.value) == '%s.pos' % x:
                return True
            meth = n2.func.attr if isinstance(n2, ast.Call) and isinstance(n2.func, ast.Attribute) and src_of(n2.func.value) == x else None
            if meth in ('peek', 'eof', 'current', 'substring', 'error', 'sol', 'readable'):
                continue            # looks, does not move
            if meth in ('eat', 'eat_while') and (s2, False) in conds:
                continue            # failed on this path: a failed eat leaves the scanner where it was
            moves = meth in ('eat', 'eat_while', 'next', 'back_up') or (isinstance(n2, ast.Assign) and src_of(n2.targets[0]) == '%s.pos' % x)
            if moves:
                return 'statement `%s` moves the scanner between `%s.start = %s.pos` and the digit run: the converted text contains more than the digits' % (q.rsrc(n2), x, x)
            return ('undecided', 'statement `%s` touches the scanner between `%s.start = %s.pos` and the digit run' % (q.rsrc(n2), x, x))
        if stage == 'consumeB':
            fn = n2.func if isinstance(n2, ast.Call) else None
            nm = fn.id if isinstance(fn, ast.Name) else None
            if nm in NUMBER_CONSUMERS and len(n2.args) == 1 and src_of(n2.args[0]) == x:
                if (s2, True) not in conds:
                    return 'the result of %s(%s) is not required to be true on this path' % (nm, x)
                # the start snapshot was taken right before the consumer: nothing touching x in between
                k = j + 1
                between = [e for e in ev[snap_at:k] if not e[0].startswith(('_iter', '@')) and sympath.touches(e[1], x)]
                if snap_at <= k and not between:
                    return True
                return ('undecided', 'the saved start position is not the position right before %s(%s)' % (nm, x))
            return ('undecided', 'statement `%s` touches the scanner between %s and the read of the run' % (q.rsrc(n2), '/'.join(NUMBER_CONSUMERS)))
    return ('undecided', '`%s.start = %s.pos` does not precede the digit run' % (x, x) if stage == 'startA' else 'not dominated by a recognised digit scan')


def _param_converters(p):
    """{(Func, parameter index)}: functions that hand a parameter straight to int()/float()"""
    out = {}
    for g in p.funcs.values():
        for n in g.body_nodes():
            if isinstance(n, ast.Call) and isinstance(n.func, ast.Name) and n.func.id in ('int', 'float') and len(n.args) == 1 and isinstance(n.args[0], ast.Name) \
                    and n.args[0].id in g.params and not p.local_assignments(g, n.args[0].id):
                e = p.resolve_name(g, n.func.id)
                if e is not None and e.kind == 'builtin':
                    out[(g.qualname, g.params.index(n.args[0].id))] = (g, n)
    return out


def _run_sites(p, f, converters):
    """per function: verdicts for conversions of x.current() (direct, or through a converter function)
       -> {'direct': [verdict...], 'via': {(callee qualname, index): [verdict...]}}  verdict = True | reason str | ('undecided', why)"""
    from .. import sympath
    key = (id(p), f.qualname)
    if key in _SRG:
        return _SRG[key]
    out = {'direct': {}, 'via': {}}
    has_current = any(isinstance(n, ast.Call) and isinstance(n.func, ast.Attribute) and n.func.attr == 'current' for n in f.body_nodes())
    if not has_current:
        _SRG[key] = out
        return out
    try:
        paths = sympath.feasible(sympath.summaries(p, f, inline=False))
        # sites inside loops: one generic iteration of every loop body (the loop-carried locals are unconstrained there)
        for lp in [n for n in f.body_nodes() if isinstance(n, (ast.For, ast.While))]:
            paths += sympath.feasible(sympath.block_summaries(p, f, ([ast.Expr(value=lp.test)] if isinstance(lp, ast.While) else []) + list(lp.body)))
    except sympath.Unsupported as e:
        out['error'] = str(e)
        _SRG[key] = out
        return out
    def inert(call, x):
        from .. import effects
        if not isinstance(call.func, ast.Name) or call.keywords:
            return False
        try:
            tgt = p.resolve_call(f, call)
        except Exception:
            return False
        if not (isinstance(tgt, list) and len(tgt) == 1):
            return False
        g = tgt[0]
        if len(call.args) > len(g.params):
            return False
        summ = effects.get(p).sum[g.qualname]
        for a, pname in zip(call.args, g.params):
            if src_of(a) == x:
                if any(o[0] == ('param', pname) for o, _ in summ.all_sites()):
                    return False
            elif sympath.touches(a, x):
                return False
        return True
    for q in paths:
        ev = q.events
        cur = {sym: (i, src_of(n.func.value)) for i, (sym, n, _) in enumerate(ev)
               if isinstance(n, ast.Call) and isinstance(n.func, ast.Attribute) and n.func.attr == 'current' and not n.args}
        if not cur:
            continue
        for c in sympath.mentions(q, lambda n: isinstance(n, ast.Call)):
            if isinstance(c.func, ast.Name) and c.func.id in ('int', 'float') and c.args and isinstance(c.args[0], ast.Name) and c.args[0].id in cur:
                i, x = cur[c.args[0].id]
                out['direct'].setdefault((c.func.id, x), []).append(_validate_run(q, i, x, inert))
            else:
                tgt = p.resolve_call(f, c) if isinstance(c.func, (ast.Name, ast.Attribute)) else None
                if isinstance(tgt, list) and len(tgt) == 1:
                    for ai, a in enumerate(c.args):
                        if isinstance(a, ast.Name) and a.id in cur and (tgt[0].qualname, ai) in converters:
                            i, x = cur[a.id]
                            out['via'].setdefault((tgt[0].qualname, ai), []).append(_validate_run(q, i, x, inert))
    _SRG[key] = out
    return out


REVIEWED_NUMCONV = {
    # (function, conversion, number of arguments) : (guard on the converted parameter or None, reason)      -- keyed by role, not by the names of locals
    ('css_abbreviation.tokenizer.parse_color', 'float', 1):
        (('is not None', "!= ''"), "alpha comes from color_alpha(): '.' followed by a digit run, or the constants '1'/'0'"),
    ('css_abbreviation.tokenizer.parse_color', 'int', 2): (None, 'r,g,b are slices of an is_hex run or the constant "0" (base 16)'),
}


@rule('EXC-NUMCONV', 'N', 'arguments of int()/float() are proven to be non-empty numeric text')
def exc_numconv(p, res):
    from .. import shape
    converters = _param_converters(p)
    via_verdicts = {}
    for f in p.funcs.values():
        r = _run_sites(p, f, converters)
        for k, vs in r['via'].items():
            via_verdicts.setdefault(k, []).extend((f, v) for v in vs)
    for f in p.funcs.values():
        pm = None
        for n in f.body_nodes():
            if not (isinstance(n, ast.Call) and isinstance(n.func, ast.Name) and n.func.id in ('int', 'float') and n.args):
                continue
            e = p.resolve_name(f, n.func.id)
            if e is None or e.kind != 'builtin':
                continue
            arg = n.args[0]
            defs = shape.defs_of(f.node, params=f.params)
            xarg = shape.expand(arg, defs)
            # (a) a digit run / number read through scanner.current()
            if isinstance(xarg, ast.Call) and isinstance(xarg.func, ast.Attribute) and xarg.func.attr == 'current' and not xarg.args:
                r = _run_sites(p, f, converters)
                vs = r['direct'].get((n.func.id, src_of(xarg.func.value)))
                if 'error' in r or not vs:
                    res.undecided('%s: %s' % (f.short, src_of(n)), r.get('error', 'no path evaluates the conversion'))
                elif all(v is True for v in vs):
                    res.ok('%s: %s after a successful digit scan starting at scanner.start' % (f.short, src_of(n)))
                else:
                    hard = [v for v in vs if isinstance(v, str)]
                    if hard:
                        res.bad(F('EXC-NUMCONV', f, n, src_of(n), hard[0] + ': ValueError possible / wrong text converted'))
                    else:
                        res.undecided('%s: %s' % (f.short, src_of(n)), next(v for v in vs if v is not True)[1])
                continue
            # (a') a parameter converted directly: decided at the call sites
            if isinstance(arg, ast.Name) and (f.qualname, f.params.index(arg.id) if arg.id in f.params else -1) in converters:
                vs = via_verdicts.get((f.qualname, f.params.index(arg.id)), [])
                ncallers = len(callgraph.get(p).callers_of(f))
                if vs and all(v is True for _, v in vs) and ncallers:
                    res.ok('%s: %s: every call site passes scanner.current() after a successful number scan' % (f.short, src_of(n)))
                    continue
                bad = [(g, v) for g, v in vs if isinstance(v, str)]
                und = [(g, v) for g, v in vs if isinstance(v, tuple)]
                if not bad and und:
                    res.undecided('%s: %s(.. scanner.current() ..)' % (und[0][0].short, f.name), und[0][1][1])
                    continue
                if bad:
                    res.bad(F('EXC-NUMCONV', bad[0][0], bad[0][0].node, '%s(.. %s.current() ..)' % (f.name, 'scanner'), bad[0][1] + ': ValueError possible / wrong text converted'))
                    continue
                # fall through to the reviewed table
            # (b) regex group
            g = arg
            sliced = 0
            empty_ok = False
            if isinstance(g, ast.BoolOp) and isinstance(g.op, ast.Or) and len(g.values) == 2:
                fb = p.try_const(f, g.values[1])
                if isinstance(fb, int) or (isinstance(fb, str) and fb.isdigit()):
                    empty_ok = True      # `text or 0`: an empty run falls back to a number
                    g = g.values[0]
            if isinstance(g, ast.Subscript) and isinstance(g.slice, ast.Slice) and g.slice.upper is None and g.slice.step is None:
                lo = p.try_const(f, g.slice.lower) if g.slice.lower is not None else 0
                if isinstance(lo, int):
                    sliced = lo
                    g = g.value
            if isinstance(g, ast.Call) and isinstance(g.func, ast.Attribute) and g.func.attr == 'group' and isinstance(g.func.value, ast.Name) and len(g.args) == 1:
                gno = p.try_const(f, g.args[0])
                pats = _regex_for(p, f, g.func.value.id)
                if not pats or not isinstance(gno, int):
                    res.undecided('%s: %s' % (f.short, src_of(n)), 'regex of the match object could not be resolved')
                    continue
                for pat, flags in pats:
                    lo, hi, cs, optional, sub = group_info(pat, flags, gno)
                    gsrc = src_of(g)
                    guarded = _truthy_guard(p, f, n, gsrc)
                    # characters after slicing: drop the first `sliced` atoms when they are fixed-width literals
                    rest = list(sub)
                    k = sliced
                    while k and rest and str(rest[0][0]) in ('LITERAL',):
                        rest = rest[1:]
                        k -= 1
                    if k:
                        res.undecided('%s: %s' % (f.short, src_of(n)), 'slice of regex group cannot be related to its pattern')
                        continue
                    sp = sre_parse.SubPattern(sub.state, rest)
                    lo2, hi2 = sp.getwidth()
                    digits = _digits_only(_chars(rest))
                    problems = []
                    if optional and not guarded:
                        problems.append('group %d may be absent (None) and is not guarded' % gno)
                    if lo2 == 0 and not (sliced == 0 and guarded) and not empty_ok:
                        problems.append('text may be empty after [%d:] (group %d matches %r)' % (sliced, gno, pat))
                    if not digits:
                        problems.append('group may contain non-digits')
                    if problems:
                        res.bad(F('EXC-NUMCONV', f, n, src_of(n), '; '.join(problems) + ': ValueError', failing_input='lorem-'))
                    else:
                        res.ok('%s: %s on /%s/ group %d' % (f.short, src_of(n), pat, gno))
                continue
            # (c) reviewed table, keyed by function and kind of conversion; the guard is a set of facts about the converted parameter
            key = (f.short, n.func.id, len(n.args))
            if key in REVIEWED_NUMCONV:
                guard, reason = REVIEWED_NUMCONV[key]
                if guard is not None:
                    pm = pm or shape.parent_map(f.node)
                    facts = {(fs, pol) for fs, pol in shape.implied(n, pm)}
                    a = src_of(arg)
                    need = [('%s %s' % (a, gd), True) for gd in guard]
                    alt = {("%s is not None" % a): ("%s is None" % a, False), ("%s != ''" % a): ("%s == ''" % a, False)}
                    if all(nd in facts or alt.get(nd[0]) in facts for nd in need) and isinstance(arg, ast.Name) and arg.id in f.params:
                        res.ok('%s: %s (reviewed: %s)' % (f.short, src_of(n), reason))
                    elif isinstance(arg, ast.Name) and arg.id in f.params and not any(a in fs for fs, _ in facts):
                        res.bad(F('EXC-NUMCONV', f, n, src_of(n), 'reviewed conversion is no longer guarded by `%s`' % ' and '.join('%s %s' % (a, gd) for gd in guard)))
                    else:
                        res.undecided('%s: %s' % (f.short, src_of(n)), 'guard `%s` not recognised' % ' and '.join('%s %s' % (a, gd) for gd in guard))
                else:
                    res.ok('%s: %s (reviewed: %s)' % (f.short, src_of(n), reason))
                continue
            res.undecided('%s: %s' % (f.short, src_of(n)), 'argument is not shown to be numeric text (no digit scan, regex group or reviewed source recognised)')
    res.require_floor(12)


def _chars(seq):
    out = []
    for op, av in seq:
        opn = str(op)
        if opn == 'LITERAL':
            out.append(chr(av))
        elif opn == 'IN':
            for o2, a2 in av:
                if str(o2) == 'CATEGORY':
                    out.append(str(a2))
                elif str(o2) == 'LITERAL':
                    out.append(chr(a2))
                elif str(o2) == 'RANGE':
                    out.append('%s-%s' % (chr(a2[0]), chr(a2[1])))
                else:
                    out.append('?')
        elif opn in ('MAX_REPEAT', 'MIN_REPEAT'):
            out += _chars(av[2])
        elif opn == 'SUBPATTERN':
            out += _chars(av[3])
        else:
            out.append('?' + opn)
    return out


def _enclosing_test_contains(p, f, node, text):
    pm = p.parents(f)
    n = node
    while n is not None:
        par = pm.get(n)
        if isinstance(par, ast.If) and n in par.body and text in src_of(par.test):
            return True
        if isinstance(par, ast.IfExp) and n is par.body and text in src_of(par.test):
            return True
        n = par
    return False


# ------------------------------------------------------------------ EXC-KEY
def _killing_assignment(g, name, use_node):
    """last unconditional top-level `name = value` that precedes the top-level
    statement containing use_node (flow-sensitivity for `x = f(x)` re-binding)"""
    if use_node is None:
        return None
    top = None
    for st in g.node.body:
        if any(n is use_node for n in ast.walk(st)):
            top = st
            break
    if top is None:
        return None
    killer = None
    for st in g.node.body:
        if st is top:
            break
        if isinstance(st, ast.Assign) and len(st.targets) == 1 and isinstance(st.targets[0], ast.Name) and st.targets[0].id == name:
            killer = st
    return killer


def dict_keys_of(p, f, expr, depth=0, seen=None, allow_none=False, use=None):
    """Keys a dict-valued expression is guaranteed to have, or None if its
    origin is outside the library's control (caller data, unknown)."""
    seen = seen or set()
    if depth > 5:
        return None
    if isinstance(expr, ast.Dict):
        ks = set()
        for k in expr.keys:
            if k is None:
                return None
            v = p.try_const(f, k)
            if v is None:
                return None
            ks.add(v)
        return ks
    if isinstance(expr, ast.BoolOp) and isinstance(expr.op, ast.Or):
        out = None
        for i, v in enumerate(expr.values):
            ks = dict_keys_of(p, f, v, depth + 1, seen, allow_none=(i < len(expr.values) - 1))
            if ks is None:
                return None
            out = ks if out is None else out & ks
        return out
    if isinstance(expr, ast.Call) and isinstance(expr.func, ast.Attribute) and expr.func.attr == 'get' and len(expr.args) == 1:
        e = p.resolve_expr(f, expr.func.value)
        if e is not None and e.kind == 'const':
            m, name, values = e.obj
            if len(values) == 1 and isinstance(values[0], ast.Dict):
                tkeys = [p.try_const(m, k) for k in values[0].keys]
                k = p.try_const(f, expr.args[0])
                if not allow_none and (k is None or k not in tkeys):
                    return None       # may be None
                out = None
                for v in values[0].values:
                    ks = dict_keys_of(p, m, v, depth + 1, seen)
                    if ks is None:
                        return None
                    out = ks if out is None else out & ks
                return out
        return None
    if isinstance(expr, ast.Call):
        tgt = p.resolve_call(f, expr)
        if isinstance(tgt, list) and len(tgt) == 1:
            g = tgt[0]
            rets = [n.value for n in g.body_nodes() if isinstance(n, ast.Return) and n.value is not None]
            out = None
            for r in rets:
                ks = dict_keys_of(p, g, r, depth + 1, seen)
                if ks is None:
                    return None
                out = ks if out is None else out & ks
            return out
        if isinstance(tgt, tuple) and tgt == ('builtin', 'dict'):
            if not expr.args:
                return {k.arg for k in expr.keywords if k.arg}
        return None
    if isinstance(expr, ast.Name):
        e = p.resolve_name(f, expr.id)
        if e is None:
            return None
        if e.kind == 'local':
            g, name = e.obj
            key = (g.qualname, name)
            if key in seen:
                return None
            seen = seen | {key}
            out = None
            killer = _killing_assignment(g, name, expr if g is f else None)
            if killer is not None:
                later = [n for n in g.body_nodes() if isinstance(n, ast.Assign) and n is not killer and n.lineno > killer.lineno
                         and any(isinstance(t, ast.Name) and t.id == name for t in n.targets)]
                out = dict_keys_of(p, g, killer.value, depth + 1, seen)
                for n in later:
                    ks = dict_keys_of(p, g, n.value, depth + 1, seen)
                    if ks is None or out is None:
                        return None
                    out &= ks
                return out
            if name in g.all_params():
                # all call sites
                sites = callgraph.get(p).callers_of(g)
                if not sites:
                    return None
                ix = g.params.index(name) if name in g.params else None
                for caller, call in sites:
                    arg = None
                    if ix is not None:
                        off = ix - (1 if g.cls is not None and isinstance(call.func, ast.Attribute) else 0)
                        if 0 <= off < len(call.args):
                            arg = call.args[off]
                    for k in call.keywords:
                        if k.arg == name:
                            arg = k.value
                    if arg is None:
                        d = g.defaults.get(name)
                        if d is None:
                            return None
                        ks = dict_keys_of(p, g, d, depth + 1, seen)
                    else:
                        ks = dict_keys_of(p, caller, arg, depth + 1, seen)
                    if ks is None:
                        return None
                    out = ks if out is None else out & ks
            vals = p.local_assignments(g, name)
            for v in vals:
                if v is None:
                    return None
                ks = dict_keys_of(p, g, v, depth + 1, seen)
                if ks is None:
                    return None
                out = ks if out is None else out & ks
            return out
        if e.kind == 'const':
            m, name, values = e.obj
            if len(values) == 1 and values[0] is not None:
                return dict_keys_of(p, m, values[0], depth + 1, seen)
        return None
    return None


def _in_guard(p, f, node, key, recv_src):
    pm = p.parents(f)
    n = node
    want = '%r in %s' % (key, recv_src)
    while n is not None:
        par = pm.get(n)
        if isinstance(par, (ast.If, ast.IfExp)) and (n in par.body if isinstance(par, ast.If) else n is par.body) and want in src_of(par.test):
            return True
        if isinstance(par, ast.BoolOp) and isinstance(par.op, ast.And):
            ix = par.values.index(n)
            if any(want in src_of(v) for v in par.values[:ix]):
                return True
        n = par
    return False


@rule('EXC-KEY', 'N', 'constant-key subscripts read dicts that provably contain the key')
def exc_key(p, res):
    from .. import shape
    skip_profile = ('state.options', )     # TAB-KEYS-PROFILE decides these
    for f in p.funcs.values():
        defs = None
        for n in f.body_nodes():
            if not (isinstance(n, ast.Subscript) and isinstance(n.ctx, ast.Load)):
                continue
            k = p.try_const(f, n.slice)
            if not isinstance(k, str):
                continue
            recv = src_of(n.value)
            if f.module.name.endswith('indent_format'):
                defs = shape.defs_of(f.node, params=f.params) if defs is None else defs
                if src_of(shape.expand(n.value, defs)) in skip_profile:
                    continue
            ks = dict_keys_of(p, f, n.value)
            if ks is not None and k in ks:
                res.ok('%s: %s (dict built with that key)' % (f.short, src_of(n)))
            elif _in_guard(p, f, n, k, recv):
                res.ok('%s: %s guarded by `in`' % (f.short, src_of(n)))
            elif ks is not None:
                res.bad(F('EXC-KEY', f, n, src_of(n), 'dict is built without key %r: KeyError' % k))
            else:
                res.bad(F('EXC-KEY', f, n, src_of(n), 'key %r is read by raw subscript from a dict the caller controls (sibling sites use .get): KeyError' % k,
                          failing_input="expand('c', {'type': 'stylesheet', 'context': {'foo': 1}})"))
    res.require_floor(25)
