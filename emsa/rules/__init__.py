"""Rule registry.  A rule is `fn(project, res)` filling a RuleResult."""
import importlib

REGISTRY = {}


def rule(name, clause='N', text=''):
    def deco(fn):
        REGISTRY[name] = (fn, clause, text)
        return fn
    return deco


_MODULES = ['tab', 'exc', 'num', 'rng', 'own', 'ordacc', 'dec', 'scn', 'path', 'inf', 'idx', 'pin', 'pin2', 'frame', 'tbl', 'order', 'api', 'argkind']


def load_all():
    for m in _MODULES:
        try:
            importlib.import_module('emsa.rules.' + m)
        except ModuleNotFoundError as e:
            if e.name != 'emsa.rules.' + m:
                raise
    return REGISTRY
