"""ORD-MERGE, ACC-*, COV-MERGE, CENSUS."""
import ast

from . import rule
from ..core import AnalysisError, src_of, Class
from ..report import Finding
from .. import callgraph
from ..linear import linear


def F(rule_name, f, node, construct, message, **kw):
    return Finding(rule_name, f.module.relpath, f.short, construct, message, getattr(node, 'lineno', 0), **kw)


# ---------------------------------------------------------------- ORD-MERGE
LAYER_ORDER = ['defaults', 'type-defaults', 'syntax-defaults', 'global-type', 'global-syntax', 'user']


def _layer_of_table(tbl_src, key_src, params):
    """which layer does  <table>.get(<key>, ..) / <table>[<key>]  denote?  params = (syntax_type, syntax, key, user, global)"""
    st, sy, key, user, glob = params
    if tbl_src == 'SYNTAX_CONFIG' and key_src == st:
        return 'type-defaults'
    if tbl_src == 'SYNTAX_CONFIG' and key_src == sy:
        return 'syntax-defaults'
    if tbl_src == glob and key_src == st:
        return 'global-type'
    if tbl_src == glob and key_src == sy:
        return 'global-syntax'
    return None


@rule('ORD-MERGE', 'D', 'config layers are merged into a fresh dict in the documented order, each looked up safely')
def ord_merge(p, res):
    from .. import norm, shape
    f = p.func('config.merged_data')
    if len(f.params) < 5:
        raise AnalysisError('ORD-MERGE: merged_data has %d parameters' % len(f.params))
    params = tuple(f.params[:5])
    st, sy, key, user, glob = params
    node = norm.nf(p, f, inline=True)
    node.body = shape.unroll_literal_loops(node.body)
    defs = shape.defs_of(node, params=f.params)
    pm = shape.parent_map(node)
    rets = [n for n in shape.own_nodes(node) if isinstance(n, ast.Return)]
    if len(rets) != 1 or not isinstance(rets[0].value, ast.Name):
        res.undecided('return of merged_data', 'merged_data must return the one dict it builds')
        return
    R = rets[0].value.id
    rdef = defs.get(R)
    first_layer = None
    if rdef is not None and isinstance(rdef, ast.Call) and isinstance(rdef.func, ast.Name) and rdef.func.id == 'dict' and len(rdef.args) == 1 and not rdef.keywords:
        # dict(X) is a fresh copy of X: the same as {} followed by update(X)
        first_layer = rdef.args[0]
        res.ok('%s = dict(<first layer>) (fresh copy)' % R)
    elif rdef is not None and src_of(rdef) in ('{}', 'dict()'):
        res.ok('%s = {} (fresh)' % R)
    elif rdef is not None and not isinstance(rdef, (ast.Dict, ast.DictComp)):
        res.bad(F('ORD-MERGE', f, rdef, '%s = %s' % (R, src_of(rdef)), 'the merged dict starts as %s, not as a fresh dict: every update writes into a built-in or caller table' % src_of(rdef)))
    else:
        res.undecided('%s = ...' % R, 'merged dict must start as a fresh empty dict')

    def layer(e):
        """(layer, raw subscript?, table expression for the guard)"""
        e2 = shape.expand(e, defs)
        if isinstance(e2, ast.BoolOp) and isinstance(e2.op, ast.Or) and len(e2.values) >= 2:
            # `A or B`: one layer stands in for another instead of being applied on top of it
            subs = [layer(v)[0] for v in e2.values]
            if all(x in LAYER_ORDER or x == 'unsafe' for x in subs) or sum(1 for x in subs if x in LAYER_ORDER) >= 2:
                return ('either-or', False, None)
        base = keyexpr = None
        raw = False
        if isinstance(e2, ast.Subscript):
            base, keyexpr, raw = e2.value, e2.slice, True
        elif isinstance(e2, ast.Call) and isinstance(e2.func, ast.Attribute) and e2.func.attr == 'get' and e2.args:
            base, keyexpr = e2.func.value, e2.args[0]
            if len(e2.args) < 2:
                # .get(key) without a default yields None for a config that does not mention the section: fine when the update is
                # guarded by a test of the value (`if data is not None:` / `if data:`), otherwise update(None) raises
                facts = shape.implied(getattr(e, '_site', e), pm) if getattr(e, '_site', None) is not None else []
                es = src_of(e)
                if not any((pol and fs in (es, '%s is not None' % es)) or (not pol and fs == '%s is None' % es) for fs, pol in facts):
                    return ('unsafe', raw, None)
        if base is None or src_of(keyexpr) != key:
            return (None, raw, None)
        b = src_of(base)
        if b == 'DEFAULT_CONFIG':
            return ('defaults', raw, base)
        if b == user:
            return ('user', raw, base)
        # base itself is TABLE.get(k, default) / TABLE[k]
        if isinstance(base, ast.Call) and isinstance(base.func, ast.Attribute) and base.func.attr == 'get' and base.args:
            lay = _layer_of_table(src_of(base.func.value), src_of(base.args[0]), params)
            if lay and len(base.args) < 2:
                return ('unsafe-table', raw, base)
            return (lay, raw, base)
        if isinstance(base, ast.Subscript):
            lay = _layer_of_table(src_of(base.value), src_of(base.slice), params)
            return ('unsafe-table' if lay else None, raw, base)
        return (None, raw, None)

    seq = []
    if first_layer is not None:
        fake = ast.Call(func=ast.Attribute(value=ast.Name(id=R, ctx=ast.Load()), attr='update', ctx=ast.Load()), args=[first_layer], keywords=[])
        ast.copy_location(fake, rdef)
        seq.append((layer(first_layer), fake))
    for n in shape.own_nodes(node):
        if isinstance(n, ast.Call) and isinstance(n.func, ast.Attribute) and n.func.attr in ('update', 'setdefault', 'pop', 'clear', 'popitem', '__setitem__'):
            recv = n.func.value
            if isinstance(recv, ast.Name) and recv.id == R:
                if n.func.attr != 'update' or len(n.args) != 1:
                    res.undecided(src_of(n), 'the merged dict is only filled with update(<layer>)')
                    continue
                try:
                    n.args[0]._site = n
                except AttributeError:
                    pass
                seq.append((layer(n.args[0]), n))
            else:
                # a mutator on something else: is it a parameter / table (or derived from one)?
                r2 = shape.expand(recv, defs)
                roots = {x.id for x in ast.walk(r2) if isinstance(x, ast.Name)}
                if roots & ({user, glob, 'SYNTAX_CONFIG', 'DEFAULT_CONFIG', 'DEFAULT_OPTIONS'}):
                    res.bad(F('ORD-MERGE', f, n, src_of(n), 'merging writes into %s, which belongs to the caller or to a built-in table; only the fresh result dict may be written' % src_of(r2)))
    for n in shape.own_nodes(node):
        if isinstance(n, (ast.Assign, ast.AugAssign)):
            for t in (n.targets if isinstance(n, ast.Assign) else [n.target]):
                if isinstance(t, ast.Subscript):
                    r2 = shape.expand(t.value, defs)
                    roots = {x.id for x in ast.walk(r2) if isinstance(x, ast.Name)}
                    if roots & ({user, glob, 'SYNTAX_CONFIG', 'DEFAULT_CONFIG', 'DEFAULT_OPTIONS'}):
                        res.bad(F('ORD-MERGE', f, n, src_of(n), 'merging writes into %s' % src_of(r2)))
    got = [x[0][0] for x in seq]
    if 'either-or' in got:
        pass
    elif None in got or not seq:
        res.undecided('update sources: %s' % [src_of(x[1].args[0]) for x in seq], 'every update source must be one of the six documented layers')
    elif got == LAYER_ORDER:
        res.ok('update order: ' + ' < '.join(got))
    else:
        clean = [g for g in got if g in LAYER_ORDER]
        res.bad(F('ORD-MERGE', f, seq[0][1], 'update order: %s' % ' < '.join(str(g) for g in got),
                  'layers must be applied as %s (later wins)' % ' < '.join(LAYER_ORDER),
                  details=['%s' % src_of(x[1].args[0]) for x in seq]))
    for (lay, raw, base), n in seq:
        if lay == 'either-or':
            res.bad(F('ORD-MERGE', f, n, src_of(shape.expand(n.args[0], defs)), 'two layers are combined with `or`: when the first one mentions the section the second is dropped altogether instead of being applied underneath (every layer must be merged key by key)'))
        elif lay in ('unsafe', 'unsafe-table'):
            res.bad(F('ORD-MERGE', f, n, src_of(n), 'a layer is looked up without a default: a config that does not mention it (unknown syntax name, missing section) raises instead of being skipped'))
        elif raw and lay in LAYER_ORDER:
            want = '%s in %s' % (key, src_of(base))
            facts = shape.implied(n, pm)
            # the guard may be written on the (single-assignment) alias of the table
            ok = any(pol and shape.expand(ast.parse(fs, mode='eval').body, defs) is not None and src_of(shape.expand(ast.parse(fs, mode='eval').body, defs)) == want for fs, pol in facts)
            if ok:
                res.ok('%s guarded by `%s`' % (src_of(n.args[0]), want))
            else:
                res.bad(F('ORD-MERGE', f, n, src_of(n), 'raw subscript on a layer that may not define the section: must be guarded by `%s` (a layer that does not mention the section leaves it untouched)' % want))
        elif lay in LAYER_ORDER:
            res.ok('%s (get with default)' % src_of(n.args[0]))
    # ---- Config.__init__ : what is passed for (syntax_type, syntax, section, user, global)
    init = p.func('config.Config.__init__')
    inode = shape.spell_constants(p, init, norm.nf(p, init, inline=False))
    inode.body = shape.setattr_as_store(shape.unroll_literal_loops(inode.body))
    idefs = shape.defs_of(inode, params=init.params)
    if len(init.params) < 3:
        raise AnalysisError('ORD-MERGE: Config.__init__ parameters changed')
    ucfg, gcfg = init.params[1], init.params[2]
    calls = [c for c in shape.own_nodes(inode) if isinstance(c, ast.Call) and isinstance(p.resolve_call(init, c), list) and p.resolve_call(init, c)[0] is f]
    ipm = shape.parent_map(inode)
    secs = {}
    want_type = "%s.get('type', 'markup')" % ucfg
    for c in calls:
        if len(c.args) != 5 or c.keywords:
            res.undecided(src_of(c), 'merged_data(syntax_type, syntax, section, user_config, global_config)')
            continue
        a = [src_of(shape.expand(x, idefs)) for x in c.args]
        sec = p.try_const(init, c.args[2])
        tgt = ipm.get(c)
        field = src_of(tgt.targets[0]) if isinstance(tgt, ast.Assign) else None
        want_syntax = "%s.get('syntax', DEFAULT_SYNTAXES.get(%s, 'html'))" % (ucfg, want_type)
        def cv(e):
            v = p.try_const(init, e)
            if v is None and isinstance(e, ast.Subscript) and isinstance(e.value, ast.Name):
                # one entry of a module-level dict display whose other entries are not constants
                try:
                    _, disp = p.module_const('config', e.value.id)
                except (AnalysisError, KeyError, ValueError, TypeError):
                    disp = None
                k = p.try_const(init, e.slice)
                if isinstance(disp, ast.Dict) and k is not None:
                    for kk, vv in zip(disp.keys, disp.values):
                        if kk is not None and p.try_const(init.module, kk) == k:
                            return p.try_const(init.module, vv)
            return v

        def is_get(e, key):
            return isinstance(e, ast.Call) and isinstance(e.func, ast.Attribute) and e.func.attr == 'get' and isinstance(e.func.value, ast.Name) \
                and e.func.value.id == ucfg and e.args and p.try_const(init, e.args[0]) == key and not e.keywords

        def kind_ast(e):
            if is_get(e, 'type') and len(e.args) == 2 and cv(e.args[1]) == 'markup':
                return 'type'
            if is_get(e, 'syntax') and len(e.args) == 2:
                d = e.args[1]
                if isinstance(cv(d), str):
                    return 'syntax-fixed-default'       # the default syntax does not depend on the type
                if isinstance(d, ast.Call) and isinstance(d.func, ast.Attribute) and d.func.attr == 'get' and src_of(d.func.value) == 'DEFAULT_SYNTAXES' and d.args:
                    if kind_ast(d.args[0]) == 'type' and len(d.args) == 2 and cv(d.args[1]) == 'html':
                        return 'syntax'
                    if isinstance(cv(d.args[0]), str):
                        return 'syntax-fixed-default'
            return None

        def kind(t, e=None):
            if t == want_type:
                return 'type'
            if t == want_syntax:
                return 'syntax'
            if e is not None and kind_ast(e) is not None:
                return kind_ast(e)
            if t.isidentifier() and sum(1 for x in shape.own_nodes(inode) if isinstance(x, ast.Name) and isinstance(x.ctx, ast.Store) and x.id == t) > 1:
                return 'rebound'         # assigned, then assigned again on some path: the name given by the caller is replaced there
            if t.isidentifier():
                return 'opaque'          # a local the expansion cannot see through: result of a helper, an unpacked tuple, a loop variable
            return 'other'
        k0, k1 = kind(a[0], shape.expand(c.args[0], idefs)), kind(a[1], shape.expand(c.args[1], idefs))
        if k0 == 'rebound' or k1 == 'rebound':
            res.bad(F('ORD-MERGE', init, c, src_of(c), 'type and syntax must be taken from the config as given: `%s` is re-assigned on some path before it is used as a layer key (an unknown syntax name simply has no layers; replacing it applies the layers of another syntax)' % (a[0] if k0 == 'rebound' else a[1])))
        elif k0 == 'syntax' or (k0 == 'other' and not (".get('type'" in a[0] and ".get('syntax'" not in a[0] and ' if ' not in a[0])) or (a[0] == a[1] and k0 != 'opaque'):
            res.bad(F('ORD-MERGE', init, c, src_of(c), "first argument must be the abbreviation type (%s), is %s" % (want_type, a[0])))
        elif k0 != 'type':
            res.undecided(src_of(c), 'the first argument (%s) is computed elsewhere: not recognised as the abbreviation type' % a[0])
        elif k1 == 'syntax-fixed-default':
            res.bad(F('ORD-MERGE', init, c, src_of(c), 'the syntax falls back to one fixed name whatever the abbreviation type is (must be the default syntax of the type: css for stylesheet): %s' % a[1]))
        elif k1 == 'type' or (k1 == 'other' and not (".get('syntax'" in a[1] and ' if ' not in a[1] and ' in ' not in a[1] and ' or ' not in a[1])):
            res.bad(F('ORD-MERGE', init, c, src_of(c), 'second argument must be the syntax name (user syntax, else the default syntax of the type), is %s' % a[1]))
        elif k1 != 'syntax':
            res.undecided(src_of(c), 'the second argument (%s) is computed elsewhere: not recognised as the syntax name' % a[1])
        elif a[3] != ucfg or a[4] != gcfg:
            res.bad(F('ORD-MERGE', init, c, src_of(c), 'the call\'s own config and the global config must be passed as 4th and 5th argument, in this order'))
        elif not isinstance(sec, str) or field is None:
            res.undecided('%s = %s' % (field, src_of(c)), 'the section name or the field it is stored in is computed')
        elif field != 'self.%s' % sec:
            res.bad(F('ORD-MERGE', init, c, '%s = %s' % (field, src_of(c)), 'section %r must be stored in the field of the same name' % sec))
        else:
            secs[sec] = field
            res.ok('self.%s = merged_data(type, syntax, %r, user, global)' % (sec, sec))
    for sec in ('variables', 'snippets', 'options'):
        if sec not in secs and len(calls) >= 1 and not res.undecideds:
            res.bad(F('ORD-MERGE', init, init.node, "merged_data(.., %r, ..)" % sec, 'section %r is not merged (correctly)' % sec)) if len(secs) + 1 <= len(calls) else None
    stores = {src_of(n.targets[0]): src_of(shape.expand(n.value, idefs)) for n in shape.own_nodes(inode) if isinstance(n, ast.Assign) and len(n.targets) == 1 and src_of(n.targets[0]).startswith('self.')}
    if stores.get('self.type') == want_type and stores.get('self.syntax') == "%s.get('syntax', DEFAULT_SYNTAXES.get(%s, 'html'))" % (ucfg, want_type):
        res.ok('Config.type / Config.syntax are the names the caller gave (unknown names are kept)')
    elif 'self.syntax' in stores and 'self.type' in stores and (stores['self.type'].isidentifier() or stores['self.syntax'].isidentifier()
                                                                 or (".get('syntax'" in stores['self.syntax'] and not any(w in stores['self.syntax'] for w in (' if ', ' in ', ' or ')))) \
            and not any(w in stores['self.type'] + stores['self.syntax'] for w in (' if ', ' in ', ' or ')):
        res.undecided('self.type = %s ; self.syntax = %s' % (stores.get('self.type'), stores.get('self.syntax')), 'computed elsewhere: not recognised as the names given by the caller')
    elif 'self.syntax' in stores and 'self.type' in stores:
        res.bad(F('ORD-MERGE', init, init.node, 'self.type = %s ; self.syntax = %s' % (stores.get('self.type'), stores.get('self.syntax')),
                  'type and syntax must be taken from the config as given: an unknown syntax name is kept (it simply has no layers), never replaced'))
    else:
        res.undecided('self.type / self.syntax', 'fields must hold the names given by the caller')
    m, node2 = p.module_const('config', 'DEFAULT_SYNTAXES')
    v = p.try_const(m, node2)
    if v == {'markup': 'html', 'stylesheet': 'css'}:
        res.ok("DEFAULT_SYNTAXES == {'markup': 'html', 'stylesheet': 'css'}")
    elif isinstance(v, dict):
        res.bad(Finding('ORD-MERGE', m.relpath, 'config.DEFAULT_SYNTAXES', src_of(node2), 'default syntaxes changed', node2.lineno))
    else:
        res.undecided('DEFAULT_SYNTAXES', 'literal table expected')
    # expand(): every Config built from the call's config also receives the global config
    ex = p.func('expand')
    ctor = [c for c in ex.body_nodes() if isinstance(c, ast.Call) and isinstance(p.resolve_call(ex, c), Class) and p.resolve_call(ex, c).name == 'Config']
    if not ctor:
        res.undecided('Config(...) in expand', 'expand builds the Config')
    for c in ctor:
        args = [src_of(a) for a in c.args] + ['%s=%s' % (k.arg, src_of(k.value)) for k in c.keywords]
        if args in (['config', 'global_config'], ['config', 'global_config=global_config'], ['user_config=config', 'global_config=global_config']):
            res.ok('expand: ' + src_of(c))
        else:
            res.bad(F('ORD-MERGE', ex, c, src_of(c), 'expand must build Config(config, global_config): otherwise the global layers are dropped'))
    # built-in layer tables
    m, node3 = p.module_const('config', 'SYNTAX_CONFIG')
    keys = [p.try_const(m, k) for k in node3.keys] if isinstance(node3, ast.Dict) else None
    if keys is None:
        res.undecided('SYNTAX_CONFIG', 'literal table expected')
    else:
        for k in ('markup', 'stylesheet'):
            if k in keys:
                res.ok('SYNTAX_CONFIG has the %r type layer' % k)
            else:
                res.bad(Finding('ORD-MERGE', m.relpath, 'config.SYNTAX_CONFIG', 'SYNTAX_CONFIG[%r]' % k, 'type layer missing', node3.lineno))
    m, node4 = p.module_const('config', 'DEFAULT_CONFIG')
    from ..norm import _Tests
    n4 = _Tests().visit(__import__('copy').deepcopy(node4))
    dk = {p.try_const(m, k): src_of(v) for k, v in zip(n4.keys, n4.values)} if isinstance(n4, ast.Dict) else None
    if dk is None:
        res.undecided('DEFAULT_CONFIG', 'literal table expected')
    elif dk.get('options') == 'DEFAULT_OPTIONS' and dk.get('variables') == 'variables' and dk.get('snippets') == '{}':
        res.ok('DEFAULT_CONFIG sections: options, variables, snippets')
    else:
        res.bad(Finding('ORD-MERGE', m.relpath, 'config.DEFAULT_CONFIG', str(dk), 'built-in default layer changed', node4.lineno))
    res.require_floor(12)


# --------------------------------------------------------------- ACC-WRITER
ACC_FIELDS = ('_value', 'offset', 'line', 'column')


@rule('ACC-WRITER', 'D', 'offset/line/column/_value are written only by OutputStream, and only in step with the text appended')
def acc_writer(p, res):
    osc = p.cls('output_stream.OutputStream')
    # who may write
    for f in p.funcs.values():
        for n in f.body_nodes():
            tgts = []
            if isinstance(n, ast.Assign):
                tgts = n.targets
            elif isinstance(n, ast.AugAssign):
                tgts = [n.target]
            for t in tgts:
                for x in ast.walk(t):
                    if isinstance(x, ast.Attribute) and isinstance(x.ctx, ast.Store) and x.attr in ACC_FIELDS:
                        rt = p.type_of(f, x.value)
                        is_os = (isinstance(rt, Class) and (rt is osc or osc in p.mro(rt))) or (rt is None and x.attr in ('_value',))
                        inside = f.cls is not None and (f.cls is osc or osc in p.mro(f.cls))
                        if isinstance(rt, Class) and not is_os:
                            continue   # same field name on another class (ScanState.line ...)
                        if rt is None and x.attr in ('offset', 'line', 'column') and not inside:
                            # untyped receiver: only count `out`/`state.out`
                            if src_of(x.value) not in ('out', 'state.out', 'self.out'):
                                continue
                        if not inside:
                            res.bad(F('ACC-WRITER', f, n, src_of(n), 'position bookkeeping of the output stream is written outside OutputStream'))
                        else:
                            res.ok('%s: %s' % (f.short, src_of(n)))
            # mutator calls on _value
            if isinstance(n, ast.Call) and isinstance(n.func, ast.Attribute) and isinstance(n.func.value, ast.Attribute) and n.func.value.attr == '_value' \
                    and n.func.attr in ('append', 'extend', 'insert', 'pop', 'clear', 'remove'):
                if f.qualname != 'emmet.output_stream.OutputStream._push':
                    res.bad(F('ACC-WRITER', f, n, src_of(n), 'the output buffer may only grow in OutputStream._push (which also advances offset and column)'))
                else:
                    res.ok('%s: %s' % (f.short, src_of(n)))
    # ---- the methods themselves, decided on their symbolic path summaries
    from .. import sympath
    from ..linear import linear, show
    from ..shape import strparts

    def paths_of(name, **kw):
        f = p.func('output_stream.OutputStream.' + name)
        try:
            return f, sympath.feasible(sympath.summaries(p, f, inline=False, **kw))
        except sympath.Unsupported as e:
            res.undecided('OutputStream.%s' % name, str(e))
            return f, []

    def evs(q):
        """[(kind, resolved node)]: 'call' / 'store' events in execution order (markers skipped)"""
        out = []
        for sym, n, _ in q.events:
            if sym.startswith('_c'):
                out.append(('call', q.resolve(n)))
            elif sym == '=':
                out.append(('store', q.resolve(n)))
            elif sym.startswith(('_iter', '_stable', '_unstable', '_loop', '_broke')):
                out.append((sym.rstrip('0123456789') if sym.startswith('_loop') else sym, n))
        return out

    # _push: appends its parameter and advances offset and column by its length, nothing else
    push_, pp = paths_of('_push')
    text = push_.params[1]
    if len(pp) == 1:
        E = evs(pp[0])
        apps = [n for k, n in E if k == 'call' and src_of(n.func) == 'self._value.append']
        st = {src_of(n.targets[0]): n.value for k, n in E if k == 'store'}
        others = [src_of(n) for k, n in E if k == 'call' and src_of(n.func) != 'self._value.append']
        if len(apps) == 1 and src_of(apps[0].args[0]) == text:
            res.ok('_push appends its argument unchanged')
        elif len(apps) == 1:
            res.bad(F('ACC-WRITER', push_, push_.node, src_of(apps[0]), '_push must append exactly the text it was given'))
        else:
            res.bad(F('ACC-WRITER', push_, push_.node, 'self._value.append(..) x%d' % len(apps), '_push must append the text exactly once'))
        for fld in ('offset', 'column'):
            v = st.get('self.' + fld)
            lin = linear(v) if v is not None else None
            if lin == {'self.' + fld: 1, 'len(%s)' % text: 1}:
                res.ok('_push: self.%s advances by len(%s)' % (fld, text))
            elif v is None:
                res.bad(F('ACC-WRITER', push_, push_.node, 'self.%s' % fld, '%s is not advanced by _push: positions reported to the callbacks fall behind the text' % fld))
            else:
                res.bad(F('ACC-WRITER', push_, push_.node, 'self.%s = %s' % (fld, src_of(v)), '%s must advance by exactly the length of the appended text' % fld))
        extra = set(st) - {'self.offset', 'self.column'}
        if extra or others:
            res.bad(F('ACC-WRITER', push_, push_.node, ' ; '.join(sorted(extra) + others), '_push must do nothing but append and advance offset and column'))
        else:
            res.ok('_push does nothing else')
    elif pp:
        res.bad(F('ACC-WRITER', push_, push_.node, '%d paths through _push' % len(pp), '_push must be unconditional: append, offset, column'))
    # offset/column are advanced nowhere else; line only in push_newline
    for m in osc.methods.values():
        for n in m.body_nodes():
            if isinstance(n, (ast.AugAssign, ast.Assign)):
                for t in (n.targets if isinstance(n, ast.Assign) else [n.target]):
                    s = src_of(t)
                    if s in ('self.offset', 'self.column', 'self.line', 'self._value') and m.name not in ('__init__', '_push'):
                        if m.name == 'push_newline' and s in ('self.line', 'self.column'):
                            continue
                        res.bad(F('ACC-WRITER', m, n, src_of(n), '%s may only change in _push%s' % (s, ' / push_newline' if s != 'self.offset' else '')))
    # push_newline: newline text goes through push, then line += 1 and column = len(base_indent); indentation by the level
    pn, pnp = paths_of('push_newline')
    ind = pn.params[1] if len(pn.params) > 1 else 'indent'
    NL, BI = "self.options.get('output.newline')", "self.options.get('output.baseIndent')"
    n_ok = 0
    for q in pnp:
        E = evs(q)
        kinds = [(k, src_of(n.func) if k == 'call' else src_of(n.targets[0])) for k, n in E]
        want = [('call', 'self.push'), ('store', 'self.line'), ('store', 'self.column')]
        truth = q.rconds().get(ind)
        where = ['path: ' + q.cond_str()]
        if kinds[:3] != want:
            if sorted(kinds[:3]) == sorted(want):
                res.bad(F('ACC-WRITER', pn, pn.node, ' ; '.join(src_of(n) for _, n in E[:3]), 'push_newline must emit newline+baseIndent through push() first and only then count the line and reset the column (push advances the column)', details=where))
            elif ('call', 'self._push') in kinds or ('call', 'self._value.append') in kinds:
                res.bad(F('ACC-WRITER', pn, pn.node, ' ; '.join(src_of(n) for _, n in E[:3]), 'the newline must go through push() (output.text callback and bookkeeping)', details=where))
            else:
                res.undecided('push_newline: %s' % ' ; '.join(src_of(n) for _, n in E), 'push(newline + baseIndent); line += 1; column = len(baseIndent)')
            continue
        parts = strparts(E[0][1].args[0]) if E[0][1].args else None
        line_v, col_v = E[1][1].value, E[2][1].value
        if parts != [('x', NL), ('x', BI)]:
            if parts is not None and all(isinstance(x, tuple) for x in parts) and sorted(x[1] for x in parts) == sorted([NL, BI]):
                res.bad(F('ACC-WRITER', pn, pn.node, src_of(E[0][1]), 'the base indent goes after the newline', details=where))
            elif parts is not None and ('x', NL) not in parts:
                res.bad(F('ACC-WRITER', pn, pn.node, src_of(E[0][1]), 'push_newline must use the output.newline option', details=where))
            elif parts is not None and ('x', BI) not in parts:
                res.bad(F('ACC-WRITER', pn, pn.node, src_of(E[0][1]), 'push_newline must emit output.baseIndent after the newline', details=where))
            else:
                res.undecided('push_newline text %s' % src_of(E[0][1]), 'newline + baseIndent')
            continue
        if linear(line_v) != {'self.line': 1, '1': 1}:
            res.bad(F('ACC-WRITER', pn, pn.node, 'self.line = %s' % src_of(line_v), 'a newline advances the line count by one', details=where))
            continue
        if src_of(col_v) != 'len(%s)' % BI:
            # maybe computed from offsets: a snapshot of self.offset taken before the push is O, self.offset afterwards is
            # O + len(newline) + len(baseIndent) (what push() appended, for a length-preserving text callback)
            raw = [n for sym, n, _ in q.events if sym == '=' and src_of(n.targets[0]) == 'self.column']
            lin = None
            if raw:
                npush = next(i for i, (sym, n, _) in enumerate(q.events) if sym.startswith('_c') and src_of(n.func) == 'self.push')
                sub = {}
                for sname, (vn, vexpr, at) in q.snaps.items():
                    if src_of(vexpr) == 'self.offset' and at <= npush:
                        sub[sname] = {'O': 1}
                sub['self.offset'] = {'O': 1, 'len(NL)': 1, 'len(BI)': 1}
                sub['len(%s)' % NL] = {'len(NL)': 1}
                sub['len(%s)' % BI] = {'len(BI)': 1}
                for sname, (vn, vexpr, at) in q.snaps.items():
                    if src_of(q.resolve(vexpr)) in (NL, BI):
                        sub['len(%s)' % sname] = {'len(NL)' if src_of(q.resolve(vexpr)) == NL else 'len(BI)': 1}
                lin = linear(raw[-1].value, sub)
            if lin == {'len(BI)': 1}:
                pass
            elif lin is not None and all(k in ('O', 'len(NL)', 'len(BI)', '1') for k in lin):
                res.bad(F('ACC-WRITER', pn, pn.node, 'self.column = %s' % src_of(col_v), 'after a newline the column is the length of the base indent just written; this evaluates to %s' % show(lin), details=where))
                continue
            else:
                res.undecided('self.column = %s' % src_of(col_v), 'column after a newline: len(baseIndent)')
                continue
        rest = E[3:]
        if truth is True:
            if len(rest) == 1 and rest[0][0] == 'call' and src_of(rest[0][1].func) == 'self.push_indent' and src_of(rest[0][1].args[0]) in ('self.level', ind):
                lvl = src_of(rest[0][1].args[0])
                is_true = q.rconds().get('%s is True' % ind)
                if (lvl == 'self.level') == (is_true is True) or is_true is None:
                    n_ok += 1
                else:
                    res.bad(F('ACC-WRITER', pn, pn.node, src_of(rest[0][1]), 'push_newline(True) indents by the current level, push_newline(n) by n', details=where))
            elif not rest:
                res.bad(F('ACC-WRITER', pn, pn.node, 'no indentation [%s]' % q.cond_str(), 'push_newline(True) must indent by the current level', details=where))
            else:
                res.undecided('push_newline tail %s' % [src_of(n) for _, n in rest], 'push_indent(level | indent)')
        elif truth is False:
            if not rest:
                n_ok += 1
            else:
                res.bad(F('ACC-WRITER', pn, pn.node, ' ; '.join(src_of(n) for _, n in rest), 'push_newline() without indent must not indent', details=where))
        else:
            res.undecided('push_newline path %s' % q.cond_str(), 'indent argument not tested')
    if n_ok >= 2:
        res.ok('push_newline: push(newline+baseIndent); line += 1; column = len(baseIndent); then push_indent(level if indent is True else indent)', n=4)
    # push_indent: output.indent repeated max(size or level, 0) times through push()
    pi, pip = paths_of('push_indent')
    sz = pi.params[1] if len(pi.params) > 1 else 'size'
    IND = "self.options.get('output.indent')"
    good = 0
    for q in pip:
        E = evs(q)
        none = q.rconds().get('%s is None' % sz)
        if none is None and q.rconds().get('%s is not None' % sz) is not None:
            none = not q.rconds()['%s is not None' % sz]
        want_n = 'self.level' if none else sz
        if len(E) == 1 and E[0][0] == 'call' and src_of(E[0][1].func) == 'self.push' and none is not None:
            a0 = src_of(E[0][1].args[0])
            if a0 in ('%s * max(%s, 0)' % (IND, want_n), '%s * max(0, %s)' % (IND, want_n), 'max(%s, 0) * %s' % (want_n, IND)):
                good += 1
            elif a0 in ('%s * %s' % (IND, want_n),):
                good += 1           # str * negative == '' : same text
            elif IND not in a0:
                res.bad(F('ACC-WRITER', pi, pi.node, src_of(E[0][1]), 'push_indent must repeat the output.indent option', details=['path: ' + q.cond_str()]))
            else:
                res.undecided('push_indent: %s' % a0, 'indent * max(size, 0)')
        elif any(k == 'call' and src_of(n.func) in ('self._push', 'self._value.append') for k, n in E):
            res.bad(F('ACC-WRITER', pi, pi.node, ' ; '.join(src_of(n) for _, n in E), 'indentation must go through push()', details=['path: ' + q.cond_str()]))
        else:
            res.undecided('push_indent path %s: %s' % (q.cond_str(), [src_of(n) for _, n in E]), 'one push(indent * max(size, 0))')
    if good >= 2:
        res.ok('push_indent: push(indent * max(size if given else level, 0))', n=2)
    # push_string: lines go through push(), line breaks through push_newline(True), no break before the first line
    ps, psp = paths_of('push_string', unroll=True)
    val = ps.params[1] if len(ps.params) > 1 else 'value'
    for q in psp:
        E = evs(q)
        marks = [k for k, _ in E]
        if '_iter0' not in marks or '_iter1' not in marks:
            res.undecided('push_string', 'one loop over the lines expected')
            continue
        i0, i1 = marks.index('_iter0'), marks.index('_iter1')
        end = next((i for i, k in enumerate(marks) if k in ('_stable', '_unstable')), len(E))
        loop = E[i0][1]
        first = [src_of(n) for k, n in E[i0 + 1:i1] if k == 'call']
        later = [src_of(n) for k, n in E[i1 + 1:end] if k == 'call']
        e0 = [x for x in first if x.startswith('self.push(')]
        if src_of(loop.iter if not (isinstance(loop.iter, ast.Call) and src_of(loop.iter.func) == 'enumerate') else loop.iter.args[0]) not in ('%s.splitlines()' % val,):
            res.undecided('push_string iterates %s' % src_of(loop.iter), 'the lines of the value (API-SPLITLINES decides which splitter)')
        elif len(first) == 1 and first[0].startswith('self.push(_e0_') and len(later) == 2 and later[0] == 'self.push_newline(True)' and later[1].startswith('self.push(_e1_') and '_stable' in marks:
            res.ok('push_string: push(line) / push_newline(True) between lines')
        elif first and first[0].startswith('self.push_newline'):
            res.bad(F('ACC-WRITER', ps, ps.node, ' ; '.join(first), 'a line break is emitted before the first line'))
        elif len(later) == 1 and later[0].startswith('self.push(_e1_'):
            res.bad(F('ACC-WRITER', ps, ps.node, ' ; '.join(later), 'multi-line strings must be emitted line by line with push_newline(True) in between (line/column bookkeeping)'))
        elif len(later) == 2 and later[0].startswith('self.push_newline(') and later[0] != 'self.push_newline(True)':
            res.bad(F('ACC-WRITER', ps, ps.node, later[0], 'continuation lines are indented by the current level: push_newline(True)'))
        else:
            res.undecided('push_string: first %s later %s' % (first, later), 'push(line); then push_newline(True), push(line)')
    res.require_floor(14)


@rule('ACC-CALLBACK', 'D', 'output.text / output.field receive the current offset/line/column and their result is appended unmodified')
def acc_callback(p, res):
    from .. import sympath
    for mname, opt, nargs in (('push', 'output.text', 1), ('push_field', 'output.field', 2)):
        f = p.func('output_stream.OutputStream.' + mname)
        try:
            paths = sympath.feasible(sympath.summaries(p, f, inline=False))
        except sympath.Unsupported as e:
            res.undecided('OutputStream.%s' % mname, str(e))
            continue
        if len(paths) != 1:
            res.undecided('OutputStream.%s' % mname, '%d paths; one unconditional path expected' % len(paths))
            continue
        q = paths[0]
        calls = [(sym, n) for sym, n, _ in q.events if sym.startswith('_c')]
        stores = [n for sym, n, _ in q.events if sym == '=']
        cbs = [(sym, n) for sym, n in calls if src_of(q.resolve(n.func)) == "self.options.get('%s')" % opt]
        pushes = [(sym, n) for sym, n in calls if src_of(n.func) == 'self._push']
        if len(cbs) != 1:
            res.bad(F('ACC-CALLBACK', f, f.node, "self.options.get('%s')(..) x%d" % (opt, len(cbs)), 'the %s callback must be called exactly once per %s' % (opt, mname)))
            continue
        if len(pushes) != 1 or len(pushes[0][1].args) != 1:
            res.bad(F('ACC-CALLBACK', f, f.node, 'self._push(..) x%d' % len(pushes), '%s must append through exactly one _push call' % mname))
            continue
        cb = cbs[0][1]
        arg = pushes[0][1].args[0]
        # a validating pass-through `check(result, ..)`: a project function that returns its first parameter untouched on every
        # returning path (and raises otherwise) hands the callback's string on unmodified
        via = None
        if isinstance(arg, ast.Name) and arg.id != cbs[0][0]:
            for sym, n in calls:
                if sym == arg.id and n.args and isinstance(n.args[0], ast.Name) and n.args[0].id == cbs[0][0]:
                    tgt = p.resolve_call(f, n)
                    if isinstance(tgt, list) and len(tgt) == 1 and tgt[0].cls is None and tgt[0].params:
                        g, p0 = tgt[0], tgt[0].params[0]
                        rets = [x for x in g.body_nodes() if isinstance(x, ast.Return)]
                        stores = [x for x in g.body_nodes() if isinstance(x, ast.Name) and isinstance(x.ctx, ast.Store) and x.id == p0]
                        muts = [x for x in g.body_nodes() if isinstance(x, (ast.Assign, ast.AugAssign, ast.Delete))
                                and any(isinstance(t, (ast.Attribute, ast.Subscript)) for t in (x.targets if isinstance(x, (ast.Assign, ast.Delete)) else [x.target]))]
                        if rets and not stores and not muts and all(isinstance(r.value, ast.Name) and r.value.id == p0 for r in rets):
                            via = sym
                    if via is None:
                        res.undecided('OutputStream.%s: %s' % (mname, q.rsrc(pushes[0][1])), 'the callback result goes through a helper that is not a plain pass-through')
            if via is None and not any(sym == arg.id for sym, n in calls):
                pass
        if via is not None:
            calls = [(sym, n) for sym, n in calls if sym != via]
        elif isinstance(arg, ast.Name) and any(sym == arg.id and n.args and isinstance(n.args[0], ast.Name) and n.args[0].id == cbs[0][0] for sym, n in calls):
            continue
        if via is None and not (isinstance(arg, ast.Name) and arg.id == cbs[0][0]):
            res.bad(F('ACC-CALLBACK', f, f.node, q.rsrc(pushes[0][1]), 'the string returned by the %s callback must be passed to _push unmodified' % opt))
            continue
        between = [n for sym, n in calls if sym not in (cbs[0][0], pushes[0][0])]
        if between or stores:
            res.bad(F('ACC-CALLBACK', f, f.node, ' ; '.join(q.rsrc(n) for n in between + stores), '%s must do nothing but call the callback and append its result (anything in between moves the position the callback was told)' % mname))
            continue
        kws = {k.arg: q.rsrc(k.value) for k in cb.keywords}
        if kws != {'offset': 'self.offset', 'line': 'self.line', 'column': 'self.column'}:
            res.bad(F('ACC-CALLBACK', f, f.node, q.rsrc(cb), 'callback must receive offset=self.offset, line=self.line, column=self.column'))
        else:
            res.ok('%s: callback receives the current offset/line/column and its result is appended unmodified' % mname, n=2)
        pos = [q.rsrc(a) for a in cb.args]
        if pos != f.params[1:1 + nargs]:
            res.bad(F('ACC-CALLBACK', f, f.node, q.rsrc(cb), 'callback positional arguments must be %s' % f.params[1:1 + nargs]))
        else:
            res.ok('%s passes %s' % (mname, pos))
    # census: strings handed to raw push() must not contain newlines -> arguments are option values, constants or split lines
    n_push = 0
    for f in p.funcs.values():
        for n in f.body_nodes():
            if isinstance(n, ast.Call) and isinstance(n.func, ast.Attribute) and n.func.attr == 'push' and n.args:
                rt = p.type_of(f, n.func.value)
                if isinstance(rt, Class) and rt.name == 'OutputStream' or src_of(n.func.value) in ('out', 'self', 'state.out'):
                    n_push += 1
    res.stats['raw_push_sites'] = n_push
    res.assumptions.append('strings handed to raw OutputStream.push contain no newline (push_string splits lines first); %d raw push sites' % n_push)
    res.require_floor(6)


# ---------------------------------------------------------------- COV-MERGE
@rule('COV-MERGE', 'N', 'every piece of data written on a snippet alias is carried over to the definition nodes')
def cov_merge(p, res):
    node_cls = p.cls('abbreviation.convert.AbbreviationNode')
    slots = set(node_cls.slots or ())
    if slots != {'type', 'name', 'value', 'repeat', 'attributes', 'children', 'self_closing'}:
        raise AnalysisError('COV-MERGE: AbbreviationNode slots changed: %s' % sorted(slots))
    from .tablecheck import check_table
    check_table(p, res, 'COV-MERGE', 'markup.snippets.merge', "the alias' self_closing flag, value (when not None) and repeater are transferred to the definition node")
    def top_only_guard(p, f):
        """the cycle guard must look at every snippet that is being expanded: a comparison with the top of the stack only misses
        a cycle through another snippet (a -> b -> a)"""
        pushed = {src_of(n.func.value) for n in f.body_nodes() if isinstance(n, ast.Call) and isinstance(n.func, ast.Attribute) and n.func.attr == 'append'}
        for st in sorted(pushed):
            member = [n for n in f.body_nodes() if isinstance(n, ast.Compare) and any(isinstance(o, (ast.In, ast.NotIn)) for o in n.ops)
                      and any(src_of(c) == st for c in n.comparators)]
            top = [n for n in f.body_nodes() if isinstance(n, ast.Compare) and any(isinstance(o, (ast.Eq, ast.NotEq, ast.Is, ast.IsNot)) for o in n.ops)
                   and any(isinstance(x, ast.Subscript) and src_of(x.value) == st and p.try_const(f, x.slice) == -1 for x in [n.left] + list(n.comparators))]
            if top and not member:
                return top[0], src_of(top[0]), 'the cycle guard compares only with the innermost entry of `%s`: a snippet that refers back to itself through another snippet (a -> b -> a) is expanded without end' % st
        return None

    def first_only(p, f):
        """data written on the alias must reach every top-level node of the definition / the deepest node of the whole definition:
        indexing the definition's children with a constant picks one of them"""
        for n in f.body_nodes():
            if isinstance(n, ast.Call) and isinstance(n.func, ast.Name) and n.func.id in ('merge', 'find_deepest') and n.args:
                for a in n.args:
                    if isinstance(a, ast.Subscript) and isinstance(a.value, ast.Attribute) and a.value.attr == 'children' and isinstance(p.try_const(f, a.slice), int) \
                            and not any(isinstance(x, (ast.For, ast.comprehension)) and any(y is n for y in ast.walk(x)) and src_of(a.value) in src_of(x.iter) for x in ast.walk(f.node)):
                        return n, src_of(n), 'only the definition node at a fixed index receives what was written on the alias (%s): the other top-level nodes of a multi-node definition are skipped' % src_of(a)
        return None
    check_table(p, res, 'COV-MERGE', 'markup.snippets.resolve_snippets.resolve',
                'cycle guard (tested before the push, popped after the recursive walk); attributes of the alias are concatenated after the definition\'s (before, when reversed) and merge(child, top_node) runs for every top-level node of the definition',
                detectors=(top_only_guard, first_only))
    check_table(p, res, 'COV-MERGE', 'markup.snippets.walk_resolve', 'resolved definition nodes replace the alias; the alias\' children go below the deepest node of the definition; unresolved nodes are kept and walked',
                detectors=(first_only,))
    check_table(p, res, 'COV-MERGE', 'markup.utils.find_deepest', 'the deepest node is found by following the *last* child')
    res.require_floor(4)


# ------------------------------------------------------------------- CENSUS
@rule('CENSUS', 'D', 'dynamic language features are limited to the modelled ones')
def census(p, res):
    allowed_dyn = {
        ('emmet.abbreviation.stringify.stringify', 'globals'),
        ('emmet.config.Config.get', 'dir'), ('emmet.config.Config.get', '__getattribute__'),
        ('emmet.abbreviation.tokenizer.tokens.Token.to_json', 'dir'), ('emmet.abbreviation.tokenizer.tokens.Token.to_json', '__getattribute__'),
        ('emmet.css_abbreviation.tokenizer.tokens.Token.to_json', 'dir'), ('emmet.css_abbreviation.tokenizer.tokens.Token.to_json', '__getattribute__'),
        ('emmet.stylesheet.format.output_value', 'hasattr'),
    }
    banned = {'eval', 'exec', 'setattr', 'getattr', 'delattr', 'globals', 'locals', 'vars', 'dir', 'compile', '__import__', 'hasattr'}
    outside = []
    for f in p.funcs.values():
        for n in f.body_nodes():
            name = None
            if isinstance(n, ast.Call) and isinstance(n.func, ast.Name) and n.func.id in banned:
                name = n.func.id
                if name in ('getattr', 'hasattr') and len(n.args) >= 2 and isinstance(n.args[1], ast.Constant) and isinstance(n.args[1].value, str):
                    res.ok('%s uses %s with a constant attribute name (a plain attribute read)' % (f.short, name))
                    continue
            elif isinstance(n, ast.Attribute) and n.attr in ('__dict__', '__getattribute__', '__setattr__'):
                name = n.attr
            if name is None:
                continue
            if (f.qualname, name) in allowed_dyn:
                res.ok('%s uses %s (modelled)' % (f.short, name))
            else:
                outside.append('%s:%d %s uses %s' % (f.module.relpath, n.lineno, f.short, name))
    for m in p.modules.values():
        for n in ast.walk(m.tree):
            if isinstance(n, (ast.With, ast.AsyncWith, ast.AsyncFunctionDef, ast.Yield, ast.YieldFrom, ast.Await)) or type(n).__name__ in ('Match', 'TryStar'):
                outside.append('%s:%d %s' % (m.relpath, getattr(n, 'lineno', 0), type(n).__name__))
            if isinstance(n, ast.FunctionDef):
                for d in n.decorator_list:
                    if src_of(d) not in ('property', 'staticmethod'):
                        outside.append('%s:%d decorator @%s' % (m.relpath, n.lineno, src_of(d)))
    if outside:
        # not a violation of any property: the program left the language subset the resolver models, so nothing can be decided
        raise AnalysisError('CENSUS: constructs outside the analysed language subset: ' + '; '.join(outside[:6]))
    cg = callgraph.get(p)
    res.stats['call_sites'] = cg.n_calls
    res.stats['call_sites_resolved'] = cg.n_resolved
    res.stats['unresolved'] = ['%s: %s' % (f.short, src_of(n)) for f, n in cg.unresolved][:10]
    res.stats['functions'] = len(p.funcs)
    res.stats['modules'] = len(p.modules)
    res.ok('%d modules, %d functions, %d/%d call sites resolved' % (len(p.modules), len(p.funcs), cg.n_resolved, cg.n_calls))
    res.require_floor(8)
