"""ORD-MERGE, ACC-*, COV-MERGE, CENSUS."""
import ast

from . import rule
from ..core import AnalysisError, src_of, Class
from ..report import Finding
from .. import callgraph
from ..linear import linear


def F(rule_name, f, node, construct, message, **kw):
    return Finding(rule_name, f.module.relpath, f.short, construct, message, getattr(node, 'lineno', 0), **kw)


# ---------------------------------------------------------------- ORD-MERGE
@rule('ORD-MERGE', 'D', 'config layers are merged into a fresh dict in the documented order, each looked up safely')
def ord_merge(p, res):
    f = p.func('config.merged_data')
    params = f.params
    if params[:5] != ['syntax_type', 'syntax', 'key', 'user_config', 'global_config']:
        raise AnalysisError('ORD-MERGE: merged_data parameters changed: %s' % params)
    # provenance of locals
    defs = {}
    for n in f.body_nodes():
        if isinstance(n, ast.Assign) and len(n.targets) == 1 and isinstance(n.targets[0], ast.Name):
            defs.setdefault(n.targets[0].id, []).append(n.value)

    def layer_of(expr):
        """name of the layer an update() source denotes"""
        s = src_of(expr)
        # X[key] / X.get(key, empty)
        base = None
        if isinstance(expr, ast.Subscript) and src_of(expr.slice) == 'key':
            base = expr.value
            raw = True
        elif isinstance(expr, ast.Call) and isinstance(expr.func, ast.Attribute) and expr.func.attr == 'get' and expr.args and src_of(expr.args[0]) == 'key':
            base = expr.func.value
            raw = False
            if len(expr.args) < 2:
                return ('unsafe-get', s, raw)
        else:
            return ('unknown', s, None)
        b = src_of(base)
        if b == 'DEFAULT_CONFIG':
            return ('defaults', s, raw)
        if b == 'user_config':
            return ('user', s, raw)
        if isinstance(base, ast.Name) and base.id in defs and len(defs[base.id]) == 1:
            v = defs[base.id][0]
            if isinstance(v, ast.Call) and isinstance(v.func, ast.Attribute) and v.func.attr == 'get' and len(v.args) == 2:
                tbl, k = src_of(v.func.value), src_of(v.args[0])
                if tbl == 'SYNTAX_CONFIG' and k == 'syntax_type':
                    return ('type-defaults', s, raw, base.id)
                if tbl == 'SYNTAX_CONFIG' and k == 'syntax':
                    return ('syntax-defaults', s, raw, base.id)
                if tbl == 'global_config' and k == 'syntax_type':
                    return ('global-type', s, raw, base.id)
                if tbl == 'global_config' and k == 'syntax':
                    return ('global-syntax', s, raw, base.id)
            return ('unknown', s + ' with %s = %s' % (base.id, src_of(v)), raw)
        return ('unknown', s, raw)

    # result is a fresh dict
    rdefs = defs.get('result', [])
    if len(rdefs) == 1 and src_of(rdefs[0]) in ('{}', 'dict()'):
        res.ok('result = {} (fresh)')
    else:
        res.bad(F('ORD-MERGE', f, rdefs[0] if rdefs else f.node, 'result = %s' % (src_of(rdefs[0]) if rdefs else '?'),
                  'the merged dict must start as a fresh empty dict (anything else aliases a built-in or caller table)'))
    seq = []
    for st in f.node.body:
        calls = []
        guard = None
        if isinstance(st, ast.Expr) and isinstance(st.value, ast.Call):
            calls = [st.value]
        elif isinstance(st, ast.If) and not st.orelse:
            guard = src_of(st.test)
            calls = [x.value for x in st.body if isinstance(x, ast.Expr) and isinstance(x.value, ast.Call)]
            if len(calls) != len(st.body):
                raise AnalysisError('ORD-MERGE: unrecognised statement in merged_data: %s' % src_of(st))
        for c in calls:
            if isinstance(c.func, ast.Attribute) and c.func.attr in ('update', 'setdefault', 'pop', 'clear', '__setitem__'):
                recv = src_of(c.func.value)
                if recv != 'result':
                    res.bad(F('ORD-MERGE', f, c, src_of(c), 'merging mutates %s, which belongs to a built-in table or to the caller; only the fresh result dict may be written' % recv))
                    continue
                if c.func.attr != 'update' or len(c.args) != 1:
                    raise AnalysisError('ORD-MERGE: unrecognised mutation of result: %s' % src_of(c))
                lay = layer_of(c.args[0])
                seq.append((lay, guard, c))
    # stores through subscripts on anything
    for n in f.body_nodes():
        if isinstance(n, (ast.Assign, ast.AugAssign)):
            for t in (n.targets if isinstance(n, ast.Assign) else [n.target]):
                if isinstance(t, (ast.Subscript, ast.Attribute)):
                    res.bad(F('ORD-MERGE', f, n, src_of(n), 'merged_data writes into an existing object'))
    want = ['defaults', 'type-defaults', 'syntax-defaults', 'global-type', 'global-syntax', 'user']
    got = [s[0][0] for s in seq]
    if got != want:
        res.bad(F('ORD-MERGE', f, f.node, 'update order: %s' % ' < '.join(got),
                  'layers must be applied as %s (later wins)' % ' < '.join(want),
                  details=['%s  [guard: %s]' % (s[0][1], s[1]) for s in seq]))
    else:
        res.ok('update order: ' + ' < '.join(got))
    for lay, guard, c in seq:
        kind = lay[0]
        raw = lay[2]
        if kind in ('unknown', 'unsafe-get'):
            continue
        if raw:
            base = lay[3] if len(lay) > 3 else None
            if guard != 'key in %s' % base:
                res.bad(F('ORD-MERGE', f, c, src_of(c), 'raw subscript %s must be guarded by `key in %s` (a layer that does not mention the section leaves it untouched)' % (lay[1], base)))
            else:
                res.ok('%s guarded by %s' % (lay[1], guard))
        else:
            res.ok('%s (get with default)' % lay[1])
    # unknown syntax / type names fall back to an empty layer
    for name, vals in defs.items():
        for v in vals:
            if isinstance(v, ast.Call) and isinstance(v.func, ast.Attribute) and v.func.attr == 'get' and src_of(v.func.value) in ('SYNTAX_CONFIG', 'global_config'):
                if len(v.args) != 2:
                    res.bad(F('ORD-MERGE', f, v, '%s = %s' % (name, src_of(v)), 'layer lookup without default: an unknown syntax name yields None and the membership test raises TypeError'))
                else:
                    res.ok('%s = %s' % (name, src_of(v)))
            if isinstance(v, ast.Subscript) and src_of(v.value) in ('SYNTAX_CONFIG', 'global_config'):
                res.bad(F('ORD-MERGE', f, v, '%s = %s' % (name, src_of(v)), 'raw subscript on a layer table: an unknown syntax name raises KeyError'))
    # Config.__init__: the three sections, argument order
    init = p.func('config.Config.__init__')
    calls = [c for c in init.body_nodes() if isinstance(c, ast.Call) and src_of(c.func) == 'merged_data']
    secs = {}
    for c in calls:
        args = [src_of(a) for a in c.args]
        tgt = p.parents(init).get(c)
        field = src_of(tgt.targets[0]) if isinstance(tgt, ast.Assign) else '?'
        if len(args) != 5 or args[0] != 'syntax_type' or args[1] != 'syntax' or args[3] != 'user_config' or args[4] != 'global_config':
            res.bad(F('ORD-MERGE', init, c, src_of(c), 'merged_data must be called as (syntax_type, syntax, <section>, user_config, global_config)'))
            continue
        sec = p.try_const(init, c.args[2])
        secs[sec] = field
        if field != 'self.%s' % sec:
            res.bad(F('ORD-MERGE', init, c, '%s = %s' % (field, src_of(c)), 'section %r must be stored in the field of the same name' % sec))
        else:
            res.ok('%s = %s' % (field, src_of(c)))
    for sec in ('variables', 'snippets', 'options'):
        if sec not in secs:
            res.bad(F('ORD-MERGE', init, init.node, 'merged_data(.., %r, ..)' % sec, 'section %r is no longer merged' % sec))
    s = src_of(init.node)
    for want_src in ("syntax_type = user_config.get('type', 'markup')",
                     "syntax = user_config.get('syntax', DEFAULT_SYNTAXES.get(syntax_type, 'html'))"):
        if want_src in s:
            res.ok(want_src)
        else:
            res.bad(F('ORD-MERGE', init, init.node, want_src, 'type/syntax defaults changed'))
    for var in ('syntax', 'syntax_type'):
        nst = [n for n in init.body_nodes() if isinstance(n, ast.Assign) and any(src_of(t) == var for t in n.targets)]
        if len(nst) == 1:
            res.ok('%s is assigned once (an unknown name is kept, only its layers are empty)' % var)
        else:
            res.bad(F('ORD-MERGE', init, nst[-1] if nst else init.node, ' ; '.join(src_of(n) for n in nst), '`%s` must be taken from the config once and never replaced: an unknown syntax name falls back to the type defaults simply because no layer mentions it' % var))
    for fld in ('self.type = syntax_type', 'self.syntax = syntax', 'self.user_config = user_config'):
        if fld in s:
            res.ok(fld)
        else:
            res.bad(F('ORD-MERGE', init, init.node, fld, 'Config field assignment changed'))
    m, node = p.module_const('config', 'DEFAULT_SYNTAXES')
    if p.try_const(m, node) == {'markup': 'html', 'stylesheet': 'css'}:
        res.ok("DEFAULT_SYNTAXES == {'markup': 'html', 'stylesheet': 'css'}")
    else:
        res.bad(Finding('ORD-MERGE', m.relpath, 'config.DEFAULT_SYNTAXES', src_of(node), 'default syntaxes changed', node.lineno))
    # expand(): every Config built from the call's config also receives the global config
    ex = p.func('expand')
    ctor = [c for c in ex.body_nodes() if isinstance(c, ast.Call) and isinstance(p.resolve_call(ex, c), Class) and p.resolve_call(ex, c).name == 'Config']
    if not ctor:
        raise AnalysisError('ORD-MERGE: expand no longer builds a Config')
    for c in ctor:
        if [src_of(a) for a in c.args] == ['config', 'global_config'] and not c.keywords:
            res.ok('expand: ' + src_of(c))
        else:
            res.bad(F('ORD-MERGE', ex, c, src_of(c), 'expand must build Config(config, global_config): otherwise the global layers are dropped'))
    # built-in layer tables: type entries exist for both abbreviation types
    m, node = p.module_const('config', 'SYNTAX_CONFIG')
    keys = [p.try_const(m, k) for k in node.keys] if isinstance(node, ast.Dict) else []
    for k in ('markup', 'stylesheet'):
        if k in keys:
            res.ok('SYNTAX_CONFIG has the %r type layer' % k)
        else:
            res.bad(Finding('ORD-MERGE', m.relpath, 'config.SYNTAX_CONFIG', 'SYNTAX_CONFIG[%r]' % k, 'type layer missing', node.lineno))
    m, node = p.module_const('config', 'DEFAULT_CONFIG')
    dk = {p.try_const(m, k): src_of(v) for k, v in zip(node.keys, node.values)} if isinstance(node, ast.Dict) else {}
    if dk.get('options') == 'DEFAULT_OPTIONS' and dk.get('variables') == 'variables' and dk.get('snippets') == '{}':
        res.ok('DEFAULT_CONFIG sections: options, variables, snippets')
    else:
        res.bad(Finding('ORD-MERGE', m.relpath, 'config.DEFAULT_CONFIG', str(dk), 'built-in default layer changed', node.lineno))
    res.require_floor(18)


# --------------------------------------------------------------- ACC-WRITER
ACC_FIELDS = ('_value', 'offset', 'line', 'column')


@rule('ACC-WRITER', 'D', 'offset/line/column/_value are written only by OutputStream, and only in step with the text appended')
def acc_writer(p, res):
    osc = p.cls('output_stream.OutputStream')
    # who may write
    for f in p.funcs.values():
        for n in f.body_nodes():
            tgts = []
            if isinstance(n, ast.Assign):
                tgts = n.targets
            elif isinstance(n, ast.AugAssign):
                tgts = [n.target]
            for t in tgts:
                for x in ast.walk(t):
                    if isinstance(x, ast.Attribute) and isinstance(x.ctx, ast.Store) and x.attr in ACC_FIELDS:
                        rt = p.type_of(f, x.value)
                        is_os = (isinstance(rt, Class) and (rt is osc or osc in p.mro(rt))) or (rt is None and x.attr in ('_value',))
                        inside = f.cls is not None and (f.cls is osc or osc in p.mro(f.cls))
                        if isinstance(rt, Class) and not is_os:
                            continue   # same field name on another class (ScanState.line ...)
                        if rt is None and x.attr in ('offset', 'line', 'column') and not inside:
                            # untyped receiver: only count `out`/`state.out`
                            if src_of(x.value) not in ('out', 'state.out', 'self.out'):
                                continue
                        if not inside:
                            res.bad(F('ACC-WRITER', f, n, src_of(n), 'position bookkeeping of the output stream is written outside OutputStream'))
                        else:
                            res.ok('%s: %s' % (f.short, src_of(n)))
            # mutator calls on _value
            if isinstance(n, ast.Call) and isinstance(n.func, ast.Attribute) and isinstance(n.func.value, ast.Attribute) and n.func.value.attr == '_value' \
                    and n.func.attr in ('append', 'extend', 'insert', 'pop', 'clear', 'remove'):
                if f.qualname != 'emmet.output_stream.OutputStream._push':
                    res.bad(F('ACC-WRITER', f, n, src_of(n), 'the output buffer may only grow in OutputStream._push (which also advances offset and column)'))
                else:
                    res.ok('%s: %s' % (f.short, src_of(n)))
    # _push: appends its parameter and advances offset and column by its length
    push_ = p.func('output_stream.OutputStream._push')
    text = push_.params[1]
    from .num import inline
    app = [n for n in push_.body_nodes() if isinstance(n, ast.Call) and src_of(n.func) == 'self._value.append']
    if len(app) == 1 and src_of(app[0].args[0]) == text:
        res.ok('_push appends its argument unchanged')
    else:
        res.bad(F('ACC-WRITER', push_, push_.node, 'self._value.append(..)', '_push must append exactly the text it was given'))
    for fld in ('offset', 'column'):
        aug = [n for n in push_.body_nodes() if isinstance(n, ast.AugAssign) and src_of(n.target) == 'self.' + fld]
        okk = len(aug) == 1 and isinstance(aug[0].op, ast.Add) and src_of(inline(p, push_, aug[0].value)) == 'len(%s)' % text
        if okk:
            res.ok('_push: self.%s += len(%s)' % (fld, text))
        else:
            res.bad(F('ACC-WRITER', push_, aug[0] if aug else push_.node, 'self.%s += ..' % fld, '%s must advance by the length of the appended text' % fld))
    if any(isinstance(n, (ast.If, ast.Return, ast.For, ast.While)) for n in push_.body_nodes()):
        res.bad(F('ACC-WRITER', push_, push_.node, 'control flow in _push', '_push must be straight-line: append, offset, column'))
    else:
        res.ok('_push is straight-line')
    # offset/column are advanced nowhere else; line only in push_newline
    for m in osc.methods.values():
        for n in m.body_nodes():
            if isinstance(n, (ast.AugAssign, ast.Assign)):
                for t in (n.targets if isinstance(n, ast.Assign) else [n.target]):
                    s = src_of(t)
                    if s in ('self.offset', 'self.column', 'self.line', 'self._value') and m.name not in ('__init__', '_push'):
                        if m.name == 'push_newline' and s in ('self.line', 'self.column'):
                            continue
                        res.bad(F('ACC-WRITER', m, n, src_of(n), '%s may only change in _push%s' % (s, ' / push_newline' if s != 'self.offset' else '')))
    # push_newline: newline text goes through push, then line += 1 and column = len(base_indent)
    pn = p.func('output_stream.OutputStream.push_newline')
    body = [src_of(s) for s in pn.node.body if not (isinstance(s, ast.Expr) and isinstance(s.value, ast.Constant))]
    want_order = ["self.push('%s%s' % (newline, base_indent))", 'self.line += 1', 'self.column = len(base_indent)']
    ix = [body.index(w) if w in body else -1 for w in want_order]
    if -1 not in ix and ix == sorted(ix):
        res.ok('push_newline: push(newline+baseIndent); line += 1; column = len(baseIndent)')
    else:
        res.bad(F('ACC-WRITER', pn, pn.node, ' ; '.join(body), 'push_newline must emit newline+baseIndent through push(), then count the line and reset the column to len(baseIndent)'))
    for want, key in (("base_indent = self.options.get('output.baseIndent')", 'output.baseIndent'), ("newline = self.options.get('output.newline')", 'output.newline')):
        if want in body:
            res.ok(want)
        else:
            res.bad(F('ACC-WRITER', pn, pn.node, want, 'push_newline must use the %s option' % key))
    ind = [s for s in pn.node.body if isinstance(s, ast.If)]
    if len(ind) == 1 and src_of(ind[0].test) == 'indent' and [src_of(x) for x in ind[0].body] == ['self.push_indent(self.level if indent is True else indent)']:
        res.ok('push_newline indents by self.level when indent is True')
    else:
        res.bad(F('ACC-WRITER', pn, pn.node, 'if indent: ...', 'push_newline(True) must indent by the current level; baseIndent must not depend on `indent`'))
    pi = p.func('output_stream.OutputStream.push_indent')
    s = src_of(pi.node)
    if "indent = self.options.get('output.indent')" in s and 'self.push(indent * max(size, 0))' in s and 'if size is None:\n        size = self.level' in s:
        res.ok('push_indent: push(indent * max(size, 0))')
    else:
        res.bad(F('ACC-WRITER', pi, pi.node, 'push_indent body', 'push_indent must emit output.indent repeated max(size, 0) times through push()'))
    # push_string: lines go through push(), line breaks through push_newline(True)
    ps = p.func('output_stream.OutputStream.push_string')
    s = src_of(ps.node)
    if 'self.push(line)' in s and 'self.push_newline(True)' in s and 'if not first:' in s:
        res.ok('push_string: push(line) / push_newline(True) between lines')
    else:
        res.bad(F('ACC-WRITER', ps, ps.node, 'push_string body', 'multi-line strings must be emitted line by line with push_newline(True) in between'))
    res.require_floor(14)


@rule('ACC-CALLBACK', 'D', 'output.text / output.field receive the current offset/line/column and their result is appended unmodified')
def acc_callback(p, res):
    for mname, opt, nargs in (('push', 'output.text', 1), ('push_field', 'output.field', 2)):
        f = p.func('output_stream.OutputStream.' + mname)
        cbdef = [n for n in f.body_nodes() if isinstance(n, ast.Assign) and isinstance(n.value, ast.Call) and src_of(n.value) == "self.options.get('%s')" % opt]
        if len(cbdef) != 1:
            res.bad(F('ACC-CALLBACK', f, f.node, "self.options.get('%s')" % opt, 'callback must be read from option %s' % opt))
            continue
        cb = src_of(cbdef[0].targets[0])
        pushes = [n for n in f.body_nodes() if isinstance(n, ast.Call) and src_of(n.func) == 'self._push']
        if len(pushes) != 1 or len(pushes[0].args) != 1:
            res.bad(F('ACC-CALLBACK', f, f.node, 'self._push(..)', '%s must append through exactly one _push call' % mname))
            continue
        inner = pushes[0].args[0]
        if not (isinstance(inner, ast.Call) and src_of(inner.func) == cb):
            res.bad(F('ACC-CALLBACK', f, pushes[0], src_of(pushes[0]), 'the string returned by the %s callback must be passed to _push unmodified, in the same expression that reads the position' % opt))
            continue
        kws = {k.arg: src_of(k.value) for k in inner.keywords}
        if kws != {'offset': 'self.offset', 'line': 'self.line', 'column': 'self.column'}:
            res.bad(F('ACC-CALLBACK', f, inner, src_of(inner), 'callback must receive offset=self.offset, line=self.line, column=self.column'))
        else:
            res.ok('%s: %s' % (mname, src_of(pushes[0])))
        pos = [src_of(a) for a in inner.args]
        if pos != f.params[1:1 + nargs]:
            res.bad(F('ACC-CALLBACK', f, inner, src_of(inner), 'callback positional arguments must be %s' % f.params[1:1 + nargs]))
        else:
            res.ok('%s passes %s' % (mname, pos))
        if len(f.node.body) - sum(1 for s in f.node.body if isinstance(s, ast.Expr) and isinstance(s.value, ast.Constant)) != 2:
            res.bad(F('ACC-CALLBACK', f, f.node, '%s body' % mname, '%s must consist of the option read and the single _push' % mname))
        else:
            res.ok('%s is two statements' % mname)
    # census: strings handed to raw push() must not contain newlines -> arguments are option values, constants or split lines
    n_push = 0
    for f in p.funcs.values():
        for n in f.body_nodes():
            if isinstance(n, ast.Call) and isinstance(n.func, ast.Attribute) and n.func.attr == 'push' and n.args:
                rt = p.type_of(f, n.func.value)
                if isinstance(rt, Class) and rt.name == 'OutputStream' or src_of(n.func.value) in ('out', 'self', 'state.out'):
                    n_push += 1
    res.stats['raw_push_sites'] = n_push
    res.assumptions.append('strings handed to raw OutputStream.push contain no newline (push_string splits lines first); %d raw push sites' % n_push)
    res.require_floor(6)


# ---------------------------------------------------------------- COV-MERGE
@rule('COV-MERGE', 'N', 'every piece of data written on a snippet alias is carried over to the definition nodes')
def cov_merge(p, res):
    node_cls = p.cls('abbreviation.convert.AbbreviationNode')
    slots = set(node_cls.slots or ())
    if slots != {'type', 'name', 'value', 'repeat', 'attributes', 'children', 'self_closing'}:
        raise AnalysisError('COV-MERGE: AbbreviationNode slots changed: %s' % sorted(slots))
    mg = p.func('markup.snippets.merge')
    frm, to = mg.params[:2]
    for slot, guard in (('self_closing', None), ('value', None), ('repeat', None)):
        stores = [n for n in mg.body_nodes() if isinstance(n, ast.Assign) and src_of(n.targets[0]) == '%s.%s' % (to, slot)]
        if not stores:
            res.bad(F('COV-MERGE', mg, mg.node, '%s.%s = ...' % (to, slot), 'the alias\' %s is not transferred to the definition node' % slot))
            continue
        st = stores[0]
        par = p.parents(mg).get(st)
        if slot == 'self_closing':
            okk = src_of(st.value) in ('True', '%s.self_closing' % frm) and isinstance(par, ast.If) and src_of(par.test) == '%s.self_closing' % frm
        elif slot == 'value':
            okk = src_of(st.value) == '%s.value' % frm and isinstance(par, ast.If) and src_of(par.test) == '%s.value is not None' % frm
        else:
            okk = src_of(st.value) == '%s.repeat' % frm and isinstance(par, ast.If) and src_of(par.test) == '%s.repeat' % frm
        if okk:
            res.ok('merge: %s' % src_of(par).replace('\n', ' '))
        else:
            res.bad(F('COV-MERGE', mg, st, src_of(par) if par is not None else src_of(st), 'transfer of %s has an unexpected guard or source' % slot))
    rs = p.func('markup.snippets.resolve_snippets.resolve')
    loops = [n for n in rs.body_nodes() if isinstance(n, ast.For) and src_of(n.iter) == 'snippet_abbr.children']
    if len(loops) != 1:
        raise AnalysisError('COV-MERGE: resolve() no longer loops over snippet_abbr.children')
    lp = loops[0]
    tv = src_of(lp.target)
    body_calls = [src_of(s) for s in lp.body]
    if 'merge(child, %s)' % tv in body_calls:
        res.ok('merge(child, top_node) for every top-level node of the definition')
    else:
        res.bad(F('COV-MERGE', rs, lp, 'for %s in snippet_abbr.children: ...' % tv, 'merge(child, top_node) must run for every top-level node of the definition (inside the loop)'))
    s = src_of(lp)
    if ('%s.attributes = from_attr + to_attr' % tv) in s and ('%s.attributes = to_attr + from_attr' % tv) in s and 'if is_reversed:' in s and 'if child.attributes:' in s:
        res.ok('alias attributes are appended to (prepended under reverseAttributes) the definition attributes of every top node')
    else:
        res.bad(F('COV-MERGE', rs, lp, 'attribute transfer in resolve()', 'attributes of the alias must be concatenated after the definition\'s (before, when reversed) on every top-level node'))
    # children of the alias go to the deepest node of the definition: last child chain
    fd = p.func('markup.utils.find_deepest')
    s = src_of(fd.node)
    if 'while node.children:' in s and 'node = node.children[-1]' in s and 'return (parent, node)' in s:
        res.ok('find_deepest follows children[-1]')
    else:
        res.bad(F('COV-MERGE', fd, fd.node, 'find_deepest body', 'the deepest node is found by following the *last* child'))
    wr = p.func('markup.snippets.walk_resolve')
    s = src_of(wr.node)
    need = ['children += resolved.children', 'deepest = find_deepest(resolved)', 'deepest[1].children += walk_resolve(child, resolve, config)',
            'children.append(child)', 'child.children = walk_resolve(child, resolve, config)', 'node.children = children']
    for w in need:
        if w in s:
            res.ok('walk_resolve: ' + w)
        else:
            res.bad(F('COV-MERGE', wr, wr.node, w, 'splicing of resolved snippet nodes changed'))
    res.require_floor(12)


# ------------------------------------------------------------------- CENSUS
@rule('CENSUS', 'D', 'dynamic language features are limited to the modelled ones')
def census(p, res):
    allowed_dyn = {
        ('emmet.abbreviation.stringify.stringify', 'globals'),
        ('emmet.config.Config.get', 'dir'), ('emmet.config.Config.get', '__getattribute__'),
        ('emmet.abbreviation.tokenizer.tokens.Token.to_json', 'dir'), ('emmet.abbreviation.tokenizer.tokens.Token.to_json', '__getattribute__'),
        ('emmet.css_abbreviation.tokenizer.tokens.Token.to_json', 'dir'), ('emmet.css_abbreviation.tokenizer.tokens.Token.to_json', '__getattribute__'),
        ('emmet.stylesheet.format.output_value', 'hasattr'),
    }
    banned = {'eval', 'exec', 'setattr', 'getattr', 'delattr', 'globals', 'locals', 'vars', 'dir', 'compile', '__import__', 'hasattr'}
    for f in p.funcs.values():
        for n in f.body_nodes():
            name = None
            if isinstance(n, ast.Call) and isinstance(n.func, ast.Name) and n.func.id in banned:
                name = n.func.id
            elif isinstance(n, ast.Attribute) and n.attr in ('__dict__', '__getattribute__', '__setattr__', '__class__') and n.attr != '__class__':
                name = n.attr
            if name is None:
                continue
            if (f.qualname, name) in allowed_dyn:
                res.ok('%s uses %s (modelled)' % (f.short, name))
            else:
                res.bad(F('CENSUS', f, n, src_of(n), 'dynamic feature %s is outside the analysed language subset: the resolver cannot see through it' % name))
    for m in p.modules.values():
        for n in ast.walk(m.tree):
            if isinstance(n, (ast.With, ast.AsyncWith, ast.AsyncFunctionDef, ast.Yield, ast.YieldFrom, ast.Await, ast.Nonlocal)) or type(n).__name__ in ('Match', 'TryStar'):
                res.bad(Finding('CENSUS', m.relpath, m.name[6:], type(n).__name__, 'statement kind outside the analysed subset', getattr(n, 'lineno', 0)))
            if isinstance(n, ast.FunctionDef):
                for d in n.decorator_list:
                    if src_of(d) != 'property':
                        res.bad(Finding('CENSUS', m.relpath, m.name[6:], '@' + src_of(d), 'decorator outside the analysed subset', n.lineno))
    cg = callgraph.get(p)
    res.stats['call_sites'] = cg.n_calls
    res.stats['call_sites_resolved'] = cg.n_resolved
    res.stats['unresolved'] = ['%s: %s' % (f.short, src_of(n)) for f, n in cg.unresolved][:10]
    res.stats['functions'] = len(p.funcs)
    res.stats['modules'] = len(p.modules)
    res.ok('%d modules, %d functions, %d/%d call sites resolved' % (len(p.modules), len(p.funcs), cg.n_resolved, cg.n_calls))
    res.require_floor(8)
