"""Generic rules about how the package uses Python itself.  Each has an expected count of zero on a correct tree, so each carries
a positive control: a small synthetic function the detector must fire on at every run (a detector that silently stopped
matching would otherwise pass forever)."""
import ast

from . import rule
from ..core import AnalysisError, src_of
from ..report import Finding
from .. import shape


def F(rule_name, f, node, construct, message, **kw):
    return Finding(rule_name, f.module.relpath, f.short, construct, message, getattr(node, 'lineno', 0), **kw)


# ------------------------------------------------------------------ API-ARGSWAP
def swapped_args(params, call):
    """(i, j) when two positional arguments are plain names that are each other's parameter names: f(end, start) for f(start, end)"""
    names = [a.id if isinstance(a, ast.Name) else None for a in call.args]
    for i, a in enumerate(names):
        if a is None or i >= len(params) or a == params[i]:
            continue
        for j in range(i + 1, min(len(names), len(params))):
            b = names[j]
            if b is not None and b != params[j] and a == params[j] and b == params[i]:
                return i, j
    return None


@rule('API-ARGSWAP', 'N', 'no call passes two arguments in each other\'s place (the names of two positional arguments are the callee\'s parameter names, crossed)')
def api_argswap(p, res):
    ctl = ast.parse('helper(end, delimiter)', mode='eval').body
    if swapped_args(['delimiter', 'end'], ctl) != (0, 1) or swapped_args(['delimiter', 'end'], ast.parse('helper(delimiter, end)', mode='eval').body) is not None:
        raise AnalysisError('API-ARGSWAP: positive control failed')
    res.ok('positive control: helper(end, delimiter) for helper(delimiter, end)')
    n = 0
    for f in p.funcs.values():
        for c in f.body_nodes():
            if not isinstance(c, ast.Call) or len(c.args) < 2:
                continue
            tgt = p.resolve_call(f, c)
            if not (isinstance(tgt, list) and len(tgt) == 1):
                continue
            g = tgt[0]
            params = list(g.params)
            if g.cls is not None and isinstance(c.func, ast.Attribute) and params:
                params = params[1:]
            n += 1
            sw = swapped_args(params, c)
            if sw is not None:
                i, j = sw
                res.bad(F('API-ARGSWAP', f, c, src_of(c),
                          'arguments %d and %d are passed in each other\'s place: %s is declared %s(%s)' % (i + 1, j + 1, g.name, g.name, ', '.join(params))))
            else:
                res.ok()
    res.stats['call_sites'] = n
    res.require_floor(300)


# ------------------------------------------------------------------ API-ONESHOT
ONESHOT = {'map', 'filter', 'zip', 'reversed', 'iter', 'enumerate'}
CONSUMERS = {'list', 'tuple', 'set', 'sorted', 'any', 'all', 'sum', 'max', 'min', 'dict', 'frozenset', 'next', 'len'}


def _is_oneshot(p, f, e, depth=0):
    if isinstance(e, ast.GeneratorExp):
        return True
    if isinstance(e, ast.Call) and isinstance(e.func, ast.Name) and e.func.id in ONESHOT and p.resolve_name(f, e.func.id) is not None \
            and p.resolve_name(f, e.func.id).kind == 'builtin':
        return True
    if isinstance(e, ast.Call) and depth < 2:
        tgt = p.resolve_call(f, e)
        if isinstance(tgt, list) and len(tgt) == 1 and tgt[0] is not f:
            g = tgt[0]
            rets = [r for r in g.body_nodes() if isinstance(r, ast.Return) and r.value is not None]
            return bool(rets) and all(_is_oneshot(p, g, r.value, depth + 1) for r in rets)
    return False


def oneshot_findings(p, f):
    """[(node, construct, why)]"""
    out = []
    pm = p.parents(f)
    bound = {}
    for n in f.body_nodes():
        if isinstance(n, ast.Assign) and len(n.targets) == 1 and _is_oneshot(p, f, n.value):
            t = n.targets[0]
            if isinstance(t, (ast.Attribute, ast.Subscript)):
                out.append((n, src_of(n).split('\n')[0], 'a one-shot iterator is stored in %s: whoever traverses it a second time (another formatter pass, an addon, a membership test) finds it empty' % src_of(t)))
            elif isinstance(t, ast.Name):
                bound.setdefault(t.id, []).append(n)
    for name, defs in bound.items():
        if len(defs) != 1 or sum(1 for x in f.body_nodes() if isinstance(x, ast.Name) and isinstance(x.ctx, ast.Store) and x.id == name) != 1:
            continue
        d = defs[0]
        uses = []
        for x in f.body_nodes():
            if not (isinstance(x, ast.Name) and isinstance(x.ctx, ast.Load) and x.id == name):
                continue
            par = pm.get(x)
            consuming = (isinstance(par, (ast.For, ast.comprehension)) and par.iter is x) \
                or (isinstance(par, ast.Compare) and x in par.comparators and any(isinstance(o, (ast.In, ast.NotIn)) for o in par.ops)) \
                or (isinstance(par, ast.Call) and x in par.args) or isinstance(par, ast.Starred)
            if isinstance(par, ast.Return) or (isinstance(par, ast.Assign) and par.value is x):
                continue
            if consuming:
                uses.append(x)
        # loops that contain a use but not the binding
        def loops_of(x):
            ls, y = [], x
            while y is not None and y is not f.node:
                y = pm.get(y)
                if isinstance(y, (ast.For, ast.While, ast.ListComp, ast.GeneratorExp, ast.SetComp, ast.DictComp)):
                    ls.append(y)
            return ls
        dl = set(map(id, loops_of(d)))
        in_loop = [u for u in uses if any(id(l) not in dl and not (isinstance(l, (ast.For,)) and l.iter is u) and
                                          not (isinstance(l, (ast.ListComp, ast.GeneratorExp, ast.SetComp, ast.DictComp)) and l.generators[0].iter is u)
                                          for l in loops_of(u))]
        if in_loop:
            u = in_loop[0]
            out.append((u, '%s  ...  %s' % (src_of(d).split('\n')[0], src_of(p.enclosing_stmt(f, u)).split('\n')[0]),
                        '`%s` is a one-shot iterator that is consumed inside a loop: it is exhausted by the first pass (a membership test stops at the first hit and resumes after it), later passes see what is left' % name))
        elif len(uses) > 1:
            out.append((uses[1], '%s  ...  %s' % (src_of(d).split('\n')[0], src_of(p.enclosing_stmt(f, uses[1])).split('\n')[0]),
                        '`%s` is a one-shot iterator that is consumed %d times: the second consumer sees what the first one left' % (name, len(uses))))
    return out


@rule('API-ONESHOT', 'N', 'a one-shot iterator (map / filter / zip / generator) is never stored in an object field nor consumed more than once')
def api_oneshot(p, res):
    from ..core import Project, Module, Func
    # positive control on a synthetic module
    src = ("def ctl(names, xs):\n    low = map(str.lower, names)\n    out = []\n    for x in xs:\n        if x not in low:\n            out.append(x)\n    return out\n"
           "def ctl2(node, attrs):\n    node.attributes = filter(None, attrs)\n")
    tree = ast.parse(src)
    class _P:          # the few Project methods the detector uses
        def __init__(self):
            self._pm = {}
        def resolve_name(self, f, name):
            class E:
                kind = 'builtin'
            return E() if name in ONESHOT else None
        def resolve_call(self, f, c):
            return None
        def parents(self, f):
            if f not in self._pm:
                self._pm[f] = {c: par for par in ast.walk(f.node) for c in ast.iter_child_nodes(par)}
            return self._pm[f]
        def enclosing_stmt(self, f, n):
            pm = self.parents(f)
            while n is not None and not isinstance(n, ast.stmt):
                n = pm.get(n)
            return n
    class _Fn:
        def __init__(self, node):
            self.node = node
        def body_nodes(self):
            return [n for n in ast.walk(self.node) if n is not self.node]
    fake = _P()
    got = [len(oneshot_findings(fake, _Fn(fn))) for fn in tree.body]
    if got != [1, 1]:
        raise AnalysisError('API-ONESHOT: positive control failed (%s)' % got)
    res.ok('positive control: membership test on map(..) inside a loop; filter(..) stored in a field')
    n = 0
    for f in p.funcs.values():
        cands = [x for x in f.body_nodes() if isinstance(x, ast.Assign) and _is_oneshot(p, f, x.value)]
        n += 1
        hits = oneshot_findings(p, f) if cands else []
        for node, construct, why in hits:
            res.bad(F('API-ONESHOT', f, node, construct, why))
        if not hits:
            res.ok()
    res.require_floor(300)


# ----------------------------------------------------------------- RNG-NEGSLICE
def negslice_findings(fnode, pm):
    out = []
    for n in ast.walk(fnode):
        if not (isinstance(n, ast.Subscript) and isinstance(n.slice, ast.Slice) and n.slice.lower is not None):
            continue
        lo = n.slice.lower
        if not (isinstance(lo, ast.BinOp) and isinstance(lo.op, ast.Sub) and isinstance(lo.left, ast.Call) and isinstance(lo.left.func, ast.Name)
                and lo.left.func.id == 'len' and lo.left.args and src_of(lo.left.args[0]) == src_of(n.value)):
            continue
        if isinstance(lo.right, ast.Constant):
            continue            # x[len(x) - 2:] is x[-2:], the documented idiom
        r = src_of(lo.right)
        facts = shape.implied(n, pm)
        lx = src_of(lo.left)
        if any(r in fs and lx in fs for fs, pol in facts):
            continue            # the two are compared on this path
        out.append((n, src_of(n), 'the slice starts at %s: when %s exceeds %s the start is negative and counts from the end again instead of stopping at 0 (clamp with max(.., 0))'
                    % (src_of(lo), r, lx)))
    return out


@rule('RNG-NEGSLICE', 'N', 'a slice start computed as len(x) - n is clamped at 0 (a negative start wraps around)')
def rng_negslice(p, res):
    ctl = ast.parse("def ctl(stack, levels):\n    ctx = stack[max(len(stack) - levels, 0)]\n    del stack[len(stack) - levels:]\n    return ctx\n").body[0]
    pm = {c: par for par in ast.walk(ctl) for c in ast.iter_child_nodes(par)}
    if len(negslice_findings(ctl, pm)) != 1:
        raise AnalysisError('RNG-NEGSLICE: positive control failed')
    res.ok('positive control: del stack[len(stack) - levels:]')
    for f in p.funcs.values():
        hits = negslice_findings(f.node, p.parents(f)) if f.parent is None else []
        for node, construct, why in hits:
            res.bad(F('RNG-NEGSLICE', f, node, construct, why))
        if not hits:
            res.ok()
    res.require_floor(300)


# ----------------------------------------------------------------- SIB-PREDSWAP
@rule('SIB-PREDSWAP', 'N', 'where a function is the reviewed one up to identifiers, a character predicate is not replaced by a sibling predicate that decides differently')
def sib_predswap(p, res):
    from .. import names
    from ..minieval import MiniEval
    ev = MiniEval(p)
    chars = [chr(i) for i in range(256)] + ['']
    subs = names.substitutions({n: m.tree for n, m in p.modules.items()})
    res.stats['substitutions_seen'] = len(subs)

    def table(fn):
        try:
            return tuple(bool(ev.call(fn, [c])) for c in chars)
        except (AnalysisError, RecursionError, TypeError, ValueError):
            return None
    # positive control: two predicates of the package that are known to differ
    a, b = p.func('scanner_utils.is_space'), p.func('scanner_utils.is_white_space')
    ta, tb = table(a), table(b)
    if ta is None or tb is None or ta == tb:
        raise AnalysisError('SIB-PREDSWAP: positive control failed (is_space / is_white_space)')
    res.ok('positive control: is_space and is_white_space differ on %d characters' % sum(1 for x, y in zip(ta, tb) if x != y))
    n_units = 0
    for mod, unit, old, new in subs:
        m = p.modules.get(mod)
        if m is None:
            continue
        def find(name):
            e = p._module_attr(mod, name)
            if e is not None:
                return e.obj if e.kind == 'func' else None
            # no longer imported into this module: the one module-level function of that name in the package
            c = [g for g in p.funcs.values() if g.name == name and g.cls is None and g.parent is None]
            return c[0] if len(c) == 1 else None
        go, gn = find(old), find(new)
        if go is None or gn is None:
            continue
        if len(go.params) != 1 or len(gn.params) != 1 or go.cls is not None or gn.cls is not None:
            continue
        n_units += 1
        to, tn = table(go), table(gn)
        fq = '%s.%s' % (mod, unit)
        f = p.funcs.get(fq)
        if to is None or tn is None:
            res.undecided('%s: %s replaced by %s' % (fq[6:], old, new), 'the decision table of one of the two predicates cannot be read')
        elif to != tn:
            diff = [c for c, x, y in zip(chars, to, tn) if x != y]
            if f is not None:
                res.bad(F('SIB-PREDSWAP', f, f.node, '%s instead of %s' % (new, old),
                          '%s() is the reviewed function identifier for identifier except that it asks %s where the reviewed code asks %s: the two decide differently for %d character(s), e.g. %r'
                          % (unit, new, old, len(diff), diff[:6])))
            else:
                res.bad(Finding('SIB-PREDSWAP', m.relpath, fq[6:], '%s instead of %s' % (new, old), 'predicate replaced by a sibling that decides differently for %r' % diff[:6], 0))
        else:
            res.ok('%s: %s and %s decide alike' % (fq[6:], old, new))
    res.ok('every unit that is the reviewed one up to identifiers was compared', n=max(1, len(p.funcs)))
    res.require_floor(300)
