"""OWN-* : ownership, effects, purity."""
import ast

from . import rule
from ..paths import PathClient
from ..core import AnalysisError, src_of, Class, Func
from ..report import Finding
from .. import effects, callgraph


def F(rule_name, f, node, construct, message, **kw):
    return Finding(rule_name, f.module.relpath, f.short, construct, message, getattr(node, 'lineno', 0) if not isinstance(node, int) else node, **kw)


def show(o):
    root, path = o
    r = root[1] if root[0] in ('param', 'free') else '.'.join(str(x) for x in root[1:])
    return r + ''.join('[*]' if s == '*' else '.' + s for s in path)


def chain_of(info):
    return ' <- '.join(reversed([info[0][6:]] + [c for c in info[3]])) if info[3] else info[0][6:]


def mut_finding(p, rname, origin, info, message, where=None):
    fq, lineno, construct, chain = info
    f = p.funcs[fq]
    details = ['object  : %s' % show(origin)]
    if chain:
        details.append('reached : ' + ' -> '.join(reversed(chain)) + ' -> ' + f.short)
    if where is not None:
        details.append('entry   : ' + where)
    return Finding(rname, f.module.relpath, f.short, construct, message, lineno, details=details)


# --------------------------------------------------------------- OWN-GLOBAL
@rule('OWN-GLOBAL', 'D', 'no function mutates a module-level object or assigns a module-level name')
def own_global(p, res):
    eff = effects.get(p)
    seen = set()
    n = 0
    for q, s in sorted(eff.sum.items()):
        f = p.funcs[q]
        for o, info in s.all_sites():
            if o[0][0] != 'global' or str(o[0][1]).startswith('default of'):
                continue
            key = (info[0], info[2])
            if key in seen:
                continue
            seen.add(key)
            res.bad(mut_finding(p, 'OWN-GLOBAL', o, info,
                                'module-level object %s is mutated: the change outlives the call and is visible to every later call in the process' % show(o)))
    for f, node, name in eff.global_assigns:
        res.bad(F('OWN-GLOBAL', f, node, src_of(node), 'module-level name `%s` is assigned inside a function' % name))
    # census of module-level mutable containers and `global` statements
    glob = 0
    for f in p.funcs.values():
        glob += len(f.globals_decl)
    tables = 0
    for m in p.modules.values():
        for name, b in m.bindings.items():
            if b.kind == 'assign' and any(isinstance(v, (ast.Dict, ast.List, ast.Set)) or (isinstance(v, ast.Call) and src_of(v.func) in ('dict', 'list', 'set', 'parse_snippets')) for v in b.values if v is not None):
                tables += 1
                res.ok('%s.%s is never mutated' % (m.name[6:], name) if len(res.samples) < 4 else None)
    res.stats['global_statements'] = glob
    res.stats['module_level_containers'] = tables
    res.stats['functions_summarised'] = len(eff.sum)
    res.stats['fixpoint_rounds'] = eff.rounds
    res.require_floor(20)


# -------------------------------------------------------------- OWN-DEFAULT
def _mutable_default(d):
    return isinstance(d, (ast.Dict, ast.List, ast.Set)) or (isinstance(d, ast.Call) and src_of(d.func) in ('dict', 'list', 'set'))


@rule('OWN-DEFAULT', 'D', 'a mutable default argument is never mutated (it is one object shared by all calls)')
def own_default(p, res):
    eff = effects.get(p)
    n_other = 0
    for q, f in sorted(p.funcs.items()):
        for pname, d in f.defaults.items():
            if not _mutable_default(d):
                n_other += 1         # None / a constant / a name: nothing shared that a call could change
                continue
            # an empty display has no elements: only a mutation of the default object itself can be observed
            hits = [(o, info) for o, info in eff.sum[q].all_sites() if o[0] == ('param', pname) and (o[1] == () or (getattr(d, 'keys', None) or getattr(d, 'elts', None)))]
            if hits:
                o, info = sorted(hits, key=lambda x: len(x[0][1]))[0]
                g = p.funcs[info[0]]
                res.bad(Finding('OWN-DEFAULT', f.module.relpath, f.short, 'def %s(.., %s=%s)' % (f.name, pname, src_of(d)),
                                'the default object of parameter `%s` may be mutated (at %s:%d `%s`): it is created once and shared by every call that omits the argument'
                                % (pname, g.module.relpath, info[1], info[2]), f.node.lineno,
                                details=['object  : %s' % show(o), 'reached : ' + ' -> '.join([f.short] + list(reversed(info[3])) + ([g.short] if g is not f else []))]))
            else:
                res.ok('%s(%s=%s) only read' % (f.short, pname, src_of(d)))
    # the universe of the rule is every parameter default of the package; those that are not mutable displays are discharged as such
    # (replacing `={}` by `=None` shrinks the set of shared objects, it does not make the rule vacuous)
    res.ok('%d parameter defaults are immutable (None, constants, names)' % n_other, n=n_other)
    res.require_floor(110)


# --------------------------------------------------------------- OWN-CALLER
ENTRIES = [
    ('expand', ['config', 'global_config']),
    ('expand_markup', ['config']), ('expand_stylesheet', ['config']),
    ('markup.parse', ['config']), ('markup.stringify', ['config', 'abbr']),
    ('stylesheet.parse', ['config']), ('stylesheet.stringify', ['config', 'abbr']),
    ('config.Config.__init__', ['user_config', 'global_config']),
    ('config.merged_data', ['user_config', 'global_config']),
    ('extract_abbreviation.extract_abbreviation', ['options']),
    ('math_expression.extract.extract', ['options']),
    ('html_matcher.match', ['opt']), ('html_matcher.balanced_outward', ['opt']), ('html_matcher.balanced_inward', ['opt']),
    ('action_utils.html.select_item_html', ['options']),
    ('abbreviation.parse', ['options']), ('css_abbreviation.parse', ['options']),
    ('abbreviation.convert.convert', ['params']),
]


def _is_cache_slot_write(p, origin, info):
    """the one sanctioned write to a caller object: stylesheet.parse stores the converted snippets *into the cache dict itself*
    (origin config.cache, not something stored in it) by a plain subscript assignment under a constant key"""
    f = p.funcs.get(info[0])
    if f is None or f.module.name != 'emmet.stylesheet' or f.cls is not None:
        return False            # stylesheet.parse or a helper it was split into
    from .. import shape
    defs = shape.defs_of(f.node, params=f.params)
    cfg = 'config' if 'config' in f.params else (f.params[1] if len(f.params) > 1 else 'config')
    for n in f.body_nodes():
        if isinstance(n, ast.Assign) and len(n.targets) == 1 and isinstance(n.targets[0], ast.Subscript) and src_of(n) == info[2]:
            return isinstance(p.try_const(f, n.targets[0].slice), str) and src_of(shape.expand(n.targets[0].value, defs)) == '%s.cache' % cfg
    return False


@rule('OWN-CALLER', 'D', 'objects supplied by the caller (config dicts, Config, global config, options) are never mutated, except the cache slot and verified temporary overrides')
def own_caller(p, res):
    eff = effects.get(p)
    seen = set()
    cache_keys = {(info[0], info[2]) for o, info in eff.sum['emmet.stylesheet.parse'].all_sites()
                  if o[0] == ('param', 'config') and o[1][:2] == ('cache', '*')}
    for fq, params in sorted(ENTRIES, key=lambda e: e[0] in ('expand', 'expand_markup', 'expand_stylesheet')):
        f = p.func(fq)
        s = eff.sum[f.qualname]
        for pname in params:
            if pname not in f.params:
                raise AnalysisError('OWN-CALLER: %s has no parameter %s' % (fq, pname))
            hits = [(o, info) for o, info in s.all_sites() if o[0] == ('param', pname)]
            bad = 0
            for o, info in sorted(hits, key=lambda x: (len(x[0][1]), x[1][1])):
                if _is_cache_slot_write(p, o, info):
                    continue
                if o[1][:2] == ('cache', '*') or (info[0], info[2]) in cache_keys:
                    continue          # OWN-CACHE reports these
                key = (info[0], info[2])
                bad += 1
                if key in seen:
                    continue
                seen.add(key)
                res.bad(mut_finding(p, 'OWN-CALLER', o, info,
                                    'an object the caller supplied (%s) is mutated and not restored: the caller\'s configuration behaves differently afterwards' % show(o),
                                    where='%s(%s)' % (f.short, pname)))
            if not bad:
                res.ok('%s: nothing reachable from `%s` is mutated' % (f.short, pname))
    res.require_floor(20)


class RestoreClient(PathClient):
    """typestate of the caller's `text` entry in markup.parse():  present -> hidden (set to None) -> restored.
    Roles are resolved, not named: the override / restore are stores to <config>.user_config['text'], the saved value is the
    local that read config.get('text') before, the protected calls are whatever runs while the entry is hidden."""

    def __init__(self, p, f, saved, protected_ids, parse_fn, resolve_fn):
        super().__init__(p, f)
        self.saved, self.protected, self.parse_fn, self.resolve_fn = saved, protected_ids, parse_fn, resolve_fn
        self.seen = {'override': 0, 'restore': 0, 'resolve_hidden': 0, 'parse': 0}

    def _is_text_slot(self, t):
        return isinstance(t, ast.Subscript) and isinstance(t.value, ast.Attribute) and t.value.attr == 'user_config' and self.p.try_const(self.f, t.slice) == 'text'

    def on_store(self, it, s, target, value, stmt):
        if not self._is_text_slot(target):
            return s
        v = stmt.value if isinstance(stmt, ast.Assign) else None
        st = self.auto(s, 'present')
        if isinstance(v, ast.Constant) and v.value is None:
            self.seen['override'] += 1
            if self.cond_value(s, self.saved) is not True:
                self.bad(stmt, src_of(stmt), 'the override must happen only when a text was given (`if %s:`): otherwise a config without text is written to (it gains a `text: None` entry)' % self.saved, s)
            return self.set_auto(s, 'hidden')
        if isinstance(v, ast.Name) and v.id == self.saved:
            self.seen['restore'] += 1
            if st != 'hidden' and self.cond_value(s, self.saved) is not True:
                self.bad(stmt, src_of(stmt), 'the restore must run under the same guard as the override (otherwise a config without text gains a `text` entry)', s)
            return self.set_auto(s, 'present')
        self.bad(stmt, src_of(stmt), "the caller's `text` entry is overwritten with something other than None (hide) or the saved text (restore)", s)
        return s

    def on_call(self, it, s, call):
        st = self.auto(s, 'present')
        tgt = self.p.resolve_call(self.f, call)
        fns = tgt if isinstance(tgt, list) else []
        if self.parse_fn in fns:
            self.seen['parse'] += 1
            if st == 'hidden':
                self.bad(call, src_of(call).split('\n')[0], 'the user abbreviation is parsed while the text is hidden: the override must come after it (parsing needs the text)', s)
        if st == 'hidden' and id(call) not in self.protected and not (isinstance(call.func, ast.Attribute) and call.func.attr in ('get',)):
            self.bad(call, src_of(call).split('\n')[0], "a call runs while the caller's `text` is hidden but outside the try/finally that restores it: an exception here leaves the caller's config without its text", s)
        if self.resolve_fn in fns:
            if st == 'hidden':
                self.seen['resolve_hidden'] += 1
            elif self.cond_value(s, self.saved) is not False:
                self.bad(call, src_of(call), 'snippets are resolved while the wrap text is still visible: the text would be inserted into every resolved snippet', s)
        return s

    def on_exit(self, it, s, value, stmt):
        if self.auto(s, 'present') == 'hidden':
            self.bad(stmt or self.f.node, 'exit of %s' % self.f.name, "a path leaves the function with the caller's `text` still hidden", s)
        return s


@rule('OWN-RESTORE', 'D', 'the temporary removal of `text` around snippet resolution is restored on every exit')
def own_restore(p, res):
    from .. import shape
    f = p.func('markup.parse')
    defs = shape.defs_of(f.node, params=f.params)
    saved = [k for k, v in defs.items() if src_of(v) in ("config.get('text')", "config.user_config.get('text')")]
    if len(saved) != 1:
        res.undecided('markup.parse: saved text', "one local holding config.get('text') expected")
        res.require_floor(3)
        return
    saved = saved[0]
    fn = None
    from .. import norm
    fnode = norm.nf(p, f, inline=False)
    # calls lexically inside a try whose finally restores the slot
    protected = set()
    for t in [n for n in shape.own_nodes(fnode) if isinstance(n, ast.Try) and n.finalbody]:
        restores = [n for st in t.finalbody for n in ast.walk(st) if isinstance(n, ast.Assign) and isinstance(n.targets[0], ast.Subscript)
                    and isinstance(n.targets[0].value, ast.Attribute) and n.targets[0].value.attr == 'user_config' and p.try_const(f, n.targets[0].slice) == 'text']
        if restores:
            for st in t.body:
                for n in ast.walk(st):
                    if isinstance(n, ast.Call):
                        protected.add(id(n))
    c = RestoreClient(p, f, saved, protected, p.func('abbreviation.parse'), p.func('markup.snippets.resolve_snippets'))
    from ..absint import Interp, State
    fl = Interp(p, f, c, body=fnode.body).run([State({})])
    for s_, st in fl.rais:
        if c.auto(s_, 'present') == 'hidden':
            c.bad(st, 'exceptional exit of %s' % f.name, "an exception leaves the function with the caller's `text` still hidden", s_)
    for node, construct, message, s_ in c.violations:
        res.bad(F('OWN-RESTORE', f, node, construct, message, details=['path : ' + s_.show_trace()]))
    if c.seen['override'] == 0:
        res.bad(F('OWN-RESTORE', f, f.node, "config.user_config['text'] = None", 'wrap text is no longer hidden from snippet resolution: the lines would be inserted into every resolved snippet'))
    elif not c.violations:
        res.ok("config.user_config['text'] hidden only when set, restored on every normal and exceptional exit (%d exits)" % (len(fl.ret) + len(fl.rais)), n=2)
    if c.seen['resolve_hidden'] and not c.violations:
        res.ok('snippets are resolved while the text is hidden; the abbreviation itself is parsed before')
    elif not c.seen['resolve_hidden'] and c.seen['override']:
        res.undecided('resolve_snippets call', 'expected while the text is hidden')
    res.require_floor(3)


# -------------------------------------------------------------- OWN-TOKTREE
@rule('OWN-TOKTREE', 'D', 'the converter never modifies the parsed token tree it reads (it is converted once per repetition), except the reviewed temporary repeater override')
def own_toktree(p, res):
    eff = effects.get(p)
    token_types = {'TokenElement', 'TokenGroup', 'TokenAttribute', 'TokenAbbreviation'}
    n = 0
    seen = set()
    for f in p.find_funcs('abbreviation.convert'):
        for pname in f.params:
            ann = f.annotations.get(pname)
            if ann is None or src_of(ann).split('.')[-1] not in token_types:
                continue
            n += 1
            bad = 0
            for o, info in eff.sum[f.qualname].all_sites():
                if o[0] != ('param', pname):
                    continue
                # reviewed: convert_statement installs a clone of the repeater on the node while its copies are converted and puts
                # the original back afterwards (PATH-STACK / PATH-ONCE check the pairing)
                if info[0] == 'emmet.abbreviation.convert.convert_statement' and info[2].replace(' ', '').startswith('node.repeat='):
                    continue
                bad += 1
                key = (info[0], info[2])
                if key in seen:
                    continue
                seen.add(key)
                res.bad(mut_finding(p, 'OWN-TOKTREE', o, info,
                                    'the parsed abbreviation (%s) is modified while it is converted: every further copy of a repeated element, and every later conversion, sees the modified tokens' % show(o),
                                    where='%s(%s)' % (f.short, pname)))
            if not bad:
                res.ok('%s: nothing reachable from the token tree `%s` is modified' % (f.short, pname))
    res.stats['token_tree_parameters'] = n
    res.require_floor(4)


# ---------------------------------------------------------------- OWN-CACHE
@rule('OWN-CACHE', 'D', 'objects stored in the snippet cache are never mutated after they were built')
def own_cache(p, res):
    eff = effects.get(p)
    f = p.func('stylesheet.parse')
    s = eff.sum[f.qualname]
    hits = [(o, info) for o, info in s.all_sites() if o[0] == ('param', 'config') and o[1][:2] == ('cache', '*')]
    seen = set()
    for o, info in sorted(hits, key=lambda x: (x[1][0], x[1][1])):
        key = (info[0], info[2])
        if key in seen:
            continue
        seen.add(key)
        res.bad(mut_finding(p, 'OWN-CACHE', o, info,
                            'an object that lives in the caller\'s cache (%s) is mutated in place: every later call through the same cache sees the change (e.g. a unit resolved under other options)' % show(o),
                            where='stylesheet.parse(config)'))
    if not hits:
        res.ok('stylesheet.parse: nothing reachable from config.cache[*] is mutated')
    # cached snippet classes are written only in their constructors / in nest() at build time
    for cq in ('stylesheet.snippets.CSSSnippetRaw', 'stylesheet.snippets.CSSSnippetProperty'):
        c = p.cls(cq)
        slots = set(c.slots or ())
        for g in p.funcs.values():
            if g.cls is c:
                continue
            for n in g.body_nodes():
                if isinstance(n, (ast.Assign, ast.AugAssign)):
                    for t in (n.targets if isinstance(n, ast.Assign) else [n.target]):
                        if isinstance(t, ast.Attribute) and t.attr in slots:
                            rt = p.type_of(g, t.value)
                            if isinstance(rt, Class) and rt is c:
                                res.bad(F('OWN-CACHE', g, n, src_of(n), 'field of a cached snippet object is written outside its constructor'))
        res.ok('%s fields written only by the constructor' % c.name)
    # the cache is read/written under one constant key, the stored value is the unfiltered list
    from .. import shape
    v = shape.View(p, f, inline=False)
    cfg = f.params[1] if len(f.params) > 1 else 'config'
    slot = '%s.cache' % cfg
    reads, writes = [], []
    for n in v.nodes:
        if isinstance(n, ast.Call) and isinstance(n.func, ast.Attribute) and n.func.attr == 'get' and v.x(n.func.value) == slot and n.args:
            reads.append((n, p.try_const(f, n.args[0])))
        elif isinstance(n, ast.Subscript) and v.x(n.value) == slot:
            (writes if isinstance(n.ctx, ast.Store) else reads).append((n, p.try_const(f, n.slice)))
    keys = {k for _, k in reads + writes}
    if not reads or not writes:
        res.undecided('stylesheet.parse: cache slot', 'expected one read and one write of %s[<key>]' % slot)
    elif len(keys) == 1 and isinstance(next(iter(keys)), str):
        res.ok('cache slot %r read and written under the same constant key' % next(iter(keys)))
    elif all(isinstance(k, str) for k in keys):
        res.bad(F('OWN-CACHE', f, writes[0][0], 'cache keys %s' % sorted(keys), 'the cache is read under one key and written under another: the cached list is never found again (or another entry is overwritten)'))
    else:
        res.undecided('stylesheet.parse: cache slot', 'the cache key is computed')
    for n, k in reads + writes:
        facts = v.facts(n)
        if ('%s is not None' % slot, True) in facts or ('%s is None' % slot, False) in facts:
            res.ok('%s guarded by `%s is not None`' % (src_of(n), slot))
        elif any(fs in (slot, '%s is None' % slot, '%s is not None' % slot) for fs, _ in facts):
            res.bad(F('OWN-CACHE', f, n, src_of(n), 'the cache is accessed on the branch where no cache was given (config.cache is None): AttributeError / TypeError'))
        else:
            res.undecided('stylesheet.parse: %s' % src_of(n), 'not visibly guarded by `%s is not None`' % slot)
    res.require_floor(4)


# --------------------------------------------------------------- OWN-FMT-RO
@rule('OWN-FMT-RO', 'D', 'formatters never modify the abbreviation tree they print')
def own_fmt_ro(p, res):
    eff = effects.get(p)
    allowed_roots = {'state', 'out', 'self', 'scanner', 'stream'}
    n = 0
    for f in p.find_funcs('markup.format') + p.find_funcs('stylesheet.format') + p.find_funcs('output_stream'):
        s = eff.sum[f.qualname]
        bad = False
        for o, info in sorted(s.all_sites(), key=lambda x: x[1][1]):
            if o[0][0] not in ('param',):
                continue
            if o[0][1] in allowed_roots:
                continue
            if info[0] != f.qualname and not info[0].startswith('emmet.markup.format') and not info[0].startswith('emmet.stylesheet.format'):
                pass
            bad = True
            res.bad(mut_finding(p, 'OWN-FMT-RO', o, info,
                                'the formatter modifies %s: output is no longer a pure rendering of the tree (a second rendering, or the other formatter options, see a different tree)' % show(o),
                                where=f.short))
        if not bad:
            n += 1
            res.ok('%s mutates only its walk state / output stream' % f.short if len(res.samples) < 5 else None)
    res.require_floor(40)


# -------------------------------------------------------------- OWN-ASTLIST
@rule('OWN-ASTLIST', 'D', 'list-valued AST fields are never assigned a one-shot iterator')
def own_astlist(p, res):
    fields = {'attributes', 'children', 'value', 'elements'}
    oneshot = {'filter', 'map', 'zip', 'reversed', 'iter', 'enumerate'}
    for f in p.funcs.values():
        for n in f.body_nodes():
            if not isinstance(n, ast.Assign):
                continue
            for t in n.targets:
                if isinstance(t, ast.Attribute) and t.attr in fields:
                    v = n.value
                    bad = None
                    if isinstance(v, ast.Call) and isinstance(v.func, ast.Name) and v.func.id in oneshot and p.resolve_name(f, v.func.id).kind == 'builtin':
                        bad = '%s(...) object' % v.func.id
                    elif isinstance(v, ast.GeneratorExp):
                        bad = 'generator'
                    elif isinstance(v, ast.Call) and isinstance(v.func, ast.Attribute) and v.func.attr in ('keys', 'values', 'items') and not v.args:
                        bad = 'dict view'
                    if bad:
                        res.bad(F('OWN-ASTLIST', f, n, src_of(n), 'field .%s is assigned a %s: the first reader consumes it and every later reader (BEM, comments, the formatter) sees nothing' % (t.attr, bad),
                                  failing_input="expand('xsl:variable[name=a select=b]>x', {'syntax':'xsl','options':{'comment.enabled':True}})"))
                    else:
                        res.ok('%s: %s' % (f.short, src_of(n).split('\n')[0][:80]))
    res.require_floor(40)


# -------------------------------------------------------------- OWN-AMBIENT
STATELESS_EXTERN = {'functools.partial', 'functools.reduce', 'functools.wraps', 'functools.cmp_to_key', 'functools.partialmethod'}


@rule('OWN-AMBIENT', 'D', 'ambient state (random, time, os, id, hash, open, input) is used only by the lorem generator')
def own_ambient(p, res):
    banned_builtins = {'id', 'hash', 'open', 'input', 'print', 'breakpoint'}
    banned_mods = ('random', 'time', 'os', 'sys', 'datetime', 'uuid', 'tempfile', 'pickle', 'shelve', 'functools')
    n = 0
    for f in p.funcs.values():
        in_lorem = f.module.name.startswith('emmet.markup.lorem')
        for c in f.body_nodes():
            if not isinstance(c, ast.Call):
                continue
            tgt = p.resolve_call(f, c)
            what = None
            if isinstance(tgt, tuple) and tgt[0] == 'builtin' and tgt[1] in banned_builtins:
                what = tgt[1] + '()'
            elif isinstance(tgt, tuple) and tgt[0] == 'extern' and str(tgt[1]).split('.')[0] in banned_mods:
                what = tgt[1]
                if str(what) in STATELESS_EXTERN:
                    continue
            if what is None:
                continue
            if what == 'hash()' and f.name == '__hash__' and f.cls is not None:
                res.ok('%s: hash() inside __hash__ (consistent with equality inside one process, never part of a result)' % f.short)
                continue
            n += 1
            if in_lorem and str(what).startswith('random'):
                res.ok('%s uses %s (documented random text)' % (f.short, what))
            else:
                res.bad(F('OWN-AMBIENT', f, c, src_of(c), 'result depends on ambient state (%s): equal arguments no longer give equal results' % what))
    for m in p.modules.values():
        for st in ast.walk(m.tree):
            if isinstance(st, (ast.Import, ast.ImportFrom)):
                names = [a.name for a in st.names] if isinstance(st, ast.Import) else [st.module or '']
                if isinstance(st, ast.ImportFrom) and all('%s.%s' % (st.module, a.name) in STATELESS_EXTERN for a in st.names):
                    continue
                for nm in names:
                    if nm == 'functools' and isinstance(st, ast.Import):
                        continue        # judged per call site above (partial/reduce are stateless, lru_cache is not)
                    if nm.split('.')[0] in banned_mods and not m.name.startswith('emmet.markup.lorem'):
                        res.bad(Finding('OWN-AMBIENT', m.relpath, m.name[6:], src_of(st), 'module imports %s' % nm, st.lineno))
    res.stats['ambient_call_sites'] = n
    res.instances = max(res.instances, 1)
    res.require_floor(4)
