"""TBL-* : reviewed decision tables of the scanners, matcher callbacks and action helpers whose case analysis *is* the property
(which token is reported for which input shape, which range is selected): every case of the function on the analysed tree is
compared with the reviewed case (tables_spec.py).  Same verdict policy as every table rule: agreeing cases are discharged, a
positively identified difference in the externally visible steps is a violation, anything else is reported undecided."""
from . import rule
from .tablecheck import check_table

HTML = [
    ('html_matcher.scan.scan', 'the html scanner reports, in document order, every open / close / self-closing tag with its exact range, and skips comments, CDATA, processing instructions and the content of special elements'),
    ('html_matcher.scan.consume_closing', 'a closing tag is `</` name `>`: name and range are reported only when it is complete'),
    ('html_matcher.utils.consume_section', 'a comment / CDATA section ends at the first occurrence of its closing delimiter at or after the end of the opening one'),
    ('html_matcher.utils.consume_array', 'a delimiter is consumed only as a whole: a partial match restores the position'),
    ('html_matcher.utils.consume_paired', 'paired delimiters nest; an unbalanced opener restores the position'),
    ('html_matcher.attributes.attributes', 'attributes are listed in document order with exact name and value ranges'),
    ('html_matcher.attributes.attribute_name', 'an attribute name is an identifier or an expression in brackets'),
    ('html_matcher.attributes.attribute_value', 'an attribute value is a quoted string, a paired expression or an unquoted run'),
    ('html_matcher.get_attributes', 'attribute offsets are shifted by the position of the tag in the document'),
]
CSS = [
    ('css_matcher.scan.scan', 'the css scanner reports selector / property name / property value / block end tokens with exact ranges'),
    ('css_matcher.scan.comment', 'a css comment ends at the first */; an unclosed comment runs to the end of the input'),
    ('css_matcher.parse.split_value', 'a property value is split at top-level white space and commas; parentheses and strings are kept whole'),
    ('css_matcher.match.scan_callback', 'match() keeps the innermost section / property that encloses the position'),
    ('css_matcher.balanced_outward.scan_callback', 'balanced_outward() collects every enclosing range from the innermost outward'),
    ('css_matcher.balanced_inward.scan_callback', 'balanced_inward() follows the first child inward from the enclosing section'),
]
ACTIONS = [
    ('action_utils.css.get_css_section.scan_callback', 'the css section around the position: innermost selector block that encloses it'),
    ('action_utils.css.parse_properties.scan_callback', 'properties of a section: name, value, before/after ranges; nested sections are skipped'),
    ('action_utils.css.select_next_item.scan_callback', 'next item: first selector / property that starts at or after the position'),
    ('action_utils.css.select_previous_item.scan_callback', 'previous item: last selector / property that starts before the position (its value is still collected)'),
    ('action_utils.css.select_previous_item', 'previous item: the pending property is completed before the result is built'),
    ('action_utils.html.get_open_tag.scan_callback', 'the open tag at the position: open or self-closing tag whose range contains it'),
    ('action_utils.html.select_next_item.scan_callback', 'next item: first open tag that ends after the position'),
    ('action_utils.html.select_previous_item.scan_callback', 'previous item: last open tag that starts before the position'),
    ('action_utils.html.get_tag_selection_model', 'selection ranges of a tag: name, then each attribute, its value and the tokens of a class value'),
    ('action_utils.html.shift_attribute_ranges', 'attribute ranges are shifted by the tag offset'),
    ('action_utils.html.value_range', 'the value range excludes the quotes'),
]
INDENT = [
    ('markup.format.indent_format.push_value', 'element text: on the element line when it is one line, otherwise every text line on its own line one level deeper, each behind the text marker of the syntax'),
    ('markup.format.indent_format.push_primary_attributes', 'id and class are printed as #id / .class shorthands in written order'),
    ('markup.format.indent_format.push_secondary_attributes', 'other attributes are printed inside the attribute brackets of the syntax, separated by its glue'),
    ('markup.format.indent_format.collect_attributes', 'attributes are split into primary (id, class with a value) and secondary, each in written order'),
    ('markup.format.indent_format.value_length', 'length of a value: characters of strings plus the placeholders of fields'),
]
CSSMATCH = [
    ('stylesheet.get_unmatched_part', 'the unmatched part starts after the last character of the abbreviation that was found in the snippet key, in order'),
    ('stylesheet.resolve_as_property', 'a matched property snippet takes the unmatched part as inline value and resolves keywords and numbers of the written values'),
    ('stylesheet.resolve_as_snippet', 'a raw snippet replaces the node value'),
    ('stylesheet.snippets.nest', 'a snippet whose key prefixes another is linked to it as a dependency'),
    ('stylesheet.snippets.create_snippet', 'a snippet value that looks like a property becomes a property snippet, else a raw one'),
]
CSSVALUE = [
    ('stylesheet.resolve_keyword', 'a keyword is looked up in the snippet keywords, then in the global keywords, by best score'),
    ('stylesheet.resolve_numeric_value', 'a number without unit gets the int / float unit of the property unless the property is unit-less; a unit alias is replaced'),
    ('stylesheet.resolve_value_keywords', 'literal values are resolved against the snippet keywords, the others are left as written'),
]
CONVERT = [
    ('abbreviation.stringify.RepeaterPlaceholder', '$# takes its text from the closest enclosing *implicit* repeater (none: no text); the line is picked by that repeater\'s counter'),
    ('abbreviation.convert.ConvertState.__init__', 'the wrap text is kept as given; its non-blank lines (strip() non-empty) are what implicit repeaters count'),
    ('abbreviation.convert.convert_attribute', 'a quoted / braced attribute value loses exactly its delimiters, on a copy of the token list (the parsed abbreviation is converted once per repetition)'),
    ('output_stream.attr_quote', 'the quote character depends only on the attribute kind and output.attributeQuotes'),
]
LINES = [
    ('markup.format.utils.split_by_lines', 'tokens are cut at the line breaks inside string tokens; the text after the last break stays the open current line'),
    ('output_stream.OutputStream.push_newline', 'a line break emits newline + base indent (+ indent for a level), advances line and resets column to the width of what follows the break'),
]
NUMBER = [
    ('css_abbreviation.tokenizer.consume_number', 'a css number is -? digits [. digits] or -? . digits; a lone dash or dot is not consumed'),
    ('math_expression.parser.consume_number', 'a number is . digits or digits [. digits]; anything else restores the position'),
]

CSSABBR = [
    ('css_abbreviation.parser.parser', 'a stylesheet abbreviation is a list of properties separated by +'),
    ('css_abbreviation.parser.consume_property', 'a property is name [value-delimiter] values [!]; fragments are separated by - or :'),
    ('css_abbreviation.parser.consume_value', 'a value is a run of value tokens; a name followed by ( .. ) is a function call whose argument list may be empty'),
    ('css_abbreviation.parser.consume_arguments', 'arguments are comma-separated values between the brackets'),
    ('css_abbreviation.parser.is_function_start', 'a function starts where a literal is directly followed by an opening bracket'),
]
CONFIG = [
    ('config.Config.get', 'a key is looked up among the resolved fields first, then in the raw user configuration'),
    ('config.merged_data', 'the six configuration layers are merged in the documented order into a fresh dict'),
    ('stylesheet.get_snippets_for_scope', 'a section context keeps raw snippets only, a property context keeps property snippets only, no context keeps all'),
    ('stylesheet.parse', 'snippets are converted once per cache; the scope filter is applied on every call; every node is resolved'),
    ('stylesheet.convert_snippets', 'every snippet of the table is converted, sorted by key, and nested'),
    ('stylesheet.resolve_gradient', 'a gradient function call or the gradient snippet name becomes a linear-gradient value'),
    ('stylesheet.wrap_with_field', 'values of a resolved snippet become numbered fields in written order'),
    ('stylesheet.has_field', 'a value has a field if one of its tokens is one'),
]
OUTPUT = [
    ('output_stream.tag_name', 'the element name is printed in output.tagCase'),
    ('output_stream.attr_name', 'the attribute name is printed in output.attributeCase'),
    ('output_stream.str_case', 'case conversion: upper, lower, or as given'),
    ('output_stream.is_boolean_attribute', 'an attribute is boolean if marked so or listed in output.booleanAttributes (lower-cased name)'),
    ('output_stream.self_close', 'the self-closing marker of output.selfClosingStyle'),
    ('output_stream.is_inline', 'inline: a text node without name, or a name listed in inlineElements (lower-cased)'),
    ('output_stream.OutputStream.push_field', 'a field is rendered by the output.field callback with the stream position'),
    ('output_stream.OutputStream.push_string', 'a string is pushed line by line: only the first line goes after the current text, each further line follows a line break'),
    ('output_stream.OutputStream.push_indent', 'indentation is the indent string repeated level times'),
    ('markup.format.utils.push_tokens', 'strings are pushed as text, fields with the running tabstop offset; the offset then advances past the largest index used'),
    ('markup.format.utils.should_output_attribute', 'implied attributes without value are not printed'),
    ('markup.format.utils.is_inline_element', 'an inline element is a named node listed in inlineElements'),
    ('markup.format.comment.output', 'the comment template is printed with the attribute values of the commented node'),
]
ATTRS = [
    ('markup.attributes.merge_attributes', 'repeated attributes are merged into their first mention (class values joined with a space), in first-mention order'),
    ('markup.attributes.merge_value', 'two value token lists are concatenated with the glue between them'),
    ('markup.attributes.merge_declarations', 'a later mention overrides name, value, value type and adds the boolean / implied / multiple marks'),
    ('markup.attributes.append', 'a string is appended to a trailing string token, otherwise becomes a new token'),
    ('markup.format.html.get_multi_value', 'key* for a repeated shorthand, else key'),
    ('markup.implicit_tag.resolve_implicit_tag', 'implicit name: table entry of the lower-cased parent (or context) name, span inside inline parents, div otherwise'),
    ('markup.implicit_tag.get_parent_element', 'the closest ancestor that is an element (has a name)'),
]


def _run(p, res, rname, items):
    for fq, msg in items:
        check_table(p, res, rname, fq, msg)
    res.require_floor(len(items) - 2)


@rule('TBL-HTMLSCAN', 'N', 'html scanner and attribute parser: reviewed case analysis')
def tbl_htmlscan(p, res):
    _run(p, res, 'TBL-HTMLSCAN', HTML)


@rule('TBL-CSSSCAN', 'N', 'css scanner and matcher callbacks: reviewed case analysis')
def tbl_cssscan(p, res):
    _run(p, res, 'TBL-CSSSCAN', CSS)


@rule('TBL-ACTIONS', 'N', 'editor action helpers: reviewed case analysis')
def tbl_actions(p, res):
    _run(p, res, 'TBL-ACTIONS', ACTIONS)


@rule('TBL-INDENT', 'N', 'indent-based formatter (haml / pug / slim): reviewed case analysis')
def tbl_indent(p, res):
    _run(p, res, 'TBL-INDENT', INDENT)


@rule('TBL-CSSMATCH', 'N', 'stylesheet snippet matching: reviewed case analysis')
def tbl_cssmatch(p, res):
    _run(p, res, 'TBL-CSSMATCH', CSSMATCH)


@rule('TBL-CSSVALUE', 'N', 'stylesheet value resolution: reviewed case analysis')
def tbl_cssvalue(p, res):
    _run(p, res, 'TBL-CSSVALUE', CSSVALUE)


@rule('TBL-CONVERT', 'N', 'converter and stringifier helpers: reviewed case analysis')
def tbl_convert(p, res):
    import ast as _ast

    def any_repeater(p, f):
        """$# must look for an *implicit* repeater: a function that never reads `.implicit` takes whatever repeater is innermost"""
        if not any(isinstance(n, _ast.Attribute) and n.attr == 'implicit' for n in f.body_nodes()):
            return f.node, 'RepeaterPlaceholder', 'the placeholder never looks at `.implicit`: it takes its line from the innermost repeater of any kind (the counter of an explicit *N inside the wrapped element picks the line)'
        return None
    for fq, msg in CONVERT:
        check_table(p, res, 'TBL-CONVERT', fq, msg, detectors=(any_repeater,) if fq.endswith('RepeaterPlaceholder') else ())
    res.require_floor(2)


@rule('TBL-LINES', 'N', 'line splitting and line-break emission: reviewed case analysis')
def tbl_lines(p, res):
    for fq, msg in LINES:
        check_table(p, res, 'TBL-LINES', fq, msg)
    res.require_floor(1)


@rule('TBL-NUMBER', 'N', 'number scanners: reviewed case analysis')
def tbl_number(p, res):
    for fq, msg in NUMBER:
        check_table(p, res, 'TBL-NUMBER', fq, msg)
    res.require_floor(1)


@rule('TBL-CSSABBR', 'N', 'stylesheet abbreviation parser: reviewed case analysis')
def tbl_cssabbr(p, res):
    _run(p, res, 'TBL-CSSABBR', CSSABBR)


@rule('TBL-CONFIG', 'N', 'configuration lookup, layer merge and stylesheet snippet selection: reviewed case analysis')
def tbl_config(p, res):
    _run(p, res, 'TBL-CONFIG', CONFIG)


@rule('TBL-OUTPUT', 'N', 'output stream helpers and token printing: reviewed case analysis')
def tbl_output(p, res):
    _run(p, res, 'TBL-OUTPUT', OUTPUT)


@rule('TBL-ATTRS', 'N', 'attribute merging, name mapping and implicit names: reviewed case analysis')
def tbl_attrs(p, res):
    _run(p, res, 'TBL-ATTRS', ATTRS)
