"""TBL-* : reviewed decision tables of the scanners, matcher callbacks and action helpers whose case analysis *is* the property
(which token is reported for which input shape, which range is selected): every case of the function on the analysed tree is
compared with the reviewed case (tables_spec.py).  Same verdict policy as every table rule: agreeing cases are discharged, a
positively identified difference in the externally visible steps is a violation, anything else is reported undecided."""
from . import rule
from .tablecheck import check_table

HTML = [
    ('html_matcher.scan.scan', 'the html scanner reports, in document order, every open / close / self-closing tag with its exact range, and skips comments, CDATA, processing instructions and the content of special elements'),
    ('html_matcher.scan.consume_closing', 'a closing tag is `</` name `>`: name and range are reported only when it is complete'),
    ('html_matcher.utils.consume_section', 'a comment / CDATA section ends at the first occurrence of its closing delimiter at or after the end of the opening one'),
    ('html_matcher.utils.consume_array', 'a delimiter is consumed only as a whole: a partial match restores the position'),
    ('html_matcher.utils.consume_paired', 'paired delimiters nest; an unbalanced opener restores the position'),
    ('html_matcher.attributes.attributes', 'attributes are listed in document order with exact name and value ranges'),
    ('html_matcher.attributes.attribute_name', 'an attribute name is an identifier or an expression in brackets'),
    ('html_matcher.attributes.attribute_value', 'an attribute value is a quoted string, a paired expression or an unquoted run'),
    ('html_matcher.get_attributes', 'attribute offsets are shifted by the position of the tag in the document'),
]
CSS = [
    ('css_matcher.scan.scan', 'the css scanner reports selector / property name / property value / block end tokens with exact ranges'),
    ('css_matcher.scan.comment', 'a css comment ends at the first */; an unclosed comment runs to the end of the input'),
    ('css_matcher.parse.split_value', 'a property value is split at top-level white space and commas; parentheses and strings are kept whole'),
    ('css_matcher.match.scan_callback', 'match() keeps the innermost section / property that encloses the position'),
    ('css_matcher.balanced_outward.scan_callback', 'balanced_outward() collects every enclosing range from the innermost outward'),
    ('css_matcher.balanced_inward.scan_callback', 'balanced_inward() follows the first child inward from the enclosing section'),
]
ACTIONS = [
    ('action_utils.css.get_css_section.scan_callback', 'the css section around the position: innermost selector block that encloses it'),
    ('action_utils.css.parse_properties.scan_callback', 'properties of a section: name, value, before/after ranges; nested sections are skipped'),
    ('action_utils.css.select_next_item.scan_callback', 'next item: first selector / property that starts at or after the position'),
    ('action_utils.css.select_previous_item.scan_callback', 'previous item: last selector / property that starts before the position (its value is still collected)'),
    ('action_utils.css.select_previous_item', 'previous item: the pending property is completed before the result is built'),
    ('action_utils.html.get_open_tag.scan_callback', 'the open tag at the position: open or self-closing tag whose range contains it'),
    ('action_utils.html.select_next_item.scan_callback', 'next item: first open tag that ends after the position'),
    ('action_utils.html.select_previous_item.scan_callback', 'previous item: last open tag that starts before the position'),
    ('action_utils.html.get_tag_selection_model', 'selection ranges of a tag: name, then each attribute, its value and the tokens of a class value'),
    ('action_utils.html.shift_attribute_ranges', 'attribute ranges are shifted by the tag offset'),
    ('action_utils.html.value_range', 'the value range excludes the quotes'),
]
INDENT = [
    ('markup.format.indent_format.push_value', 'element text: on the element line when it is one line, otherwise every text line on its own line one level deeper, each behind the text marker of the syntax'),
    ('markup.format.indent_format.push_primary_attributes', 'id and class are printed as #id / .class shorthands in written order'),
    ('markup.format.indent_format.push_secondary_attributes', 'other attributes are printed inside the attribute brackets of the syntax, separated by its glue'),
    ('markup.format.indent_format.collect_attributes', 'attributes are split into primary (id, class with a value) and secondary, each in written order'),
    ('markup.format.indent_format.value_length', 'length of a value: characters of strings plus the placeholders of fields'),
]
CSSMATCH = [
    ('stylesheet.get_unmatched_part', 'the unmatched part starts after the last character of the abbreviation that was found in the snippet key, in order'),
    ('stylesheet.resolve_as_property', 'a matched property snippet takes the unmatched part as inline value and resolves keywords and numbers of the written values'),
    ('stylesheet.resolve_as_snippet', 'a raw snippet replaces the node value'),
    ('stylesheet.snippets.nest', 'a snippet whose key prefixes another is linked to it as a dependency'),
    ('stylesheet.snippets.create_snippet', 'a snippet value that looks like a property becomes a property snippet, else a raw one'),
]
CSSVALUE = [
    ('stylesheet.resolve_keyword', 'a keyword is looked up in the snippet keywords, then in the global keywords, by best score'),
    ('stylesheet.resolve_numeric_value', 'a number without unit gets the int / float unit of the property unless the property is unit-less; a unit alias is replaced'),
    ('stylesheet.resolve_value_keywords', 'literal values are resolved against the snippet keywords, the others are left as written'),
]
CONVERT = [
    ('abbreviation.stringify.RepeaterPlaceholder', '$# takes its text from the closest enclosing *implicit* repeater (none: no text); the line is picked by that repeater\'s counter'),
    ('abbreviation.convert.ConvertState.__init__', 'the wrap text is kept as given; its non-blank lines (strip() non-empty) are what implicit repeaters count'),
    ('abbreviation.convert.convert_attribute', 'a quoted / braced attribute value loses exactly its delimiters, on a copy of the token list (the parsed abbreviation is converted once per repetition)'),
    ('output_stream.attr_quote', 'the quote character depends only on the attribute kind and output.attributeQuotes'),
]
LINES = [
    ('markup.format.utils.split_by_lines', 'tokens are cut at the line breaks inside string tokens; the text after the last break stays the open current line'),
    ('output_stream.OutputStream.push_newline', 'a line break emits newline + base indent (+ indent for a level), advances line and resets column to the width of what follows the break'),
]
NUMBER = [
    ('css_abbreviation.tokenizer.consume_number', 'a css number is -? digits [. digits] or -? . digits; a lone dash or dot is not consumed'),
    ('math_expression.parser.consume_number', 'a number is . digits or digits [. digits]; anything else restores the position'),
]


def _run(p, res, rname, items):
    for fq, msg in items:
        check_table(p, res, rname, fq, msg)
    res.require_floor(len(items) - 2)


@rule('TBL-HTMLSCAN', 'N', 'html scanner and attribute parser: reviewed case analysis')
def tbl_htmlscan(p, res):
    _run(p, res, 'TBL-HTMLSCAN', HTML)


@rule('TBL-CSSSCAN', 'N', 'css scanner and matcher callbacks: reviewed case analysis')
def tbl_cssscan(p, res):
    _run(p, res, 'TBL-CSSSCAN', CSS)


@rule('TBL-ACTIONS', 'N', 'editor action helpers: reviewed case analysis')
def tbl_actions(p, res):
    _run(p, res, 'TBL-ACTIONS', ACTIONS)


@rule('TBL-INDENT', 'N', 'indent-based formatter (haml / pug / slim): reviewed case analysis')
def tbl_indent(p, res):
    _run(p, res, 'TBL-INDENT', INDENT)


@rule('TBL-CSSMATCH', 'N', 'stylesheet snippet matching: reviewed case analysis')
def tbl_cssmatch(p, res):
    _run(p, res, 'TBL-CSSMATCH', CSSMATCH)


@rule('TBL-CSSVALUE', 'N', 'stylesheet value resolution: reviewed case analysis')
def tbl_cssvalue(p, res):
    _run(p, res, 'TBL-CSSVALUE', CSSVALUE)


@rule('TBL-CONVERT', 'N', 'converter and stringifier helpers: reviewed case analysis')
def tbl_convert(p, res):
    import ast as _ast

    def any_repeater(p, f):
        """$# must look for an *implicit* repeater: a function that never reads `.implicit` takes whatever repeater is innermost"""
        if not any(isinstance(n, _ast.Attribute) and n.attr == 'implicit' for n in f.body_nodes()):
            return f.node, 'RepeaterPlaceholder', 'the placeholder never looks at `.implicit`: it takes its line from the innermost repeater of any kind (the counter of an explicit *N inside the wrapped element picks the line)'
        return None
    for fq, msg in CONVERT:
        check_table(p, res, 'TBL-CONVERT', fq, msg, detectors=(any_repeater,) if fq.endswith('RepeaterPlaceholder') else ())
    res.require_floor(2)


@rule('TBL-LINES', 'N', 'line splitting and line-break emission: reviewed case analysis')
def tbl_lines(p, res):
    for fq, msg in LINES:
        check_table(p, res, 'TBL-LINES', fq, msg)
    res.require_floor(1)


@rule('TBL-NUMBER', 'N', 'number scanners: reviewed case analysis')
def tbl_number(p, res):
    for fq, msg in NUMBER:
        check_table(p, res, 'TBL-NUMBER', fq, msg)
    res.require_floor(1)
