"""Path exploration client for typestate rules (PATH-*).

Explores every path of one function with the structured interpreter of
absint.py.  Two tests of the same pure expression take the same truth value on
one path as long as no variable occurring in it was assigned in between
(correlated conditions).  A rule supplies `event(state, kind, node)` handlers
that move a small automaton stored in the state.
"""
import ast
import re

from .core import AnalysisError, src_of
from .absint import Interp, Client, State


class PathClient(Client):
    split_bool_assign = True
    PURE_CALLS = {'len', 'isinstance', 'some', 'is_snippet', 'is_inline', 'bool', 'is_field', 'has_newline', 'get_item',
                  'is_self_close', 'min', 'max'}

    def __init__(self, project, func):
        self.p = project
        self.f = func
        self.violations = []     # (node, construct, message, state)
        self.n_events = 0
        self.rebound = func.rebound_by_nested() if hasattr(func, 'rebound_by_nested') else set()

    # ------------------------------------------------------------- override
    def on_call(self, it, s, call):
        """-> state (may record events)"""
        return s

    def on_store(self, it, s, target, value, stmt):
        return s

    def on_aug(self, it, s, stmt):
        return s

    def on_exit(self, it, s, value, stmt):
        return s

    def on_test(self, it, s, expr, truth):
        return s

    # --------------------------------------------------------------- helpers
    def auto(self, s, default=()):
        return s.get(('auto',), default)

    def set_auto(self, s, v):
        return s.set(('auto',), v)

    def cond_value(self, s, expr_src):
        return s.get(('cond', expr_src))

    def bad(self, node, construct, message, s):
        key = (construct, message)
        if not any((c, m) == key for _, c, m, _ in self.violations):
            self.violations.append((node, construct, message, s))

    def is_pure(self, expr):
        if isinstance(expr, (ast.Name, ast.Constant)):
            return True
        if isinstance(expr, ast.Attribute):
            return self.is_pure(expr.value)
        if isinstance(expr, ast.Subscript):
            return self.is_pure(expr.value) and self.is_pure(expr.slice)
        if isinstance(expr, ast.Compare):
            return self.is_pure(expr.left) and all(self.is_pure(c) for c in expr.comparators)
        if isinstance(expr, ast.BinOp):
            return self.is_pure(expr.left) and self.is_pure(expr.right)
        if isinstance(expr, ast.UnaryOp):
            return self.is_pure(expr.operand)
        if isinstance(expr, (ast.Tuple, ast.List)):
            return all(self.is_pure(e) for e in expr.elts)
        if isinstance(expr, ast.Call):
            fn = expr.func
            name = fn.id if isinstance(fn, ast.Name) else (fn.attr if isinstance(fn, ast.Attribute) else None)
            if name in self.PURE_CALLS or (isinstance(fn, ast.Attribute) and fn.attr in ('get', 'lower', 'startswith', 'keys')):
                recv_ok = self.is_pure(fn.value) if isinstance(fn, ast.Attribute) else True
                return recv_ok and all(self.is_pure(a) for a in expr.args)
        return False

    def kill(self, s, name):
        pat = re.compile(r'(?<![\w.])%s\b' % re.escape(name))          # the local itself, not an attribute of the same name
        return s.drop_if(lambda k, v: (k[0] == 'cond' and pat.search(k[1]) is not None)
                         or (k[0] == 'bind' and (k[1] == name or (v[0] == 'alias' and pat.search(v[1]) is not None))))

    def binding(self, s, name):
        """what a local currently stands for on this path: ('none',) | ('alias', source of a name / attribute) | None"""
        return s.get(('bind', name)) if s is not None else None

    def _none_test(self, s, expr):
        """`x is None` / `x is not None` for a local bound on this path to None, to something known to be truthy, or to a
        module-level display -> True / False / None (unknown)"""
        if not (isinstance(expr, ast.Compare) and len(expr.ops) == 1 and isinstance(expr.ops[0], (ast.Is, ast.IsNot)) and isinstance(expr.left, ast.Name)
                and isinstance(expr.comparators[0], ast.Constant) and expr.comparators[0].value is None):
            return None
        b = self.binding(s, expr.left.id)
        if b is None:
            return None
        is_none = None
        if b[0] == 'none':
            is_none = True
        elif b[0] == 'alias':
            if s.get(('cond', b[1])) is True:
                is_none = False
            elif b[1].isidentifier() and b[1] not in self.f.locals and b[1] not in self.f.params:
                ent = self.p.resolve_name(self.f, b[1])
                if ent is not None and ent.kind == 'const' and len(ent.obj[2]) == 1 and isinstance(ent.obj[2][0], (ast.List, ast.Tuple, ast.Dict, ast.Set, ast.JoinedStr)):
                    is_none = False
        if is_none is None:
            return None
        return is_none if isinstance(expr.ops[0], ast.Is) else not is_none

    # ---------------------------------------------------------------- hooks
    def atom(self, it, s, expr):
        # effects of calls inside the condition
        states = [s]
        if not self.is_pure(expr):
            states = self._effects(it, s, expr)
            out_t, out_f = [], []
            for st in states:
                out_t.append(self.on_test(it, st, expr, True))
                out_f.append(self.on_test(it, st, expr, False))
            return out_t, out_f
        key = ('cond', src_of(expr))
        v = s.get(key)
        if v is None:
            v = self._none_test(s, expr)
        if v is True:
            return [self.on_test(it, s, expr, True)], []
        if v is False:
            return [], [self.on_test(it, s, expr, False)]
        return [self.on_test(it, s.set(key, True), expr, True)], [self.on_test(it, s.set(key, False), expr, False)]

    def _effects(self, it, s, expr):
        """evaluate the calls inside an impure expression in source order"""
        states = [s]
        if isinstance(expr, ast.Call):
            subs = ([expr.func.value] if isinstance(expr.func, ast.Attribute) else []) + list(expr.args) + [k.value for k in expr.keywords]
            for e in subs:
                nxt = []
                for st in states:
                    nxt += self._effects(it, st, e) if not self.is_pure(e) else [st]
                states = nxt
            out = []
            for st in states:
                for name in self.rebound:
                    st = self.kill(st, name)
                out.append(self.on_call(it, st, expr))
            return out
        for c in ast.iter_child_nodes(expr):
            if isinstance(c, ast.expr):
                nxt = []
                for st in states:
                    nxt += it.eval(c, st)
                states = nxt
        return states

    def call(self, it, s, call):
        self.n_events += 1
        for name in self.rebound:
            s = self.kill(s, name)          # the callee may be (or call) a nested function that re-binds it
        return [self.on_call(it, s, call)]

    def assign(self, it, s, target, value, stmt):
        if isinstance(target, ast.Name):
            s = self.kill(s, target.id)
            if isinstance(value, tuple):
                s = s.set(('cond', target.id), value[1])
            elif isinstance(value, ast.Constant) and value.value is None:
                s = s.set(('bind', target.id), ('none',))
            elif isinstance(value, (ast.Name, ast.Attribute)) and self.is_pure(value):
                s = s.set(('bind', target.id), ('alias', src_of(value)))
        elif isinstance(target, (ast.Tuple, ast.List)):
            for t in target.elts:
                if isinstance(t, ast.Name):
                    s = self.kill(s, t.id)
        else:
            # store into an attribute / subscript: conditions on exactly that expression are stale
            ts = src_of(target)
            if isinstance(stmt, ast.Delete) and isinstance(target, ast.Subscript):
                ts = src_of(target.value)        # elements removed: everything known about the container is stale
            s = s.drop_if(lambda k, v: k[0] == 'cond' and ts in k[1])
        return [self.on_store(it, s, target, value, stmt)]

    def augassign(self, it, s, stmt):
        if isinstance(stmt.target, ast.Name):
            s = self.kill(s, stmt.target.id)
        else:
            ts = src_of(stmt.target)
            s = s.drop_if(lambda k, v: k[0] == 'cond' and ts in k[1])
        return [self.on_aug(it, s, stmt)]

    def for_target(self, it, s, loop):
        for n in ast.walk(loop.target):
            if isinstance(n, ast.Name):
                s = self.kill(s, n.id)
        return [s]

    def on_return(self, it, s, value, stmt):
        return self.on_exit(it, s, value, stmt)


def explore(project, func, client, init=None, normal='guard'):
    """explore all paths of `func`; by default over its normal form (small same-module helpers inlined, if/else in guard
    form, len() truthiness simplified) so that extract-helper / guard-clause refactorings do not change what is seen"""
    body = None
    if normal:
        from . import norm
        if callable(normal):
            body = norm.nf(project, func, select=normal).body
        else:
            body = norm.nf(project, func, inline=(normal == 'inline')).body
    it = Interp(project, func, client, body=body)
    fl = it.run([init or State({})])
    return fl
