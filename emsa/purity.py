"""Which project functions are effect-free?  (used by the decision tables: a call to an effect-free function is part of
the expression it occurs in, not a step of its own, so adding or dropping a redundant look-ahead changes nothing)

A function is effect-free when the effect analysis finds no mutation of anything reachable from its parameters, globals or
default arguments, it assigns no global / nonlocal, raises nothing explicitly, calls no parameter (callback) and calls only
effect-free project functions and read-only builtins / methods.  Computed as a greatest fixpoint."""
import ast

from .core import src_of, Class
from . import effects

READONLY_BUILTINS = {'len', 'str', 'int', 'float', 'max', 'min', 'abs', 'isinstance', 'bool', 'chr', 'ord', 'round', 'repr', 'tuple', 'list', 'dict',
                     'set', 'sorted', 'reversed', 'hasattr', 'getattr', 'range', 'enumerate', 'zip', 'any', 'all', 'sum', 'type', 'format', 'callable'}
READONLY_METHODS = {'get', 'lower', 'upper', 'startswith', 'endswith', 'join', 'strip', 'lstrip', 'rstrip', 'split', 'rjust', 'ljust', 'zfill', 'find',
                    'index', 'count', 'replace', 'format', 'keys', 'values', 'items', 'isdigit', 'isalpha', 'isdecimal', 'group', 'title', 'center',
                    'splitlines', 'match', 'search', 'copy', 'isspace', 'isupper', 'islower'}
_PURE = {}


def pure_functions(project):
    key = id(project)
    if key in _PURE:
        return _PURE[key]
    eff = effects.get(project)
    ga = {f.qualname for f, _, _ in eff.global_assigns}
    cand = set()
    calls = {}
    for q, f in project.funcs.items():
        if eff.sum[q].sites or q in ga or f.nonlocal_decl or f.name == '__init__':
            continue
        bad = False
        cs = []
        for n in f.body_nodes():
            if isinstance(n, (ast.Raise, ast.Global, ast.Nonlocal, ast.Delete)):
                bad = True
                break
            if isinstance(n, (ast.Assign, ast.AugAssign)):
                for t in (n.targets if isinstance(n, ast.Assign) else [n.target]):
                    if not isinstance(t, (ast.Name, ast.Tuple, ast.List)):
                        bad = True
            if isinstance(n, ast.Call):
                cs.append(n)
        if bad:
            continue
        cand.add(q)
        calls[q] = cs
    changed = True
    while changed:
        changed = False
        for q in list(cand):
            f = project.funcs[q]
            for c in calls[q]:
                tgt = project.resolve_call(f, c)
                ok = False
                if isinstance(tgt, list) and tgt:
                    ok = all(g.qualname in cand for g in tgt)
                elif isinstance(tgt, tuple) and tgt[0] == 'builtin':
                    ok = tgt[1] in READONLY_BUILTINS
                elif isinstance(tgt, tuple) and tgt[0] == 'builtin-method':
                    ok = tgt[1] in READONLY_METHODS
                elif isinstance(tgt, tuple) and tgt[0] == 'extern':
                    ok = tgt[1] in ('re.match', 're.search', 're.sub', 're.compile', 'math.floor', 'floor', 'copy.deepcopy', 'deepcopy')
                elif isinstance(tgt, Class):
                    ok = False          # object creation: identity matters
                if not ok:
                    cand.discard(q)
                    changed = True
                    break
    _PURE[key] = cand
    return cand
