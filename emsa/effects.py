"""Effect summaries: which objects (named by access paths rooted at parameters,
module-level names or free variables) a function may mutate, what it returns
and which aliases it creates in the heap.  Field-based, flow-insensitive
between functions; inside a function statements are visited in source order
with strong updates for unconditional top-level assignments (so re-binding a
parameter to a copy ends its association with the caller's object).

origin = (root, path)
  root : ('param', name) | ('global', module, name) | ('free', name) | ('fresh', site) | ('unknown',)
  path : tuple of field names and '*' (element of a container), at most DEPTH long
"""
import ast

from .core import AnalysisError, Class, Func, src_of, iter_own_nodes
from .callgraph import iter_nodes_with_lambdas

DEPTH = 7
MUTATORS = {'append', 'extend', 'insert', 'pop', 'remove', 'clear', 'sort', 'reverse', 'update', 'setdefault', 'add',
            'discard', 'popitem', '__setitem__', '__delitem__', 'appendleft', 'popleft'}
COPIERS = {'list', 'dict', 'set', 'tuple', 'sorted', 'frozenset'}
ELEM_ALIAS = {'filter', 'map', 'zip', 'enumerate', 'reversed', 'iter', 'next'}
ELEM_METHODS = {'get', 'pop', 'keys', 'values', 'items', 'setdefault', 'popitem', '__getitem__'}
PURE_METHODS = {'lower', 'upper', 'strip', 'lstrip', 'rstrip', 'split', 'join', 'startswith', 'endswith', 'find', 'replace', 'format',
                'capitalize', 'isdecimal', 'isdigit', 'splitlines', 'rjust', 'ljust', 'zfill', 'count', 'index', 'match', 'group',
                'start', 'end', 'search', 'finditer', 'sub', 'title', 'encode', 'isalpha', 'isspace'}


def ext(origin, step):
    """append a step; recursive data (children[*].children[*]...) is folded onto its first occurrence, so paths
    stay short and keep their meaning; a path that still grows beyond DEPTH ends in '?' (= anything below)"""
    root, path = origin
    if path and path[-1] == '?':
        return origin
    if step != '*' and step in path:
        i = path.index(step)
        return (root, path[:i + 1])
    if step == '*' and len(path) >= 2 and path[-1] == '*' and path[-2] == '*':
        return origin
    if len(path) >= DEPTH:
        return (root, path[:DEPTH - 1] + ('?',))
    return (root, path + (step,))


def cat(origin, path):
    o = origin
    for s in path:
        o = ext(o, s)
    return o


class Summary:
    def __init__(self):
        self.mut = {}        # origin -> (func qualname, lineno, construct, chain)   (first site; all sites in self.sites)
        self.sites = {}      # origin -> {(fq, lineno, construct): chain}
        self.ret = set()
        self.stores = set()  # (dst origin, src origin): dst's referent aliases src (both param/global rooted)
        self.temp = []       # verified temporary overrides: (construct, lineno)

    def key(self):
        return (frozenset((o, k) for o, d in self.sites.items() for k in d), frozenset(self.ret), frozenset(self.stores))

    def all_sites(self):
        for o, d in self.sites.items():
            for (fq, ln, construct), chain in d.items():
                yield o, (fq, ln, construct, chain)


class Effects:
    def __init__(self, project):
        self.p = project
        self.sum = {q: Summary() for q in project.funcs}
        self.field_alias = {}     # class qualname -> {field: param name}
        self.global_assigns = []  # (func, node, name)
        self._ctor_aliases()
        self._solve()

    # ------------------------------------------------------------------
    def _ctor_aliases(self):
        for c in self.p.classes.values():
            init = c.methods.get('__init__')
            if init is None or not init.params:
                continue
            selfn = init.params[0]
            m = {}
            for n in init.body_nodes():
                if isinstance(n, ast.Assign) and isinstance(n.value, ast.Name) and n.value.id in init.params:
                    for t in n.targets:
                        if isinstance(t, ast.Attribute) and isinstance(t.value, ast.Name) and t.value.id == selfn:
                            m[t.attr] = n.value.id
            self.field_alias[c.qualname] = m

    def _solve(self):
        funcs = sorted(self.p.funcs.values(), key=lambda f: f.qualname)
        for rnd in range(12):
            changed = False
            for f in funcs:
                old = self.sum[f.qualname].key()
                new = FuncAnalysis(self, f).run()
                self.sum[f.qualname] = new
                if new.key() != old:
                    changed = True
            if not changed:
                self.rounds = rnd + 1
                return
        raise AnalysisError('effect summaries do not reach a fixpoint')


class FuncAnalysis:
    def __init__(self, eff, f):
        self.eff = eff
        self.p = eff.p
        self.f = f
        self.env = {}
        self.heap = {}
        self.s = Summary()
        self.strong = set()
        for a in f.all_params():
            self.env[a] = {(('param', a), ())}

    # ---------------------------------------------------------------- run
    def run(self):
        f = self.f
        self.temp_stores = self._temporary_overrides()
        for _ in range(2):
            self.block(f.node.body, top=True)
        # lambdas and nested functions referenced here: their effects on free variables are ours
        for g in f.nested.values():
            gs = self.eff.sum.get(g.qualname)
            if gs is None:
                continue
            for (root, path), info in gs.all_sites():
                if root[0] == 'free':
                    for o in self.env.get(root[1], set()):
                        self.record_mut(cat(o, path), None, info[2], chain=info[3] + [g.short], where=(info[0], info[1]))
                elif root[0] == 'global':
                    self.record_mut((root, path), None, info[2], chain=info[3] + [g.short], where=(info[0], info[1]))
        return self.s

    def _temporary_overrides(self):
        """l-values that are overridden before a try and restored from a saved local in its finally (or, without try,
        restored as the last statement before the return): returns {id(store node)}"""
        out = set()
        body = self.f.node.body
        for i, st in enumerate(body):
            if isinstance(st, ast.Try) and st.finalbody:
                restores = {}
                for n in ast.walk(ast.Module(body=st.finalbody, type_ignores=[])):
                    if isinstance(n, ast.Assign) and len(n.targets) == 1 and isinstance(n.value, ast.Name):
                        restores[src_of(n.targets[0])] = n
                for j in range(i - 1, -1, -1):
                    prev = body[j]
                    cands = [n for n in ast.walk(prev) if isinstance(n, ast.Assign) and len(n.targets) == 1 and src_of(n.targets[0]) in restores]
                    for n in cands:
                        r = restores[src_of(n.targets[0])]
                        saved = r.value.id
                        # the saved local was read from the same object before the override
                        if any(isinstance(b, ast.Assign) and src_of(b.targets[0]) == saved for b in body[:j + 1]):
                            out.add(id(n))
                            out.add(id(r))
                            self.s.temp.append((src_of(n), n.lineno))
                    if cands:
                        break
        return out

    # ----------------------------------------------------------- statements
    def block(self, stmts, top=False):
        for st in stmts:
            self.stmt(st, top)

    def stmt(self, st, top):
        if isinstance(st, ast.Assign):
            v = self.expr(st.value)
            for t in st.targets:
                self.assign(t, v, st, top, st.value)
        elif isinstance(st, ast.AugAssign):
            v = self.expr(st.value)
            t = st.target
            if isinstance(t, ast.Name):
                # x += [..] mutates a list in place
                cur = self.name_origins(t.id)
                if t.id in self.f.globals_decl:
                    self.eff.global_assigns.append((self.f, st, t.id))
                if isinstance(st.op, ast.Add):
                    for o in cur:
                        self.heap.setdefault(ext(o, '*'), set()).update(self.elements(v))
                    # in-place extension of a possibly shared list
                    tt = self.p.type_of(self.f, t)
                    if tt in (None, 'list') and self._maybe_list(t.id):
                        for o in cur:
                            self.record_mut(o, st, src_of(st))
            else:
                for o in self.expr(t.value):
                    self.record_mut(o, st, src_of(st))
                # obj.field += [..]: the list *stored in* the field is extended in place (it may be shared: a module table, a default)
                if isinstance(st.op, ast.Add) and (isinstance(st.value, (ast.List, ast.ListComp)) or self.p.type_of(self.f, st.value) == 'list'):
                    for o in self.expr(t):
                        self.record_mut(o, st, src_of(st))
        elif isinstance(st, ast.AnnAssign):
            if st.value is not None:
                self.assign(st.target, self.expr(st.value), st, top, st.value)
        elif isinstance(st, ast.Expr):
            self.expr(st.value)
        elif isinstance(st, ast.Return):
            if st.value is not None:
                for o in self.expr(st.value):
                    self.s.ret.add(o)
        elif isinstance(st, ast.If):
            self.expr(st.test)
            self.block(st.body)
            self.block(st.orelse)
        elif isinstance(st, ast.While):
            self.expr(st.test)
            self.block(st.body)
            self.block(st.body)
        elif isinstance(st, ast.For):
            it = self.expr(st.iter)
            self.assign(st.target, self.elements(it), st, False, None)
            self.block(st.body)
            self.block(st.body)
        elif isinstance(st, ast.Try):
            self.block(st.body)
            for h in st.handlers:
                self.block(h.body)
            self.block(st.orelse)
            self.block(st.finalbody)
        elif isinstance(st, ast.Raise):
            if st.exc is not None:
                self.expr(st.exc)
        elif isinstance(st, ast.Delete):
            for t in st.targets:
                if isinstance(t, (ast.Subscript, ast.Attribute)):
                    for o in self.expr(t.value):
                        self.record_mut(o, st, src_of(st))
        elif isinstance(st, (ast.FunctionDef, ast.ClassDef, ast.Pass, ast.Break, ast.Continue, ast.Global, ast.Nonlocal, ast.Import, ast.ImportFrom)):
            pass
        else:
            raise AnalysisError('effects: statement kind %s not handled (%s:%d)' % (type(st).__name__, self.f.module.relpath, st.lineno))

    def _maybe_list(self, name):
        vals = self.p.local_assignments(self.f, name)
        for v in vals:
            if isinstance(v, (ast.List, ast.ListComp)):
                return True
            if v is None:
                continue
            if isinstance(v, ast.Constant):
                return False
        return name in self.f.all_params() or not vals

    def assign(self, t, v, st, top, value_node):
        if isinstance(t, ast.Name):
            if t.id in self.f.globals_decl:
                self.eff.global_assigns.append((self.f, st, t.id))
                return
            if top and isinstance(st, ast.Assign):
                self.env[t.id] = set(v)          # strong update: unconditional top-level re-binding
            else:
                self.env.setdefault(t.id, set()).update(v)
        elif isinstance(t, (ast.Tuple, ast.List)):
            for e in t.elts:
                self.assign(e, self.elements(v), st, False, None)
        elif isinstance(t, ast.Attribute):
            objs = self.expr(t.value)
            for o in objs:
                self.heap.setdefault(ext(o, t.attr), set()).update(v)
                if id(st) not in self.temp_stores:
                    self.record_mut(o, st, src_of(st))
                self.record_store(ext(o, t.attr), v)
        elif isinstance(t, ast.Subscript):
            objs = self.expr(t.value)
            self.expr(t.slice)
            for o in objs:
                self.heap.setdefault(ext(o, '*'), set()).update(v)
                if id(st) not in self.temp_stores:
                    self.record_mut(o, st, src_of(st))
                self.record_store(ext(o, '*'), v)
        elif isinstance(t, ast.Starred):
            self.assign(t.value, v, st, False, None)

    def record_store(self, dst, srcs):
        if dst[0][0] in ('param', 'global', 'free'):
            for s in srcs:
                if s[0][0] in ('param', 'global', 'free') and s != dst:
                    self.s.stores.add((dst, s))

    def record_mut(self, origin, node, construct, chain=None, where=None):
        for o in self.resolve(origin):
            root = o[0]
            if root[0] in ('param', 'global', 'free'):
                fq, ln = where if where is not None else (self.f.qualname, getattr(node, 'lineno', 0) if node is not None else 0)
                if o not in self.s.mut:
                    self.s.mut[o] = (fq, ln, construct, chain or [])
                d = self.s.sites.setdefault(o, {})
                if (fq, ln, construct) not in d and len(d) < 12:
                    d[(fq, ln, construct)] = chain or []

    def resolve(self, origin, depth=0):
        """origin plus everything it aliases through the local heap (prefix resolution)"""
        out = {origin}
        if depth > 4:
            return out
        root, path = origin
        for k in range(len(path), 0, -1):
            pre = (root, path[:k])
            for a in self.heap.get(pre, ()):
                if a == pre:
                    continue
                na = cat(a, path[k:])
                if na not in out:
                    out |= self.resolve(na, depth + 1)
        return out

    # ---------------------------------------------------------- expressions
    def name_origins(self, name):
        f = self.f
        if name in f.locals:
            return set(self.env.get(name, set()))
        # closure variable?
        g = f.parent
        while g is not None:
            if name in g.locals:
                return {(('free', name), ())}
            g = g.parent
        e = self.p.resolve_name(f, name)
        if e is not None and e.kind == 'const':
            m, nm, values = e.obj
            return {(('global', m.name, nm), ())}
        return set()

    def elements(self, origins):
        out = set()
        for o in origins:
            for r in self.resolve(ext(o, '*')):
                out.add(r)
        return out

    def field(self, origins, attr):
        out = set()
        for o in origins:
            for r in self.resolve(ext(o, attr)):
                out.add(r)
        return out

    def expr(self, e):
        if e is None:
            return set()
        if isinstance(e, ast.Name):
            return self.name_origins(e.id)
        if isinstance(e, ast.Constant):
            return set()
        if isinstance(e, ast.Attribute):
            return self.field(self.expr(e.value), e.attr)
        if isinstance(e, ast.Subscript):
            base = self.expr(e.value)
            self.expr(e.slice) if not isinstance(e.slice, ast.Slice) else [self.expr(x) for x in (e.slice.lower, e.slice.upper, e.slice.step)]
            if isinstance(e.slice, ast.Slice):
                fr = (('fresh', id(e)), ())
                self.heap.setdefault(ext(fr, '*'), set()).update(self.elements(base))
                return {fr}
            return self.elements(base)
        if isinstance(e, (ast.List, ast.Tuple, ast.Set)):
            fr = (('fresh', id(e)), ())
            for x in e.elts:
                self.heap.setdefault(ext(fr, '*'), set()).update(self.expr(x))
            return {fr}
        if isinstance(e, ast.Dict):
            fr = (('fresh', id(e)), ())
            for k, v in zip(e.keys, e.values):
                if k is not None:
                    self.expr(k)
                vo = self.expr(v)
                self.heap.setdefault(ext(fr, '*'), set()).update(vo if k is not None else self.elements(vo))
            return {fr}
        if isinstance(e, (ast.ListComp, ast.SetComp, ast.GeneratorExp, ast.DictComp)):
            for g in e.generators:
                it = self.expr(g.iter)
                self.assign(g.target, self.elements(it), e, False, None)
                for c in g.ifs:
                    self.expr(c)
            fr = (('fresh', id(e)), ())
            elt = e.value if isinstance(e, ast.DictComp) else e.elt
            self.heap.setdefault(ext(fr, '*'), set()).update(self.expr(elt))
            return {fr}
        if isinstance(e, ast.BoolOp):
            out = set()
            for v in e.values:
                out |= self.expr(v)
            return out
        if isinstance(e, ast.IfExp):
            self.expr(e.test)
            return self.expr(e.body) | self.expr(e.orelse)
        if isinstance(e, (ast.BinOp,)):
            a, b = self.expr(e.left), self.expr(e.right)
            if isinstance(e.op, ast.Add):
                # list concatenation: fresh list with the elements of both
                fr = (('fresh', id(e)), ())
                self.heap.setdefault(ext(fr, '*'), set()).update(self.elements(a) | self.elements(b))
                return {fr}
            return set()
        if isinstance(e, (ast.UnaryOp,)):
            self.expr(e.operand)
            return set()
        if isinstance(e, ast.Compare):
            self.expr(e.left)
            for c in e.comparators:
                self.expr(c)
            return set()
        if isinstance(e, ast.Lambda):
            # body evaluated with unknown parameters; effects on free/global names count
            saved = {a.arg: self.env.get(a.arg) for a in e.args.args}
            for a in e.args.args:
                self.env[a.arg] = set()
            r = self.expr(e.body)
            for k, v in saved.items():
                if v is None:
                    self.env.pop(k, None)
                else:
                    self.env[k] = v
            return set()
        if isinstance(e, ast.JoinedStr):
            for v in e.values:
                if isinstance(v, ast.FormattedValue):
                    self.expr(v.value)
            return set()
        if isinstance(e, ast.Starred):
            return self.expr(e.value)
        if isinstance(e, ast.Call):
            return self.call(e)
        return set()

    def call(self, e):
        p = self.p
        fn = e.func
        args = [self.expr(a) for a in e.args]
        kwargs = {k.arg: self.expr(k.value) for k in e.keywords}
        tgt = p.resolve_call(self.f, e)
        recv = self.expr(fn.value) if isinstance(fn, ast.Attribute) else None
        fresh = (('fresh', id(e)), ())
        # ----- constructors
        if isinstance(tgt, Class):
            init = p.find_method(tgt, '__init__')
            if init is not None:
                self.apply(init, e, [set()] + args, kwargs, self_origin={fresh})
                for k in p.mro(tgt):
                    for fld, pname in self.eff.field_alias.get(k.qualname, {}).items():
                        ki = p.find_method(k, '__init__')
                        if ki is init and pname in init.params:
                            ix = init.params.index(pname) - 1
                            src = args[ix] if 0 <= ix < len(args) else kwargs.get(pname, set())
                            self.heap.setdefault(ext(fresh, fld), set()).update(src)
            return {fresh}
        # ----- project functions
        if isinstance(tgt, list) and tgt:
            out = set()
            for g in tgt:
                a = args
                so = None
                if g.cls is not None and isinstance(fn, ast.Attribute) and not (isinstance(fn.value, ast.Name) and p.resolve_name(self.f, fn.value.id) is not None
                                                                                 and p.resolve_name(self.f, fn.value.id).kind in ('class', 'module')):
                    a = [recv or set()] + args
                out |= self.apply(g, e, a, kwargs)
            return out
        # ----- builtins and unknown callables
        name = fn.id if isinstance(fn, ast.Name) else (fn.attr if isinstance(fn, ast.Attribute) else None)
        if isinstance(fn, ast.Name):
            if name in COPIERS:
                for a in args:
                    self.heap.setdefault(ext(fresh, '*'), set()).update(self.elements(a))
                return {fresh}
            if name in ELEM_ALIAS:
                for a in args:
                    self.heap.setdefault(ext(fresh, '*'), set()).update(self.elements(a))
                return {fresh}
            if isinstance(tgt, tuple) and tgt[0] == 'callback':
                # calling a callable value: assume it may return anything built from its arguments, mutates nothing of ours
                return set()
            return set()
        if isinstance(fn, ast.Attribute):
            if src_of(fn) in ('copy.deepcopy',):
                return {fresh}
            if src_of(fn) in ('copy.copy',):
                for a in args:
                    self.heap.setdefault(ext(fresh, '*'), set()).update(self.elements(a))
                return {fresh}
            rt = p.type_of(self.f, fn.value)
            if name in MUTATORS and not (isinstance(rt, Class) and p.find_method(rt, name) is not None) and rt != 'str':
                for o in recv or ():
                    self.record_mut(o, e, src_of(e))
                    if name in ('append', 'add', 'insert', 'appendleft'):
                        for a in args[-1:]:
                            self.heap.setdefault(ext(o, '*'), set()).update(a)
                            self.record_store(ext(o, '*'), a)
                    elif name in ('extend', 'update'):
                        for a in args:
                            self.heap.setdefault(ext(o, '*'), set()).update(self.elements(a))
                            self.record_store(ext(o, '*'), self.elements(a))
                    elif name == 'setdefault' and len(args) == 2:
                        self.heap.setdefault(ext(o, '*'), set()).update(args[1])
            if name in ELEM_METHODS:
                out = self.elements(recv or set())
                if name == 'get' and len(args) == 2:
                    out |= args[1]
                return out
            if name == 'copy':
                self.heap.setdefault(ext(fresh, '*'), set()).update(self.elements(recv or set()))
                return {fresh}
            if name in PURE_METHODS:
                return set()
            return set()
        return set()

    def apply(self, g, call, args, kwargs, self_origin=None):
        """apply callee summary at a call site; returns result origins"""
        gs = self.eff.sum.get(g.qualname)
        if gs is None:
            return set()
        bind = {}
        params = g.params
        for i, pn in enumerate(params):
            if i < len(args):
                bind[pn] = set(args[i])
            elif pn in kwargs:
                bind[pn] = set(kwargs[pn])
            else:
                d = g.defaults.get(pn)
                mutable = isinstance(d, (ast.Dict, ast.List, ast.Set)) or (isinstance(d, ast.Call) and src_of(d.func) in ('dict', 'list', 'set'))
                bind[pn] = {(('defaultarg', g.qualname, pn), ())} if mutable else set()
        if self_origin is not None and params:
            bind[params[0]] = set(self_origin)
        if g.vararg:
            rest = set()
            for a in args[len(params):]:
                rest |= a
            bind[g.vararg] = rest

        def subst(o):
            root, path = o
            if root[0] == 'param':
                return {cat(b, path) for b in bind.get(root[1], set())}
            if root[0] == 'fresh':
                return {(('fresh', id(call)), path)}
            if root[0] == 'free':
                return set()
            return {o}
        for o, info in gs.all_sites():
            for so in subst(o):
                if so[0][0] == 'defaultarg':
                    # the callee mutates its own default object because we did not pass the argument
                    po = (('global', 'default of ' + so[0][1], so[0][2]), so[1])
                    self.s.mut.setdefault(po, (info[0], info[1], info[2], info[3] + [g.short]))
                    self.s.sites.setdefault(po, {}).setdefault((info[0], info[1], info[2]), info[3] + [g.short])
                    continue
                self.record_mut(so, call, info[2], chain=info[3] + [g.short], where=(info[0], info[1]))
        for dst, src in gs.stores:
            for d in subst(dst):
                for s in subst(src):
                    self.heap.setdefault(d, set()).add(s)
                    self.record_store(d, {s})
        out = set()
        for o in gs.ret:
            out |= subst(o)
        return out


_EFF = {}


def get(project):
    e = _EFF.get(id(project))
    if e is None:
        e = _EFF[id(project)] = Effects(project)
    return e
