"""Decision-table extraction: evaluates a *pure* helper function from its syntax
tree on a finite domain of argument values (no import, no execution of repo
code).  Anything outside the supported subset raises AnalysisError, so a
rewritten helper is reported as "cannot decide", never guessed."""
import ast
import operator

from .core import AnalysisError, Func, Class, src_of


class Rec(dict):
    """A record value: attribute access = key lookup."""
    def __hash__(self):
        return id(self)


class _Break(Exception):
    pass


class _Continue(Exception):
    pass


class _Return(Exception):
    def __init__(self, v):
        self.v = v


_PYTYPES = {'str': str, 'list': list, 'tuple': tuple, 'dict': dict, 'int': int, 'float': float, 'bool': bool}


class Unknown:
    """Opaque value (e.g. an option looked up at run time)."""
    def __init__(self, tag):
        self.tag = tag

    def __repr__(self):
        return '<?%s>' % self.tag


_CMP = {ast.Eq: operator.eq, ast.NotEq: operator.ne, ast.Lt: operator.lt, ast.LtE: operator.le,
        ast.Gt: operator.gt, ast.GtE: operator.ge, ast.Is: operator.is_, ast.IsNot: operator.is_not,
        ast.In: lambda a, b: a in b, ast.NotIn: lambda a, b: a not in b}
_BIN = {ast.Add: operator.add, ast.Sub: operator.sub, ast.Mult: operator.mul, ast.Mod: operator.mod,
        ast.Div: operator.truediv, ast.FloorDiv: operator.floordiv, ast.LShift: operator.lshift,
        ast.RShift: operator.rshift, ast.BitOr: operator.or_, ast.BitAnd: operator.and_}

_SAFE_BUILTINS = {'len': len, 'max': max, 'min': min, 'bool': bool, 'str': str, 'int': int, 'abs': abs,
                  'ord': ord, 'chr': chr, 'isinstance': None, 'format': format, 'float': float, 'range': range, 'enumerate': enumerate,
                  'zip': zip, 'reversed': reversed, 'sorted': sorted, 'any': any, 'all': all, 'sum': sum, 'tuple': tuple, 'list': list, 'set': set,
                  'dict': dict, 'repr': repr, 'round': round}
_SAFE_METHODS = {('str', 'lower'), ('str', 'upper'), ('str', 'isdecimal'), ('str', 'isdigit'), ('str', 'startswith'),
                 ('str', 'endswith'), ('str', 'rjust'), ('str', 'ljust'), ('str', 'zfill'), ('str', 'strip'),
                 ('dict', 'get'), ('str', 'find'), ('str', 'join'), ('str', 'split'), ('str', 'capitalize'),
                 ('str', 'format'), ('str', 'isalpha'), ('list', 'append'), ('list', 'extend'), ('list', 'pop'),
                 ('dict', 'keys'), ('dict', 'items'), ('dict', 'values'), ('str', 'splitlines'), ('str', 'lstrip'), ('str', 'rstrip')}


class MiniEval:
    def __init__(self, project, max_depth=12, hooks=None):
        self.p = project
        self.max_depth = max_depth
        self.hooks = hooks or {}       # qualname -> python callable (models of opaque callees)

    def call(self, func, args, kwargs=None, depth=0):
        if depth > self.max_depth:
            raise AnalysisError('minieval: recursion too deep in %s' % func.qualname)
        if func.qualname in self.hooks:
            return self.hooks[func.qualname](*args, **(kwargs or {}))
        env = {}
        params = func.params
        if len(args) > len(params) and not func.vararg:
            raise AnalysisError('minieval: too many args for %s' % func.qualname)
        for pname, a in zip(params, args):
            env[pname] = a
        if func.vararg:
            env[func.vararg] = tuple(args[len(params):])
        for k, v in (kwargs or {}).items():
            env[k] = v
        for pname in params + func.kwonly:
            if pname not in env:
                if pname in func.defaults:
                    env[pname] = self.eval(func.defaults[pname], {}, func.module, depth)
                else:
                    raise AnalysisError('minieval: missing arg %s for %s' % (pname, func.qualname))
        try:
            self.exec_block(func.node.body, env, func, depth)
        except _Return as r:
            return r.v
        return None

    def exec_block(self, body, env, scope, depth):
        for st in body:
            if isinstance(st, ast.Expr):
                if isinstance(st.value, ast.Constant):
                    continue
                self.eval(st.value, env, scope, depth)
            elif isinstance(st, ast.Return):
                raise _Return(self.eval(st.value, env, scope, depth) if st.value is not None else None)
            elif isinstance(st, ast.If):
                if self.truth(self.eval(st.test, env, scope, depth)):
                    self.exec_block(st.body, env, scope, depth)
                else:
                    self.exec_block(st.orelse, env, scope, depth)
            elif isinstance(st, ast.Assign):
                v = self.eval(st.value, env, scope, depth)
                for t in st.targets:
                    self.assign(t, v, env)
            elif isinstance(st, ast.AugAssign) and isinstance(st.target, ast.Name):
                cur = self.eval(ast.Name(id=st.target.id, ctx=ast.Load()), env, scope, depth)
                v = self.eval(st.value, env, scope, depth)
                env[st.target.id] = _BIN[type(st.op)](cur, v)
            elif isinstance(st, (ast.Global, ast.Pass)):
                continue
            elif isinstance(st, ast.While) and not st.orelse:
                n = 0
                try:
                    while self.truth(self.eval(st.test, env, scope, depth)):
                        n += 1
                        if n > 2000:
                            raise AnalysisError('minieval: loop does not terminate in 2000 iterations')
                        try:
                            self.exec_block(st.body, env, scope, depth)
                        except _Continue:
                            continue
                except _Break:
                    pass
            elif isinstance(st, ast.Break):
                raise _Break()
            elif isinstance(st, ast.Continue):
                raise _Continue()
            elif isinstance(st, ast.For) and not st.orelse:
                it = self.eval(st.iter, env, scope, depth)
                if isinstance(it, Unknown):
                    raise AnalysisError('minieval: loop over unknown')
                try:
                    for x in it:
                        self.assign(st.target, x, env)
                        try:
                            self.exec_block(st.body, env, scope, depth)
                        except _Continue:
                            continue
                except _Break:
                    pass
            else:
                raise AnalysisError('minieval: unsupported statement %s in %s' % (type(st).__name__, getattr(scope, 'qualname', scope)))

    def assign(self, t, v, env):
        if isinstance(t, ast.Name):
            env[t.id] = v
        elif isinstance(t, ast.Attribute) and isinstance(t.value, ast.Name) and isinstance(env.get(t.value.id), Rec):
            env[t.value.id][t.attr] = v
        elif isinstance(t, (ast.Tuple, ast.List)):
            vs = list(v)
            if len(vs) != len(t.elts):
                raise AnalysisError('minieval: unpack mismatch')
            for tt, vv in zip(t.elts, vs):
                self.assign(tt, vv, env)
        else:
            raise AnalysisError('minieval: unsupported assignment target %s' % src_of(t))

    @staticmethod
    def truth(v):
        if isinstance(v, Unknown):
            raise AnalysisError('minieval: branch on unknown value %r' % v)
        return bool(v)

    def eval(self, e, env, scope, depth=0):
        if isinstance(e, ast.Constant):
            return e.value
        if isinstance(e, ast.Name):
            if e.id in env:
                return env[e.id]
            if e.id in ('True', 'False', 'None'):
                return {'True': True, 'False': False, 'None': None}[e.id]
            ent = self.p.resolve_name(scope, e.id)
            if ent is not None and ent.kind in ('func', 'class'):
                return ent.obj
            if ent is not None and ent.kind == 'builtin' and e.id in _PYTYPES:
                return _PYTYPES[e.id]
            try:
                return self.p.const_value(scope, e)
            except (ValueError, TypeError) as ex:
                raise AnalysisError('minieval: cannot evaluate name %s (%s)' % (e.id, ex))
        if isinstance(e, ast.Attribute):
            try:
                base = self.eval(e.value, env, scope, depth)
            except AnalysisError:
                base = None
                ent = self.p.resolve_expr(scope, e)
                if ent is not None:
                    if ent.kind in ('func', 'class'):
                        return ent.obj
                    try:
                        return self.p.const_value(scope, e)
                    except (ValueError, TypeError):
                        pass
                raise
            if isinstance(base, Rec):
                if e.attr not in base:
                    k = base.get('__class__')
                    if isinstance(k, Class):
                        m = self.p.find_method(k, e.attr)
                        if m is not None:
                            return ('method', m, base)
                    raise AnalysisError('minieval: record has no field %s' % e.attr)
                return base[e.attr]
            if isinstance(base, Class):
                for k in self.p.mro(base):
                    if e.attr in k.consts:
                        return self.eval(k.consts[e.attr], {}, k.module, depth)
                    if e.attr in k.methods:
                        return k.methods[e.attr]
                raise AnalysisError('minieval: class %s has no %s' % (base.name, e.attr))
            ent = self.p.resolve_expr(scope, e)
            if ent is not None and ent.kind in ('func', 'class'):
                return ent.obj
            try:
                return self.p.const_value(scope, e)
            except (ValueError, TypeError):
                pass
            # bound builtin method, evaluated at Call
            return ('bound', base, e.attr)
        if isinstance(e, ast.Compare):
            left = self.eval(e.left, env, scope, depth)
            for op, c in zip(e.ops, e.comparators):
                right = self.eval(c, env, scope, depth)
                if isinstance(left, Unknown) or isinstance(right, Unknown):
                    raise AnalysisError('minieval: comparison with unknown')
                try:
                    ok = _CMP[type(op)](left, right)
                except TypeError as ex:
                    raise AnalysisError('minieval: %s' % ex)
                if not ok:
                    return False
                left = right
            return True
        if isinstance(e, ast.BoolOp):
            v = None
            for x in e.values:
                v = self.eval(x, env, scope, depth)
                if isinstance(e.op, ast.And) and not self.truth(v):
                    return v
                if isinstance(e.op, ast.Or) and self.truth(v):
                    return v
            return v
        if isinstance(e, ast.UnaryOp):
            v = self.eval(e.operand, env, scope, depth)
            if isinstance(e.op, ast.Not):
                return not self.truth(v)
            if isinstance(e.op, ast.USub):
                return -v
            raise AnalysisError('minieval: unary op')
        if isinstance(e, ast.IfExp):
            return self.eval(e.body if self.truth(self.eval(e.test, env, scope, depth)) else e.orelse, env, scope, depth)
        if isinstance(e, ast.BinOp):
            l = self.eval(e.left, env, scope, depth)
            r = self.eval(e.right, env, scope, depth)
            if isinstance(l, Unknown) or isinstance(r, Unknown):
                raise AnalysisError('minieval: arithmetic on unknown')
            try:
                return _BIN[type(e.op)](l, r)
            except Exception as ex:
                raise AnalysisError('minieval: %s: %s' % (src_of(e), ex))
        if isinstance(e, (ast.Tuple, ast.List)):
            vs = [self.eval(x, env, scope, depth) for x in e.elts]
            return tuple(vs) if isinstance(e, ast.Tuple) else vs
        if isinstance(e, ast.Dict):
            return {self.eval(k, env, scope, depth): self.eval(v, env, scope, depth) for k, v in zip(e.keys, e.values)}
        if isinstance(e, ast.Subscript):
            base = self.eval(e.value, env, scope, depth)
            if isinstance(e.slice, ast.Slice):
                lo = self.eval(e.slice.lower, env, scope, depth) if e.slice.lower else None
                hi = self.eval(e.slice.upper, env, scope, depth) if e.slice.upper else None
                return base[lo:hi]
            ix = self.eval(e.slice, env, scope, depth)
            try:
                return base[ix]
            except Exception as ex:
                raise AnalysisError('minieval: subscript %s failed: %s' % (src_of(e), ex))
        if isinstance(e, ast.JoinedStr):
            out = []
            for v in e.values:
                if isinstance(v, ast.Constant):
                    out.append(v.value)
                else:
                    out.append(format(self.eval(v.value, env, scope, depth)))
            return ''.join(out)
        if isinstance(e, ast.Call):
            return self.eval_call(e, env, scope, depth)
        if isinstance(e, ast.Lambda):
            return ('lambda', e, dict(env), scope)
        if isinstance(e, (ast.ListComp, ast.GeneratorExp)) and len(e.generators) == 1 and not e.generators[0].is_async:
            gen = e.generators[0]
            it = self.eval(gen.iter, env, scope, depth)
            if isinstance(it, Unknown):
                raise AnalysisError('minieval: comprehension over unknown')
            out = []
            for x in it:
                env2 = dict(env)
                self.assign(gen.target, x, env2)
                if all(self.truth(self.eval(c, env2, scope, depth)) for c in gen.ifs):
                    out.append(self.eval(e.elt, env2, scope, depth))
            return out
        raise AnalysisError('minieval: unsupported expression %s' % type(e).__name__)

    def apply_value(self, fval, args, depth, where):
        """call a callable *value* (project function, lambda, bound method, safe builtin)"""
        if isinstance(fval, Func):
            return self.call(fval, list(args), {}, depth + 1)
        if isinstance(fval, tuple) and fval and fval[0] == 'method':
            return self.call(fval[1], [fval[2]] + list(args), {}, depth + 1)
        if isinstance(fval, tuple) and fval and fval[0] == 'lambda':
            _, lam, lenv, lscope = fval
            env2 = dict(lenv)
            for a, v in zip(lam.args.args, args):
                env2[a.arg] = v
            return self.eval(lam.body, env2, lscope, depth + 1)
        if isinstance(fval, tuple) and fval and fval[0] == 'builtin':
            return _SAFE_BUILTINS[fval[1]](*args)
        if isinstance(fval, tuple) and fval and fval[0] == 'bound' and (type(fval[1]).__name__, fval[2]) in _SAFE_METHODS:
            return getattr(fval[1], fval[2])(*args)
        raise AnalysisError('minieval: cannot call the value handed to %s' % where)

    def eval_call(self, e, env, scope, depth):
        fn0 = e.func
        if isinstance(fn0, ast.Name) and fn0.id in ('map', 'filter') and fn0.id not in env and self._is_builtin(scope, fn0.id) and len(e.args) == 2 and not e.keywords:
            # map(f, xs) / filter(f, xs) over a known sequence: a list (the evaluator is eager; the helpers it reads are pure)
            a0 = e.args[0]
            if isinstance(a0, ast.Constant) and a0.value is None:
                fval = None
            elif isinstance(a0, ast.Name) and a0.id in _SAFE_BUILTINS and a0.id not in env and self._is_builtin(scope, a0.id):
                fval = ('builtin', a0.id)
            else:
                fval = self.eval(a0, env, scope, depth)
            seq = self.eval(e.args[1], env, scope, depth)
            if isinstance(seq, Unknown):
                raise AnalysisError('minieval: %s over unknown' % fn0.id)
            if fn0.id == 'map':
                return [self.apply_value(fval, [x], depth, 'map') for x in seq]
            return [x for x in seq if (self.truth(x) if fval is None else self.truth(self.apply_value(fval, [x], depth, 'filter')))]
        args = [self.eval(a, env, scope, depth) for a in e.args]
        kwargs = {k.arg: self.eval(k.value, env, scope, depth) for k in e.keywords}
        fn = e.func
        # isinstance(x, Cls) on records: Rec carries '__class__' name set
        if isinstance(fn, ast.Name) and fn.id == 'isinstance' and fn.id not in env:
            obj, cls = args
            classes = cls if isinstance(cls, tuple) else (cls,)
            if isinstance(obj, Rec) and '__class__' in obj:
                oc = obj['__class__']
                for c in classes:
                    if isinstance(c, Class) and (c is oc or c in self.p.mro(oc)):
                        return True
                return False
            for c in classes:
                if isinstance(c, type) and isinstance(obj, c) and not isinstance(obj, Rec):
                    return True
            if isinstance(obj, Rec):
                return False
            if isinstance(obj, (str, int, float, list, tuple, dict, type(None))):
                # classes resolved as builtins arrive via const path; compare by name
                return False
            raise AnalysisError('minieval: isinstance on opaque value')
        target = self.eval(fn, env, scope, depth) if not (isinstance(fn, ast.Name) and fn.id in _SAFE_BUILTINS and fn.id not in env and self._is_builtin(scope, fn.id)) else ('builtin', fn.id)
        if isinstance(target, Func):
            return self.call(target, args, kwargs, depth + 1)
        if isinstance(target, tuple) and target and target[0] == 'method':
            return self.call(target[1], [target[2]] + args, kwargs, depth + 1)
        if isinstance(target, tuple) and target and target[0] == 'builtin':
            f = _SAFE_BUILTINS[target[1]]
            if any(isinstance(a, Unknown) for a in args):
                raise AnalysisError('minieval: builtin %s on unknown' % target[1])
            try:
                return f(*args, **kwargs)
            except Exception as ex:
                raise AnalysisError('minieval: %s raised %s' % (src_of(e), ex))
        if isinstance(target, tuple) and target and target[0] == 'bound':
            _, base, attr = target
            tname = type(base).__name__
            if (tname, attr) in _SAFE_METHODS:
                try:
                    return getattr(base, attr)(*args, **kwargs)
                except Exception as ex:
                    raise AnalysisError('minieval: %s raised %s' % (src_of(e), ex))
            raise AnalysisError('minieval: unsupported method %s.%s' % (tname, attr))
        if isinstance(target, tuple) and target and target[0] == 'lambda':
            _, lam, lenv, lscope = target
            env2 = dict(lenv)
            for a, v in zip(lam.args.args, args):
                env2[a.arg] = v
            return self.eval(lam.body, env2, lscope, depth + 1)
        raise AnalysisError('minieval: cannot call %s' % src_of(fn))

    def _is_builtin(self, scope, name):
        ent = self.p.resolve_name(scope, name)
        return ent is not None and ent.kind == 'builtin'
