"""CLI:  python -m emsa.run --property C01 --tier quick|thorough [--replay f]

exit 0  every rule instance of the property held (known findings are printed)
exit 1  at least one violation that known_findings.json does not list
exit 2  ANALYSIS-ERROR: the analysis could not decide (unrecognised idiom,
        vanished anchor, instance floor missed, internal error)
"""
import argparse
import json
import os
import sys
import time
import traceback

from .core import Project, AnalysisError, REPO
from .report import RuleResult, Finding, load_known, known_key, VERIF
from . import rules as rules_pkg
from . import props


def run_rule(project, name, cache):
    if name in cache:
        return cache[name]
    reg = rules_pkg.REGISTRY
    if name not in reg:
        raise AnalysisError('rule %s is not implemented' % name)
    fn, clause, text = reg[name]
    res = RuleResult(name, clause, text)
    t0 = time.time()
    try:
        fn(project, res)
        res.error = None
    except AnalysisError as e:
        if str(e).startswith('minieval:'):
            # a decision helper is no longer inside the subset the table evaluator reads (it was rewritten with a construct the
            # evaluator does not model): the obligations of this rule are not decided -- no alarm, no pass, no broken analysis
            res.undecided('rule %s' % name, 'a pure decision helper can no longer be tabulated (%s): the remaining obligations of this rule were not decided' % e)
            res.error = None
        else:
            res.error = str(e)
    except Exception as e:   # internal error of the checker: never a verdict
        res.error = 'internal error: %s: %s\n%s' % (type(e).__name__, e, traceback.format_exc(limit=6))
    res.wall = time.time() - t0
    cache[name] = res
    return res


def check_property(pid, tier, seed, project=None, cache=None, replay=None, quiet=False):
    t0 = time.time()
    out = []
    say = out.append
    spec = props.PROPERTIES.get(pid)
    if spec is None:
        print('ANALYSIS-ERROR property=%s unknown property' % pid)
        return 2
    try:
        project = project or Project()
    except AnalysisError as e:
        print('ANALYSIS-ERROR property=%s %s' % (pid, e))
        return 2
    cache = cache if cache is not None else {}
    entries = list(spec['rules'])
    if tier == 'thorough':
        entries += [r for r in spec.get('thorough_rules', []) if r not in entries]
    scopes = {}
    rule_names = []
    for e in entries:
        if isinstance(e, (tuple, list)):
            scopes[e[0]] = tuple(scopes.get(e[0], ())) + tuple(e[1])        # the same rule listed twice: union of the scopes
            rule_names.append(e[0])
        else:
            rule_names.append(e)
    results = [run_rule(project, r, cache) for r in rule_names]

    known = [k for k in load_known() if k.get('status') == 'known']
    known_by_key = {}
    for k in known:
        known_by_key.setdefault(known_key(k), []).append(k)
    matched_known = set()

    violations, knowns, errors = [], [], []
    seen_keys = set()
    out_of_scope = 0
    for res in results:
        if res.error:
            errors.append((res.rule, res.error))
        for f in res.findings:
            sc = scopes.get(res.rule)
            if sc is not None and not any(f.function == s_ or f.function.startswith(s_ + '.') for s_ in sc):
                out_of_scope += 1
                continue
            if f.key in seen_keys:
                continue
            seen_keys.add(f.key)
            recs = known_by_key.get(f.key)
            if recs:
                matched_known.add(f.key)
                knowns.append((f, recs[0]))
            else:
                violations.append(f)

    if replay:
        try:
            with open(replay) as fh:
                want = json.load(fh)
            wk = (want['rule'], want['module'], want['function'], want['construct'])
        except Exception as e:
            print('ANALYSIS-ERROR property=%s cannot read replay file: %s' % (pid, e))
            return 2
        hit = [f for f in violations + [k[0] for k in knowns] if f.key == wk]
        if hit:
            for f in hit:
                print(f.render())
            print('VIOLATION property=%s replay=%s' % (pid, replay))
            return 1
        print('replay: rule instance %s no longer reported on the current tree' % (wk,))
        return 0

    # ---- output
    for f, rec in knowns:
        say('KNOWN-FINDING: property=%s %s %s:%s %s' % (pid, f.rule, f.module, f.function,
                                                      rec.get('observed') or f.message))
    # stale known records that belong to rules run for this property
    ran = {r.rule for r in results if not r.error}
    stale = 0
    for k in known:
        if k['rule'] in ran and pid in k.get('properties', [k.get('property')]) and known_key(k) not in matched_known:
            stale += 1
            say('STALE-KNOWN-FINDING: property=%s %s %s:%s no longer matches any instance'
                % (pid, k['rule'], k['module'], k['function']))
    rdir = os.path.join(VERIF, 'replays', pid)
    no_ev = bool(os.environ.get('EMSA_NO_EVIDENCE'))
    for f in violations:
        rp = os.path.join(rdir, f.key_id() + '.json')
        if not no_ev:
            os.makedirs(rdir, exist_ok=True)
            with open(rp, 'w') as fh:
                json.dump({'property': pid, **f.to_json()}, fh, indent=1)
        say(f.render())
        say('VIOLATION property=%s replay=%s' % (pid, rp))
    for rname, err in errors:
        say('ANALYSIS-ERROR property=%s rule=%s %s' % (pid, rname, err))
    n_undecided = 0
    for r in results:
        for what, why in r.undecideds:
            n_undecided += 1
            say('UNDECIDED property=%s rule=%s `%s`: shape not recognised, obligation not decided (%s)' % (pid, r.rule, what[:90], why[:110]))

    # ---- evidence
    obligations = sum(r.instances for r in results)
    n_find = len(violations) + len(knowns)
    samples = []
    for r in results:
        for s in r.samples[:2]:
            samples.append({'rule': r.rule, 'instance': s})
    assumptions = list(spec.get('assumptions', []))
    for r in results:
        for a in r.assumptions:
            if a not in assumptions:
                assumptions.append(a)
    files = sorted(project.consulted)
    cov = {
        'explanation': spec['explanation'],
        'technique': 'static analysis of the source tree (ast): ' + spec.get('technique', ''),
        'obligations': obligations,
        'discharged': obligations - n_find - sum(len(r.undecideds) for r in results),
        'undecided': [{'rule': r.rule, 'obligation': w, 'expected': y} for r in results for w, y in r.undecideds],
        'evaluations': max(obligations, 1),
        'distinct_nontrivial': max(len({(r.rule, str(s)) for r in results for s in r.samples}), 0),
        'rule': 'one obligation per rule instance (call site, store, table entry, path, loop ...) found in the '
                'current source; distinct_nontrivial counts the distinct sample instances written out below',
        'samples': samples[:40],
        'rules': [{
            'rule': r.rule, 'clause': r.clause, 'statement': r.text, 'instances': r.instances,
            'findings': len(r.findings), 'undecided': len(r.undecideds), 'floor': r.floor, 'error': r.error,
            'stats': r.stats, 'notes': r.notes, 'wall_s': round(r.wall, 3)} for r in results],
        'not_decided': spec.get('not_decided', []),
        'modules_consulted': files,
        'module_sha256': {m: project.modules[m].sha256[:16] for m in files},
        'repo': project.root,
        'known_findings_matched': [{'rule': f.rule, 'function': f.function, 'construct': f.construct} for f, _ in knowns],
        'stale_known_findings': stale,
        'rule_scopes': {k: list(v) for k, v in scopes.items()},
        'findings_outside_this_property_scope': out_of_scope,
        'new_violations': [f.to_json() for f in violations],
        'analysis_errors': [{'rule': r, 'error': e} for r, e in errors],
        'exhaustive': False,
    }
    ev = {
        'property_id': pid, 'tier': tier, 'seed': seed, 'level': 'other', 'coverage': cov,
        'assumptions': assumptions, 'wall_s': round(time.time() - t0, 3), 'violations': len(violations),
    }
    if not no_ev:
        os.makedirs(os.path.join(VERIF, 'evidence'), exist_ok=True)
        with open(os.path.join(VERIF, 'evidence', pid + '.json'), 'w') as fh:
            json.dump(ev, fh, indent=1, default=str)

    if not quiet:
        for line in out:
            print(line)
        print('%s %s: %d rules, %d obligations, %d discharged, %d known, %d new, %d analysis errors (%.2fs)'
              % (pid, tier, len(results), obligations, obligations - n_find, len(knowns), len(violations),
                 len(errors), time.time() - t0))
    if violations:
        return 1
    if errors:
        return 2
    return 0


def main(argv=None):
    ap = argparse.ArgumentParser()
    ap.add_argument('--property', '-p', action='append')
    ap.add_argument('--all', action='store_true')
    ap.add_argument('--tier', default=os.environ.get('VERIF_TIER', 'quick'), choices=['quick', 'thorough'])
    ap.add_argument('--replay')
    ap.add_argument('--repo')
    a = ap.parse_args(argv)
    seed = int(os.environ.get('VERIF_SEED', '0') or 0)
    try:
        rules_pkg.load_all()
        project = Project(a.repo) if a.repo else Project()
    except AnalysisError as e:
        print('ANALYSIS-ERROR %s' % e)
        return 2
    except Exception as e:
        print('ANALYSIS-ERROR internal: %s: %s' % (type(e).__name__, e))
        traceback.print_exc()
        return 2
    pids = sorted(props.PROPERTIES) if a.all else (a.property or [])
    if not pids:
        ap.error('give --property or --all')
    cache = {}
    worst = 0
    for pid in pids:
        try:
            rc = check_property(pid, a.tier, seed, project, cache, a.replay)
        except Exception as e:
            print('ANALYSIS-ERROR property=%s internal: %s: %s' % (pid, type(e).__name__, e))
            traceback.print_exc()
            rc = 2
        if a.tier == 'thorough' and rc != 1:
            from . import selftest
            rc2 = selftest.run_for_property(pid, seed)
            rc = max(rc, rc2) if rc2 else rc
        worst = 1 if (rc == 1 or worst == 1) else max(worst, rc)
    return worst


if __name__ == '__main__':
    sys.exit(main())
