"""Property -> rule sets.  Only rules that exist are listed; `not_decided` is
the honest remainder of each property (runtime-value clauses)."""

PROPERTIES = {}


def prop(pid, rules, explanation, not_decided, technique, thorough_rules=(), assumptions=()):
    PROPERTIES[pid] = {
        'rules': list(rules), 'thorough_rules': list(thorough_rules), 'explanation': explanation,
        'not_decided': list(not_decided), 'technique': technique, 'assumptions': list(assumptions),
    }


TOK_MODS = ['abbreviation.tokenizer', 'css_abbreviation.tokenizer']
EXPAND_MODS = ['abbreviation', 'css_abbreviation', 'markup', 'stylesheet', 'scanner_utils']
MATCH_MODS = ['html_matcher', 'css_matcher', 'scanner_utils']

COMMON_ASSUMPTIONS = [
    'the package is plain first-order Python: no eval/exec/setattr/monkeypatching of emmet.* (census checked by rule CENSUS)',
    'user supplied callables (output.field, output.text) do not reach back into library state',
]


prop('C01',
     rules=[('API-ARGSWAP', ['abbreviation', 'markup', 'config']), ('API-ONESHOT', ['abbreviation', 'markup', 'config']), ('RNG-NEGSLICE', ['abbreviation', 'markup', 'config']), ('SIB-PREDSWAP', ['abbreviation', 'markup', 'config']), ('OWN-GLOBAL', ['abbreviation', 'markup', 'config']), ('TBL-ATTRS', ['markup.implicit_tag']), 'TAB-IMPLICIT', ('TBL-CONVERT', ['abbreviation']), 'TAB-OPS', 'TAB-KEYS-OPT', 'TAB-FORMATTERS', 'CENSUS', 'SIB-CARET', 'PATH-EMIT-HTML', ('PATH-STACK', ['markup']), 'PATH-PARSER-CTX', 'PATH-ONCE', ('PATH-INITORDER', ['abbreviation', 'markup'])],
     explanation='Decides, for every path of the code, the structural clauses of the tree property: operator characters and kinds '
                 'agree between tokenizer, parser and printer (D), implicit names come from the documented table with the span/div '
                 'fallback (D). The compositional claim "exactly the denoted tree" is a runtime-value clause and is not decided.',
     not_decided=['the composed pipeline yields exactly the denoted tree for every operator skeleton (value-level)'],
     technique='table agreement over constants read from the syntax tree; decision-table extraction of pure helpers')

prop('C02',
     rules=[('API-ARGSWAP', ['abbreviation', 'markup']), ('API-ONESHOT', ['abbreviation', 'markup']), ('RNG-NEGSLICE', ['abbreviation', 'markup']), ('SIB-PREDSWAP', ['abbreviation', 'markup']), ('OWN-GLOBAL', ['abbreviation', 'markup']), 'OWN-TOKTREE', ('TBL-CONVERT', ['abbreviation']), 'NUM-LINEAR', ('NUM-LEFTPAD', ['abbreviation']), 'TAB-KEYS-PARSE', ('EXC-NUMCONV', ['abbreviation.tokenizer']), ('PATH-STACK', ['abbreviation']), 'PATH-ONCE', 'PIN-WRAPTEXT'],
     explanation='Counter formulas are decided symbolically: forward base+i, reverse base+count-i-1 as linear normal forms, innermost '
                 'repeater, clamped parent index, left zero padding without truncation (D); maxRepeat reaches the converter under the key it reads (D).',
     not_decided=['exactly N copies under a global maxRepeat budget for nested repeaters (value-level)', 'tokenization of every $/@ form'],
     technique='linear normal forms of integer expressions; reader/writer key agreement')

prop('C03',
     rules=[('API-ARGSWAP', ['abbreviation', 'markup', 'config', 'output_stream']), ('API-ONESHOT', ['abbreviation', 'markup', 'config', 'output_stream']), ('RNG-NEGSLICE', ['abbreviation', 'markup', 'config', 'output_stream']), ('SIB-PREDSWAP', ['abbreviation', 'markup', 'config', 'output_stream']), ('OWN-GLOBAL', ['abbreviation', 'markup', 'config']), ('TBL-CONFIG', ['config']), 'ORD-MERGE', 'TBL-ATTRS', ('TBL-OUTPUT', ['output_stream', 'markup.format.utils']), 'OWN-TOKTREE', 'TBL-CONVERT', ('TAB-MEMBER', ['markup', 'abbreviation']), 'OWN-CACHEUSE', ('COV-MERGE', ['markup.snippets']), 'TAB-OPS', 'TAB-BRK', 'TAB-QUOTE', 'TAB-KEYS-OPT', 'DEC-BOOL', 'DEC-MERGEDECL', 'DEC-MULTIVALUE', 'SIB-CARET', 'SIB-QUOTE', 'OWN-ASTLIST', 'PATH-EMIT-ATTR', ('PATH-INITORDER', ['abbreviation', 'markup'])],
     explanation='Shorthand/bracket/quote characters agree with token kinds and with what is printed back inside values (D); option names '
                 'exist (D); boolean / implied / quote / case decisions are extracted as complete decision tables (N).',
     not_decided=['merge results for arbitrary orders and duplicates, reverse mode, name mapping (value-level)'],
     technique='table agreement; decision-table extraction over the complete finite domain of the decision variables')

prop('C04',
     rules=[('API-ARGSWAP', ['abbreviation', 'markup', 'output_stream', 'scanner_utils']), ('API-ONESHOT', ['abbreviation', 'markup', 'output_stream', 'scanner_utils']), ('RNG-NEGSLICE', ['abbreviation', 'markup', 'output_stream', 'scanner_utils']), ('SIB-PREDSWAP', ['abbreviation', 'markup', 'output_stream', 'scanner_utils']), ('OWN-GLOBAL', ['abbreviation', 'markup']), ('TBL-CONVERT', ['abbreviation']), 'TBL-LINES', ('EXC-NEXT', ['abbreviation']), 'EXC-VISITOR', 'TAB-OPS', 'TAB-BRK', 'TAB-QUOTE', ('EXC-FMT', ['abbreviation']), ('CNT-DEPTH', ['abbreviation']), 'API-SPLITLINES', 'SIB-SPLITLINES', 'SIB-QUOTE', 'PATH-EMIT-HTML', 'PATH-EMIT-INDENT', 'EXC-RET-STR', 'DEC-TOKCTX', 'PIN-WRAPTEXT', ('SIB-ESCAPE', ['abbreviation']), ('SCN-ESCAPE', ['abbreviation', 'scanner_utils']), ('DEC-CHARCLASS', ['abbreviation', 'scanner_utils'])],
     explanation='Every structural character that can occur inside text has a printer that gives the same character back (D at table level).',
     not_decided=['escape handling, nested brace extraction, placement of wrap text at the deepest node (value-level)',
                  'str.splitlines() also splits on VT/FF/FS/GS/RS/NEL/LS/PS (recorded as known finding by rule API-SPLITLINES when built)'],
     technique='visitor exhaustiveness and table agreement')

prop('C05',
     rules=[('API-ARGSWAP', ['stylesheet', 'css_abbreviation', 'config']), ('API-ONESHOT', ['stylesheet', 'css_abbreviation', 'config']), ('RNG-NEGSLICE', ['stylesheet', 'css_abbreviation', 'config']), ('SIB-PREDSWAP', ['stylesheet', 'css_abbreviation', 'config']), ('TBL-CONFIG', ['config']), 'ORD-MERGE', 'TBL-CSSABBR', ('TBL-CONFIG', ['stylesheet.resolve_gradient', 'stylesheet.wrap_with_field', 'stylesheet.has_field']), ('TBL-NUMBER', ['css_abbreviation']), 'TBL-CSSVALUE', ('NUM-LEFTPAD', ['stylesheet', 'css_abbreviation']), 'NUM-SHORTHEX', 'NUM-FRAC', 'DEC-UNIT', 'TAB-UNITS', 'TAB-CSSOPS', 'TAB-KEYS-OPT', ('EXC-NUMCONV', ['css_abbreviation', 'stylesheet']), ('EXC-FMT', ['stylesheet']), ('CNT-DEPTH', ['css_abbreviation']), ('DEC-CHARCLASS', ['css_abbreviation', 'scanner_utils']), ('OWN-GLOBAL', ['stylesheet'])],
     explanation='Hex printing (left padding, short form only when r, g and b allow it, r-g-b order) is decided over all 256 channel values (D); '
                 'the unit decision is extracted as a complete table (N); alias/unit/separator tables are the documented ones (D).',
     not_decided=['tokenisation of number/unit/dash/colour sequences', 'frac() rounding beyond the conversion type'],
     technique='exhaustive table extraction of pure helpers; constant tables')

prop('C06',
     rules=[('API-ARGSWAP', ['stylesheet', 'css_abbreviation', 'config', 'snippets']), ('API-ONESHOT', ['stylesheet', 'css_abbreviation', 'config', 'snippets']), ('RNG-NEGSLICE', ['stylesheet', 'css_abbreviation', 'config', 'snippets']), ('SIB-PREDSWAP', ['stylesheet', 'css_abbreviation', 'config', 'snippets']), ('OWN-GLOBAL', ['stylesheet', 'css_abbreviation', 'config', 'snippets']), 'TBL-CSSABBR', ('TBL-CONFIG', ['stylesheet', 'config']), ('OWN-GLOBAL', ['stylesheet']), ('EXC-INDEX', ['stylesheet']), 'TBL-CSSMATCH', 'DEC-DIRECTHIT', 'TAB-SNIPKEYS', 'DEC-SCOPE', 'EXC-JOIN', 'TAB-KEYS-OPT', 'ORD-MERGE'],
     explanation='Necessary conditions for "a key selects its own snippet": equal case-folded strings score exactly 1 before any other exit and '
                 'a score of 1 is returned immediately; no key occurs twice (also ignoring case) after | expansion (exhaustive over all 479 keys); '
                 'scope filtering is a complete decision table and is applied on every call; default-value wrapping cannot raise on numbers.',
     not_decided=['fuzzy (non-exact) ranking; that no unequal string scores exactly 1 is an arithmetic fact not decided here'],
     technique='structural dominance of the direct-hit exits; exhaustive key table check')

prop('C07',
     rules=['EXC-ARGKIND', ('API-ARGSWAP', ['abbreviation', 'css_abbreviation', 'markup', 'stylesheet', 'scanner', 'scanner_utils', 'token_scanner', 'output_stream', 'config', 'expand']), ('API-ONESHOT', ['abbreviation', 'css_abbreviation', 'markup', 'stylesheet', 'scanner', 'scanner_utils', 'token_scanner', 'output_stream', 'config', 'expand']), ('RNG-NEGSLICE', ['abbreviation', 'css_abbreviation', 'markup', 'stylesheet', 'scanner', 'scanner_utils', 'token_scanner', 'output_stream', 'config', 'expand']), ('SIB-PREDSWAP', ['abbreviation', 'css_abbreviation', 'markup', 'stylesheet', 'scanner', 'scanner_utils', 'token_scanner', 'output_stream', 'config', 'expand']), 'TBL-CSSABBR', ('TBL-ATTRS', ['markup.implicit_tag']), ('TBL-CONFIG', ['stylesheet']), ('TBL-CONVERT', ['abbreviation']), ('TBL-NUMBER', ['css_abbreviation']), 'TAB-MEMBER', 'EXC-NEXT', ('PIN-WRAPTEXT', ['abbreviation.convert']), 'EXC-RAISE/expand', 'EXC-VISITOR', 'EXC-FMT', 'EXC-JOIN', 'EXC-NUMCONV', 'EXC-KEY', 'TAB-VOCAB', 'TAB-KEYS-PROFILE', 'CENSUS',
            'SCN-CORE', ('SCN-PROGRESS', EXPAND_MODS), ('SCN-OVER', EXPAND_MODS), 'EXC-RANDINT', 'NUM-LINEAR',
            ('EXC-INDEX', ['abbreviation', 'markup', 'stylesheet', 'css_abbreviation', 'scanner', 'scanner_utils', 'token_scanner', 'config', 'output_stream', 'list_utils', 'expand', 'snippets']), 'EXC-RET-STR'],
     explanation='Explicit raises reachable from expand are one of the two parse errors (D, call graph). Implicit internal errors are decided by '
                 'family: missing visitor, %-format arity, join of non-strings, int()/float() of unproven text, constant-key subscripts on caller dicts.',
     not_decided=['implicit exception classes outside the listed families (AttributeError/TypeError from values the light type inference cannot see)'],
     technique='call-graph reachability of raise sites; per-family exception lints with reviewed tables')

prop('C08',
     rules=[('API-ARGSWAP', ['abbreviation', 'css_abbreviation', 'markup', 'stylesheet', 'config', 'expand', 'output_stream']), ('API-ONESHOT', ['abbreviation', 'css_abbreviation', 'markup', 'stylesheet', 'config', 'expand', 'output_stream']), ('RNG-NEGSLICE', ['abbreviation', 'css_abbreviation', 'markup', 'stylesheet', 'config', 'expand', 'output_stream']), ('SIB-PREDSWAP', ['abbreviation', 'css_abbreviation', 'markup', 'stylesheet', 'config', 'expand', 'output_stream']), ('TBL-CONFIG', ['config', 'stylesheet.parse']), 'OWN-TOKTREE', 'OWN-GLOBAL', 'OWN-DEFAULT', 'OWN-CALLER', 'OWN-RESTORE', 'OWN-CACHE', 'OWN-CACHEUSE', 'OWN-AMBIENT', 'OWN-ASTLIST', 'DEC-SCOPE', 'ORD-MERGE'],
     explanation='Decides purity for the state the library itself keeps or touches, on every path and call chain: no module-level object is mutated and '
                 'no module-level name assigned (D), no mutable default argument is mutated (D), nothing reachable from the caller\'s config / Config / '
                 'global config / options is mutated except the cache slot and the verified temporary override of `text`, which is restored in a finally '
                 'block (D), nothing that lives in the snippet cache is mutated after it was built (D), ambient state (random, time, id, hash) is used only by '
                 'the lorem generator (D). Effect summaries are computed to a fixpoint over the resolved call graph with a field-based heap.',
     not_decided=['two different snippet tables sharing one cache dict see the first table (cache keyed by a constant; upstream contract is one cache per config)'],
     technique='interprocedural effect/ownership analysis (access paths, alias heap, summaries to fixpoint)',
     assumptions=['user supplied callables (output.field, output.text) do not reach back into library state',
                  'strings and numbers are immutable; only container/object mutation is tracked'])

prop('C09',
     rules=['EXC-ARGKIND', ('API-ARGSWAP', ['html_matcher', 'scanner_utils', 'scanner']), ('API-ONESHOT', ['html_matcher', 'scanner_utils', 'scanner']), ('RNG-NEGSLICE', ['html_matcher', 'scanner_utils', 'scanner']), ('SIB-PREDSWAP', ['html_matcher', 'scanner_utils', 'scanner']), ('OWN-GLOBAL', ['html_matcher', 'scanner_utils']), 'RNG-STRICT/html', 'TAB-VOID', 'EXC-THROWS', 'EXC-RAISE/matcher', ('RNG-STOP', ['html_matcher']), ('RNG-FRAME', ['html_matcher']), ('SCN-REST', ['html_matcher', 'scanner_utils']), ('SCN-OVER', ['html_matcher', 'scanner_utils']), ('SCN-PROGRESS', ['html_matcher', 'scanner_utils']),
            ('SCN-SKIP', ['html_matcher', 'scanner_utils']), ('SCN-BLIND', ['html_matcher', 'scanner_utils']), 'SIB-VOID', ('SIB-QUOTE', ['scanner_utils']), ('PATH-FLAG', ['html_matcher']), ('CNT-DEPTH', ['scanner_utils']),
            'SIB-HTMLSTACK', ('SIB-ESCAPE', ['scanner_utils']), ('SCN-ESCAPE', ['scanner_utils', 'html_matcher']), ('PIN-EXTRACT', ['html_matcher']), 'TBL-HTMLSCAN', ('DEC-CHARCLASS', ['html_matcher', 'scanner_utils'])],
     explanation='match and balanced_outward use one strict containment predicate with the same bounds (N); the void list is the HTML void set and '
                 'void handling depends on xml mode as documented (D); scanner helpers are never asked to throw (D).',
     not_decided=['"innermost" and exactness of ranges for arbitrary documents (value-level)'],
     technique='comparison-shape analysis; table agreement')

prop('C10',
     rules=['EXC-ARGKIND', ('API-ARGSWAP', ['css_matcher', 'scanner_utils', 'scanner']), ('API-ONESHOT', ['css_matcher', 'scanner_utils', 'scanner']), ('RNG-NEGSLICE', ['css_matcher', 'scanner_utils', 'scanner']), ('SIB-PREDSWAP', ['css_matcher', 'scanner_utils', 'scanner']), ('OWN-GLOBAL', ['css_matcher', 'scanner_utils']), 'RNG-STRICT/css', ('RNG-SENT', ['css_matcher']), 'RNG-PAREN', ('RNG-STOP', ['css_matcher']), 'RNG-SCANSTATE', ('SCN-REST', ['css_matcher']), ('SCN-OVER', ['css_matcher']), ('SCN-PROGRESS', ['css_matcher']),
            ('SCN-SKIP', ['css_matcher']), ('SCN-BLIND', ['css_matcher']), ('SIB-QUOTE', ['css_matcher']), 'RNG-TRIM', ('RNG-ORDER', ['css_matcher']), ('DEC-CHARCLASS', ['css_matcher', 'scanner_utils']), ('CNT-DEPTH', ['css_matcher']), ('SIB-ESCAPE', ['css_matcher']), ('SCN-ESCAPE', ['css_matcher', 'scanner_utils']), 'TBL-CSSSCAN'],
     explanation='Strict containment (N); arithmetic on a delimiter that may be the -1 sentinel is guarded wherever it can reach a result (N); '
                 'delimiters inside parentheses (N, known finding).',
     not_decided=['correctness of the selector/property state machine on arbitrary nesting'],
     technique='sentinel-flow analysis through callbacks; guard dominance')

prop('C11',
     rules=[('API-ARGSWAP', ['extract_abbreviation', 'scanner_utils']), ('API-ONESHOT', ['extract_abbreviation', 'scanner_utils']), ('RNG-NEGSLICE', ['extract_abbreviation', 'scanner_utils']), ('SIB-PREDSWAP', ['extract_abbreviation', 'scanner_utils']), ('OWN-GLOBAL', ['extract_abbreviation']), ('RNG-CLAMP', ['extract_abbreviation']), 'TAB-BRACEPAIRS', 'RNG-LOOKAHEAD', ('PIN-EXTRACT', ['extract_abbreviation']), ('DEC-CHARCLASS', ['extract_abbreviation', 'scanner_utils']), ('SCN-OVER', ['extract_abbreviation']), ('SCN-PROGRESS', ['extract_abbreviation']), ('SCN-REST', ['extract_abbreviation']), ('SIB-QUOTE', ['extract_abbreviation'])],
     explanation='The caret position is clamped before it becomes a cursor (D); bracket pairing tables agree with the predicates that guard them (D).',
     not_decided=['the round-trip clause (backward heuristic, is_html) is value-level'],
     technique='clamp dominance; table agreement')

prop('C12',
     rules=[('API-ARGSWAP', ['markup', 'output_stream', 'config']), ('API-ONESHOT', ['markup', 'output_stream', 'config']), ('RNG-NEGSLICE', ['markup', 'output_stream', 'config']), ('SIB-PREDSWAP', ['markup', 'output_stream', 'config']), ('OWN-GLOBAL', ['config', 'markup']), ('TBL-CONFIG', ['config']), 'ORD-MERGE', ('TBL-OUTPUT', ['output_stream', 'markup.format.comment', 'markup.format.utils']), 'TBL-LINES', ('OWN-GLOBAL', ['markup.format', 'output_stream']), 'TAB-SELFCLOSE', 'ACC-WRITER', 'TAB-KEYS-OPT', 'OWN-RAWPUSH', 'SIB-SPLITLINES', 'PATH-LEVEL', 'PATH-EMIT-HTML', 'OWN-FMT-RO', 'OWN-ASTLIST',
            'INF-FORMAT', 'INF-LEVEL', 'INF-COMMENT', 'INF-SELFCLOSE'],
     explanation='Self-closing style decides only the characters before > (D); newline/indent emission is newline + baseIndent + level*indent (D).',
     not_decided=['should_format\'s choice of where to break'],
     technique='decision tables; who-may-write')

prop('C13',
     rules=[('API-ARGSWAP', ['output_stream', 'markup.format', 'stylesheet.format']), ('API-ONESHOT', ['output_stream', 'markup.format', 'stylesheet.format']), ('RNG-NEGSLICE', ['output_stream', 'markup.format', 'stylesheet.format']), ('SIB-PREDSWAP', ['output_stream', 'markup.format', 'stylesheet.format']), ('OWN-GLOBAL', ['output_stream', 'markup.format', 'stylesheet.format']), 'TBL-OUTPUT', ('TBL-CONFIG', ['stylesheet.wrap_with_field']), 'TBL-LINES', ('INF-FORMAT', ['stylesheet.format']), 'ACC-WRITER', 'ACC-CALLBACK', 'NUM-FIELDIDX', 'SIB-CARET', 'OWN-RAWPUSH'],
     explanation='offset/line/column are written only by OutputStream in step with the appended text, callbacks get the current position and their '
                 'result is appended unmodified (D); tabstop numbers are state.field + relative index and advance by the largest index + 1 (D).',
     not_decided=['document-order numbering across a whole tree (value-level)'],
     technique='who-may-write census; linear forms; call-shape of the callback sites',
     assumptions=['strings handed to raw push() contain no newline'])

prop('C14',
     rules=[('API-ARGSWAP', ['markup', 'snippets', 'config', 'abbreviation']), ('API-ONESHOT', ['markup', 'snippets', 'config', 'abbreviation']), ('RNG-NEGSLICE', ['markup', 'snippets', 'config', 'abbreviation']), ('SIB-PREDSWAP', ['markup', 'snippets', 'config', 'abbreviation']), ('OWN-GLOBAL', ['markup', 'config', 'snippets', 'abbreviation']), 'ORD-MERGE', ('TBL-CONFIG', ['config']), ('TBL-ATTRS', ['markup.attributes']), 'COV-MERGE', 'TAB-SNIPKEYS', ('PATH-STACK', ['markup.snippets', 'markup.utils']), 'OWN-CACHEUSE'],
     explanation='All data written on an alias (attributes, text, repeater, self-closing mark) is transferred to every top-level node of the definition and '
                 'children go to the last-child chain (N); multi-key tables do not shadow each other (D).',
     not_decided=['"expands exactly like its definition" (value-level)'],
     technique='field coverage; splice shape')

prop('C15',
     rules=[('API-ARGSWAP', ['markup', 'output_stream']), ('API-ONESHOT', ['markup', 'output_stream']), ('RNG-NEGSLICE', ['markup', 'output_stream']), ('SIB-PREDSWAP', ['markup', 'output_stream']), ('OWN-GLOBAL', ['markup', 'output_stream', 'config']), ('TBL-CONFIG', ['config']), 'ORD-MERGE', ('TBL-OUTPUT', ['output_stream', 'markup.format.utils']), 'TBL-LINES', 'INF-FMTREADERS', ('TAB-MEMBER', ['markup.format']), 'TBL-INDENT', 'TAB-KEYS-PROFILE', 'TAB-FORMATTERS', 'SIB-CARET', 'SIB-SPLITLINES', 'OWN-RAWPUSH', 'PATH-LEVEL', 'PATH-EMIT-INDENT', 'INF-LEVEL', 'PATH-EMIT-ATTR'],
     explanation='Profile keys read by subscript exist in all three profiles and carry the documented punctuation (D); each syntax reaches its formatter (D).',
     not_decided=['tree equality with the HTML output; layout of multi-line text'],
     technique='reader/writer key agreement')

prop('C16',
     rules=['EXC-ARGKIND', ('API-ARGSWAP', ['html_matcher', 'css_matcher', 'scanner_utils', 'scanner']), ('API-ONESHOT', ['html_matcher', 'css_matcher', 'scanner_utils', 'scanner']), ('RNG-NEGSLICE', ['html_matcher', 'css_matcher', 'scanner_utils', 'scanner']), ('SIB-PREDSWAP', ['html_matcher', 'css_matcher', 'scanner_utils', 'scanner']), ('OWN-GLOBAL', ['html_matcher', 'css_matcher', 'scanner_utils']), ('SIB-QUOTE', ['css_matcher', 'html_matcher', 'scanner_utils']), 'SCN-CORE', ('SCN-OVER', MATCH_MODS), ('SCN-PROGRESS', MATCH_MODS), ('SCN-REST', MATCH_MODS), ('SCN-SKIP', MATCH_MODS), ('SCN-BLIND', MATCH_MODS), 'SIB-VOID', 'RNG-TRIM', 'RNG-ORDER', ('DEC-CHARCLASS', ['html_matcher', 'css_matcher', 'scanner_utils']),
            ('PATH-FLAG', MATCH_MODS), ('CNT-DEPTH', MATCH_MODS), ('RNG-STOP', MATCH_MODS), 'RNG-SCANSTATE', ('RNG-FRAME', ['html_matcher']), 'SIB-HTMLSTACK', 'SIB-ESCAPE', 'SCN-ESCAPE', 'RNG-SENT', 'RNG-STRICT/html', 'RNG-STRICT/css', 'EXC-RAISE/matcher', 'EXC-THROWS', 'TBL-HTMLSCAN', 'TBL-CSSSCAN'],
     explanation='No explicit raise is reachable from the matchers (D); sentinel arithmetic guarded (N); strict containment (N).',
     not_decided=['relational clauses between match / balanced_outward / balanced_inward beyond predicate agreement'],
     technique='call-graph reachability; sentinel-flow analysis')

prop('C17',
     rules=[('API-ARGSWAP', ['action_utils', 'html_matcher', 'css_matcher', 'scanner_utils']), ('API-ONESHOT', ['action_utils', 'html_matcher', 'css_matcher', 'scanner_utils']), ('RNG-NEGSLICE', ['action_utils', 'html_matcher', 'css_matcher', 'scanner_utils']), ('SIB-PREDSWAP', ['action_utils', 'html_matcher', 'css_matcher', 'scanner_utils']), ('SIB-QUOTE', ['css_matcher', 'html_matcher', 'scanner_utils']), ('OWN-AMBIENT', ['action_utils', 'html_matcher', 'css_matcher']), ('OWN-GLOBAL', ['action_utils', 'html_matcher', 'css_matcher']), ('RNG-SENT', ['action_utils']), 'RNG-STRICT/actions', 'EXC-RAISE/matcher', ('SCN-OVER', ['action_utils', 'css_matcher.parse', 'html_matcher.attributes']), ('SCN-PROGRESS', ['action_utils', 'css_matcher.parse', 'html_matcher.attributes']),
            ('CNT-DEPTH', ['css_matcher.parse', 'action_utils']), 'RNG-TRIM', ('RNG-STOP', ['action_utils']), 'RNG-FRAME', ('DEC-CHARCLASS', ['html_matcher', 'css_matcher', 'scanner_utils']), ('SIB-HTMLSTACK', ['action_utils']), ('PIN-EXTRACT', ['action_utils']), 'TBL-ACTIONS', ('TBL-HTMLSCAN', ['html_matcher.attributes']), ('TBL-CSSSCAN', ['css_matcher.parse'])],
     explanation='The after offset of a declaration without ; and the open-tag containment test (N).',
     not_decided=['next/previous item selection logic'],
     technique='sentinel-flow analysis')

prop('C18',
     rules=['EXC-ARGKIND', ('API-ARGSWAP', ['abbreviation.tokenizer', 'css_abbreviation.tokenizer', 'scanner', 'scanner_utils']), ('API-ONESHOT', ['abbreviation.tokenizer', 'css_abbreviation.tokenizer', 'scanner', 'scanner_utils']), ('RNG-NEGSLICE', ['abbreviation.tokenizer', 'css_abbreviation.tokenizer', 'scanner', 'scanner_utils']), ('SIB-PREDSWAP', ['abbreviation.tokenizer', 'css_abbreviation.tokenizer', 'scanner', 'scanner_utils']), ('OWN-GLOBAL', ['abbreviation.tokenizer', 'css_abbreviation.tokenizer', 'scanner', 'scanner_utils']), 'TBL-CSSABBR', ('TBL-NUMBER', ['css_abbreviation']), 'SCN-CORE', ('SCN-SPAN', TOK_MODS), ('SCN-REST', TOK_MODS), ('SCN-OVER', TOK_MODS), ('SCN-PROGRESS', TOK_MODS),
            ('EXC-NUMCONV', TOK_MODS), ('EXC-RAISE/expand', TOK_MODS + ['scanner']), ('CNT-DEPTH', TOK_MODS), ('SCN-SKIP', TOK_MODS), ('SCN-BLIND', TOK_MODS), ('SIB-QUOTE', TOK_MODS), ('DEC-CHARCLASS', TOK_MODS + ['scanner_utils'])],
     explanation='(partial, SCN-* cursor discipline rules being built) digit runs are converted only after a successful run with start set.',
     not_decided=['span tiling until SCN-* exists'],
     technique='cursor discipline dataflow')

prop('C19',
     rules=[('API-ARGSWAP', ['math_expression', 'scanner_utils']), ('API-ONESHOT', ['math_expression', 'scanner_utils']), ('RNG-NEGSLICE', ['math_expression', 'scanner_utils']), ('SIB-PREDSWAP', ['math_expression', 'scanner_utils']), ('TBL-NUMBER', ['math_expression']), 'EXC-RAISE/math', 'DEC-PRIO', 'TAB-MATHOPS', ('RNG-CLAMP', ['math_expression']), ('EXC-NUMCONV', ['math_expression']),
            ('SCN-OVER', ['math_expression']), ('SCN-PROGRESS', ['math_expression']), ('SCN-REST', ['math_expression']),
            'RNG-BALANCED', ('RNG-ORDER', ['math_expression']), ('CNT-DEPTH', ['math_expression']), ('DEC-CHARCLASS', ['math_expression', 'scanner_utils']), ('OWN-GLOBAL', ['math_expression']), ('EXC-INDEX', ['math_expression'])],
     explanation='Only MathExpressionException is raised explicitly (D); the precedence table satisfies the documented orderings and a prefix sign never '
                 'reduces a pending operator (N, finite table); every accepted operator has an evaluator with the right operand order (D); extract clamps its position (D).',
     not_decided=['arithmetic values'],
     technique='finite priority table extraction; call-graph raise reachability')

prop('C20',
     rules=[('API-ARGSWAP', ['config', 'stylesheet', 'snippets', 'expand']), ('API-ONESHOT', ['config', 'stylesheet', 'snippets', 'expand']), ('RNG-NEGSLICE', ['config', 'stylesheet', 'snippets', 'expand']), ('SIB-PREDSWAP', ['config', 'stylesheet', 'snippets', 'expand']), ('TBL-CONFIG', ['config', 'stylesheet.parse', 'stylesheet.get_snippets_for_scope', 'stylesheet.convert_snippets']), ('OWN-GLOBAL', ['stylesheet', 'config', 'snippets']), ('TAB-SNIPKEYS', ['snippets']), 'ORD-MERGE', 'TAB-KEYS-OPT', 'TAB-UNITS', 'TAB-SELFCLOSE', ('OWN-CALLER', ['config', 'expand']), ('OWN-GLOBAL', ['config', 'snippets', 'expand']), ('OWN-DEFAULT', ['config', 'expand'])],
     explanation='The six layers are applied to a fresh dict in exactly the documented order, each looked up with a default or behind a membership guard, '
                 'no layer table or caller dict is written, Config passes (type, syntax, section, user, global) in that order and expand forwards the global config (D).',
     not_decided=[],
     technique='def-use provenance of update() sources; who-may-write')
NOT_APPLICABLE = {}
