"""Normal forms that make structural rules insensitive to behaviour-preserving
edits: helper inlining, guard-clause form, truthiness of len(), dict(...)
displays, conditional-expression assignments.  All transformations preserve
behaviour for the code they are applied to (they only re-associate control
flow the way a reader would)."""
import ast
import copy

from .core import src_of, Func, Class

_JUMPS = (ast.Return, ast.Break, ast.Continue, ast.Raise)


def ends_with_jump(body):
    return bool(body) and isinstance(body[-1], _JUMPS)


class _Tests(ast.NodeTransformer):
    """len(x) / len(x) > 0 / len(x) != 0 in boolean position -> x ;  not len(x) / len(x) == 0 -> not x"""

    def _simplify_bool(self, e):
        if isinstance(e, ast.Call) and isinstance(e.func, ast.Name) and e.func.id in ('len', 'bool') and len(e.args) == 1 and not e.keywords:
            return self._simplify_bool(e.args[0]) if e.func.id == 'bool' else e.args[0]
        if isinstance(e, ast.Compare) and len(e.ops) == 1 and isinstance(e.comparators[0], ast.Constant) and e.comparators[0].value == 0 \
                and isinstance(e.left, ast.Call) and isinstance(e.left.func, ast.Name) and e.left.func.id == 'len' and len(e.left.args) == 1:
            if isinstance(e.ops[0], (ast.Gt, ast.NotEq)):
                return e.left.args[0]
            if isinstance(e.ops[0], ast.Eq):
                return ast.UnaryOp(op=ast.Not(), operand=e.left.args[0])
        if isinstance(e, ast.UnaryOp) and isinstance(e.op, ast.Not):
            return ast.UnaryOp(op=ast.Not(), operand=self._simplify_bool(e.operand))
        if isinstance(e, ast.BoolOp):
            return ast.BoolOp(op=e.op, values=[self._simplify_bool(v) for v in e.values])
        return e

    def visit_If(self, node):
        self.generic_visit(node)
        node.test = self._simplify_bool(node.test)
        return node

    def visit_While(self, node):
        self.generic_visit(node)
        node.test = self._simplify_bool(node.test)
        return node

    def visit_IfExp(self, node):
        self.generic_visit(node)
        node.test = self._simplify_bool(node.test)
        return node

    def visit_Compare(self, node):
        self.generic_visit(node)
        # a < b < c  ->  a < b and b < c   (b simple, so evaluating it twice changes nothing)
        if len(node.ops) > 1 and all(isinstance(c, (ast.Name, ast.Constant, ast.Attribute)) for c in node.comparators[:-1]):
            parts, left = [], node.left
            for op, right in zip(node.ops, node.comparators):
                parts.append(ast.Compare(left=left, ops=[op], comparators=[right]))
                left = right
            return ast.BoolOp(op=ast.And(), values=parts)
        # x in (a, b)  ->  x == a or x == b ;  x not in (a, b) -> x != a and x != b     (x simple, a/b constants or names)
        if len(node.ops) == 1 and isinstance(node.ops[0], (ast.In, ast.NotIn)) and isinstance(node.comparators[0], (ast.Tuple, ast.List)) \
                and node.comparators[0].elts and isinstance(node.left, (ast.Name, ast.Attribute)) \
                and all(isinstance(e, (ast.Constant, ast.Name, ast.Attribute)) for e in node.comparators[0].elts):
            pos = isinstance(node.ops[0], ast.In)
            parts = [ast.Compare(left=node.left, ops=[ast.Eq() if pos else ast.NotEq()], comparators=[e]) for e in node.comparators[0].elts]
            return parts[0] if len(parts) == 1 else ast.BoolOp(op=ast.Or() if pos else ast.And(), values=parts)
        return node

    def visit_Call(self, node):
        self.generic_visit(node)
        # isinstance(x, (A, B)) -> isinstance(x, A) or isinstance(x, B)
        if isinstance(node.func, ast.Name) and node.func.id == 'isinstance' and len(node.args) == 2 and isinstance(node.args[1], ast.Tuple) and node.args[1].elts:
            parts = [ast.Call(func=node.func, args=[node.args[0], e], keywords=[]) for e in node.args[1].elts]
            return parts[0] if len(parts) == 1 else ast.BoolOp(op=ast.Or(), values=parts)
        # dict(a=1, b=2) -> {'a': 1, 'b': 2}
        if isinstance(node.func, ast.Name) and node.func.id == 'dict' and not node.args and node.keywords and all(k.arg for k in node.keywords):
            return ast.Dict(keys=[ast.Constant(value=k.arg) for k in node.keywords], values=[k.value for k in node.keywords])
        return node


def _neg(e):
    if isinstance(e, ast.UnaryOp) and isinstance(e.op, ast.Not):
        return e.operand
    return ast.UnaryOp(op=ast.Not(), operand=e)


def _guard_form(body):
    """if c: A else: J  (J ends in a jump, A does not)  ->  if not c: J ; A
       if c: J else: B                                   ->  if c: J ; B
       and recursively; single-assignment if/else -> conditional expression"""
    out = []
    for st in body:
        for field in ('body', 'orelse', 'finalbody'):
            b = getattr(st, field, None)
            if isinstance(b, list) and b and isinstance(b[0], ast.stmt):
                setattr(st, field, _guard_form(b))
        if isinstance(st, ast.Try):
            for h in st.handlers:
                h.body = _guard_form(h.body)
        if isinstance(st, ast.If) and st.orelse:
            if ends_with_jump(st.orelse) and not ends_with_jump(st.body):
                g = ast.If(test=_neg(st.test), body=st.orelse, orelse=[])
                ast.copy_location(g, st)
                out.append(g)
                out.extend(st.body)
                continue
            if ends_with_jump(st.body):
                g = ast.If(test=st.test, body=st.body, orelse=[])
                ast.copy_location(g, st)
                out.append(g)
                out.extend(st.orelse)
                continue
            # if c: x = a  else: x = b   ->  x = a if c else b
            if len(st.body) == 1 and len(st.orelse) == 1 and isinstance(st.body[0], ast.Assign) and isinstance(st.orelse[0], ast.Assign) \
                    and len(st.body[0].targets) == 1 and len(st.orelse[0].targets) == 1 and src_of(st.body[0].targets[0]) == src_of(st.orelse[0].targets[0]):
                a = ast.Assign(targets=st.body[0].targets, value=ast.IfExp(test=st.test, body=st.body[0].value, orelse=st.orelse[0].value))
                ast.copy_location(a, st)
                a.lineno = st.lineno
                out.append(a)
                continue
        # if x is None: x = d   ->  x = d if x is None else x
        if isinstance(st, ast.If) and not st.orelse and len(st.body) == 1 and isinstance(st.body[0], ast.Assign) and len(st.body[0].targets) == 1 \
                and isinstance(st.body[0].targets[0], ast.Name) and isinstance(st.test, ast.Compare) and src_of(st.test) == '%s is None' % st.body[0].targets[0].id:
            a = ast.Assign(targets=st.body[0].targets, value=ast.IfExp(test=st.test, body=st.body[0].value, orelse=ast.Name(id=st.body[0].targets[0].id, ctx=ast.Load())))
            ast.copy_location(a, st)
            out.append(a)
            continue
        out.append(st)
    return out


class _Subst(ast.NodeTransformer):
    def __init__(self, mapping):
        self.m = mapping

    def visit_Name(self, node):
        if node.id in self.m:
            r = copy.deepcopy(self.m[node.id])
            return r
        return node


def _simple_arg(a):
    return isinstance(a, (ast.Name, ast.Constant, ast.Attribute)) or (isinstance(a, ast.Subscript) and _simple_arg(a.value))


def _stored_names(func):
    return {n.id for n in func.body_nodes() if isinstance(n, ast.Name) and isinstance(n.ctx, ast.Store)}


def eliminate_bare_returns(body):
    """statement list of a helper that is called for its effects -> equivalent list without `return` (the statements after an
    `if ..: return` become its else branch), or None when a value is returned or a return sits inside a loop / try / with"""
    def has_return(st):
        return any(isinstance(n, ast.Return) for n in ast.walk(st) if not isinstance(n, (ast.FunctionDef, ast.Lambda)) or n is st)

    def elim(stmts):
        out = []
        for i, st in enumerate(stmts):
            if isinstance(st, ast.Return):
                if st.value is not None and not (isinstance(st.value, ast.Constant) and st.value.value is None):
                    return None
                return out, True
            if isinstance(st, ast.If) and has_return(st):
                rb = elim(st.body)
                ro = elim(st.orelse) if st.orelse else ([], False)
                if rb is None or ro is None:
                    return None
                (b, b_ret), (o, o_ret) = rb, ro
                rest = elim(stmts[i + 1:])
                if rest is None:
                    return None
                r, r_ret = rest
                nb = b + ([] if b_ret else copy.deepcopy(r))
                no = o + ([] if o_ret else copy.deepcopy(r))
                new = ast.If(test=st.test, body=nb or [ast.Pass()], orelse=no)
                ast.copy_location(new, st)
                out.append(new)
                return out, (b_ret or r_ret) and (o_ret or r_ret)
            if has_return(st):
                return None
            out.append(st)
        return out, False
    r = elim(body)
    return None if r is None else r[0]


def inline_helpers(project, func, max_stmts=14, depth=2, select=None):
    """Return a deep copy of func.node in which calls to small, non-recursive project functions defined in the same module
    (module-level or nested) are replaced by their bodies.  Only helpers that are called as a statement (result unused),
    or whose body is a single `return <expr>`, are inlined; arguments must be simple expressions."""
    node = copy.deepcopy(func.node)
    if depth <= 0:
        return node
    counter = [0]

    def candidate(call):
        tgt = project.resolve_call(func, call)
        if not (isinstance(tgt, list) and len(tgt) == 1):
            return None
        g = tgt[0]
        if g is func:
            return None
        if g.cls is not None:
            # a method of the same class called on the same object (self.eof() inside another method): only `return <expr>` bodies
            b = body_of(g)
            if not (func.cls is g.cls and isinstance(call.func, ast.Attribute) and isinstance(call.func.value, ast.Name) and func.params
                    and call.func.value.id == func.params[0] and g.params and len(b) == 1 and isinstance(b[0], ast.Return) and b[0].value is not None
                    and func.params[0] not in _stored_names(func)):
                return None
        if g.module is not func.module:
            # helpers of other modules: only pure `return <expr>` helpers (their free names are spelled as in their module)
            b = body_of(g)
            if not (len(b) == 1 and isinstance(b[0], ast.Return) and b[0].value is not None) or g.parent is not None:
                return None
        if g.vararg or g.kwarg or len(g.node.body) > max_stmts:
            return None
        if any(isinstance(n, ast.Call) and project.resolve_call(g, n) == [g] for n in g.body_nodes()):
            return None
        if not all(_simple_arg(a) for a in call.args) or call.keywords:
            return None
        if len(call.args) > len(g.params):
            return None
        if select is not None and not select(call, g):
            return None
        return g

    def bind(g, call):
        m = {}
        gparams = list(g.params)
        if g.cls is not None:
            m[gparams[0]] = ast.Name(id=func.params[0], ctx=ast.Load())
            gparams = gparams[1:]
        if len(call.args) > len(gparams):
            return None
        for pn, a in zip(gparams, call.args):
            m[pn] = a
        for pn in gparams[len(call.args):]:
            if pn not in g.defaults:
                return None
            m[pn] = g.defaults[pn]
        # callee locals get fresh names
        counter[0] += 1
        for loc in sorted(g.locals - set(g.params)):
            m[loc] = ast.Name(id='%s__%d' % (loc, counter[0]), ctx=ast.Load())
        return m

    def body_of(g):
        return [s for s in g.node.body if not (isinstance(s, ast.Expr) and isinstance(s.value, ast.Constant))]

    class Expr(ast.NodeTransformer):
        def visit_Call(self, c):
            self.generic_visit(c)
            g = candidate(c)
            if g is None:
                return c
            b = body_of(g)
            if len(b) == 1 and isinstance(b[0], ast.Return) and b[0].value is not None:
                m = bind(g, c)
                if m is None:
                    return c
                # parameters used more than once with non-trivial args would duplicate evaluation; args are simple, fine
                return _Subst(m).visit(copy.deepcopy(b[0].value))
            return c

    def stmts(body):
        out = []
        for st in body:
            for field in ('body', 'orelse', 'finalbody'):
                b = getattr(st, field, None)
                if isinstance(b, list) and b and isinstance(b[0], ast.stmt):
                    setattr(st, field, stmts(b))
            if isinstance(st, ast.Try):
                for h in st.handlers:
                    h.body = stmts(h.body)
            if isinstance(st, ast.Expr) and isinstance(st.value, ast.Call):
                g = candidate(st.value)
                if g is not None:
                    b = body_of(g)
                    has_ret = any(isinstance(n, ast.Return) for n in g.body_nodes())
                    simple = not has_ret or (isinstance(b[-1], ast.Return) and sum(isinstance(n, ast.Return) for n in g.body_nodes()) == 1 and b[-1].value is None)
                    if not simple:
                        # early `return`s of a helper called for its effects: the rest of the body becomes the else branch
                        b2 = eliminate_bare_returns(copy.deepcopy(b))
                        if b2 is not None:
                            b, simple = b2, True
                    if simple:
                        m = bind(g, st.value)
                        if m is not None:
                            new = [_Subst(m).visit(copy.deepcopy(s)) for s in b if not isinstance(s, ast.Return)]
                            for s in new:
                                for x in ast.walk(s):
                                    if isinstance(x, ast.Name) and isinstance(getattr(x, 'ctx', None), ast.Store) and x.id in m and isinstance(m[x.id], ast.Name):
                                        pass
                                ast.copy_location(s, st)
                                for x in ast.walk(s):
                                    if hasattr(x, 'lineno'):
                                        x.lineno = st.lineno
                            # stores to callee locals: rename targets as well
                            out.extend(new)
                            continue
            out.append(Expr().visit(st))
        return out

    # skip nested defs of the function itself (they are analysed on their own) but keep them in place
    node.body = stmts(node.body)
    ast.fix_missing_locations(node)
    return node


def normal_form(project, func, inline=True, select=None):
    """AST of `func` with helpers inlined, tests simplified and if/else in guard form."""
    node = inline_helpers(project, func, select=select) if inline else copy.deepcopy(func.node)
    # a module-level name bound once to a string / number literal is spelled out: naming a literal changes nothing
    from . import shape
    node = shape.spell_constants(project, func, node, tuples=False, copy_node=False)
    node = _Tests().visit(node)
    node.body = _guard_form(node.body)
    ast.fix_missing_locations(node)
    return node


_NF = {}


def nf(project, func, inline=True, select=None):
    if select is not None:
        return normal_form(project, func, True, select)
    key = (id(project), func.qualname, inline)
    if key not in _NF:
        _NF[key] = normal_form(project, func, inline)
    return _NF[key]
