"""Resolved call graph with function-reference edges (callbacks, tables of
functions) and the one dynamic dispatch of the package (stringify visitors)."""
import ast

from .core import Class, Func, src_of, AnalysisError


def iter_nodes_with_lambdas(fnode):
    """Like Func.body_nodes() but descends into lambda bodies (they run in the
    enclosing activation as far as reachability is concerned)."""
    stack = list(reversed(list(ast.iter_child_nodes(fnode))))
    while stack:
        n = stack.pop()
        yield n
        if isinstance(n, (ast.FunctionDef, ast.AsyncFunctionDef, ast.ClassDef)):
            for d in getattr(n, 'decorator_list', []):
                stack.append(d)
            continue
        stack.extend(reversed(list(ast.iter_child_nodes(n))))


class CallGraph:
    def __init__(self, project):
        self.p = project
        self.edges = {}      # qualname -> set(qualname)
        self.why = {}        # (src, dst) -> description
        self.unresolved = []
        self.n_calls = 0
        self.n_resolved = 0
        self._callers = None
        self._build()

    def _add(self, f, g, why):
        self.edges.setdefault(f.qualname, set()).add(g.qualname)
        self.why.setdefault((f.qualname, g.qualname), why)

    def _funcs_in_value(self, scope, node, depth=0):
        """functions referenced inside a constant table expression"""
        out = []
        for n in ast.walk(node):
            if isinstance(n, (ast.Name, ast.Attribute)):
                e = self.p.resolve_expr(scope, n)
                if e is not None and e.kind == 'func':
                    out.append(e.obj)
        return out

    def _build(self):
        p = self.p
        token_cls = p.classes.get('emmet.abbreviation.tokenizer.tokens.Token')
        for f in p.funcs.values():
            self.edges.setdefault(f.qualname, set())
            call_funcs = set()
            for n in iter_nodes_with_lambdas(f.node):
                if isinstance(n, ast.Call):
                    call_funcs.add(id(n.func))
                    self.n_calls += 1
                    tgt = p.resolve_call(f, n)
                    if tgt is None:
                        self.unresolved.append((f, n))
                        continue
                    self.n_resolved += 1
                    if isinstance(tgt, Class):
                        init = p.find_method(tgt, '__init__')
                        if init is not None:
                            self._add(f, init, 'constructs %s' % tgt.name)
                    elif isinstance(tgt, list):
                        for g in tgt:
                            self._add(f, g, 'calls')
                    # dynamic dispatch in stringify: globals().get(token.type)
                    if src_of(n.func) == 'globals().get' or (isinstance(n.func, ast.Attribute) and isinstance(n.func.value, ast.Call)
                                                              and src_of(n.func.value.func) == 'globals'):
                        for g in f.module.funcs.values():
                            if token_cls is not None and any(k.name == g.name for k in p.subclasses(token_cls)):
                                self._add(f, g, 'visitor dispatch globals().get(token.type)')
            for n in iter_nodes_with_lambdas(f.node):
                if isinstance(n, (ast.Name, ast.Attribute)) and id(n) not in call_funcs and isinstance(getattr(n, 'ctx', None), ast.Load):
                    e = p.resolve_expr(f, n)
                    if e is None:
                        continue
                    if e.kind == 'func':
                        self._add(f, e.obj, 'references (callback)')
                    elif e.kind == 'const':
                        m, name, values = e.obj
                        for v in values:
                            if v is not None:
                                for g in self._funcs_in_value(m, v):
                                    self._add(f, g, 'reads table %s' % name)
                    elif e.kind == 'class' and isinstance(n, ast.Name):
                        pass
                elif isinstance(n, ast.FunctionDef) and n is not f.node and n.name in f.nested:
                    # nested def: reachable only if referenced; handled through Name references
                    pass
            # property getters: attribute loads of @property names on known classes
            for n in iter_nodes_with_lambdas(f.node):
                if isinstance(n, ast.Attribute) and isinstance(n.ctx, ast.Load):
                    for g in p.method_index().get(n.attr, []):
                        if g.is_property:
                            self._add(f, g, 'property read .%s' % n.attr)

    def reachable(self, roots):
        seen = set()
        todo = [r.qualname if isinstance(r, Func) else r for r in roots]
        while todo:
            q = todo.pop()
            if q in seen:
                continue
            seen.add(q)
            todo.extend(self.edges.get(q, ()))
        return seen

    def path(self, root, target):
        """one call chain root -> target (qualnames) for diagnostics"""
        from collections import deque
        rq = root.qualname if isinstance(root, Func) else root
        prev = {rq: None}
        dq = deque([rq])
        while dq:
            q = dq.popleft()
            if q == target:
                out = []
                while q is not None:
                    out.append(q)
                    q = prev[q]
                return list(reversed(out))
            for nx in sorted(self.edges.get(q, ())):
                if nx not in prev:
                    prev[nx] = q
                    dq.append(nx)
        return None

    def callers_of(self, func):
        """[(caller Func, Call node)] for resolved direct calls."""
        if self._callers is None:
            idx = {}
            for f in self.p.funcs.values():
                for n in iter_nodes_with_lambdas(f.node):
                    if isinstance(n, ast.Call):
                        tgt = self.p.resolve_call(f, n)
                        if isinstance(tgt, list):
                            for g in tgt:
                                idx.setdefault(g.qualname, []).append((f, n))
                        elif isinstance(tgt, Class):
                            init = self.p.find_method(tgt, '__init__')
                            if init is not None:
                                idx.setdefault(init.qualname, []).append((f, n))
            self._callers = idx
        return list(self._callers.get(func.qualname, []))


_CG = {}


def get(project):
    cg = _CG.get(id(project))
    if cg is None:
        cg = _CG[id(project)] = CallGraph(project)
    return cg
