"""Helpers for shape rules that work on any AST (e.g. a normal form): single-assignment definitions, substitution,
parent maps and the facts implied by enclosing tests."""
import ast
import copy

from .core import src_of, iter_own_nodes


def own_nodes(fnode):
    return list(iter_own_nodes(fnode))


def defs_of(fnode, params=()):
    """name -> value expression for locals assigned exactly once by a plain assignment"""
    counts, vals = {}, {}
    for n in own_nodes(fnode):
        if isinstance(n, ast.Assign):
            for t in n.targets:
                if isinstance(t, ast.Name):
                    counts[t.id] = counts.get(t.id, 0) + 1
                    vals[t.id] = n.value
                else:
                    for x in ast.walk(t):
                        if isinstance(x, ast.Name) and isinstance(x.ctx, ast.Store):
                            counts[x.id] = counts.get(x.id, 0) + 2
        elif isinstance(n, (ast.AugAssign, ast.For, ast.comprehension)):
            for x in ast.walk(n.target):
                if isinstance(x, ast.Name):
                    counts[x.id] = counts.get(x.id, 0) + 2
    rebound = set()
    for n in ast.walk(fnode):
        if isinstance(n, ast.Nonlocal):
            rebound.update(n.names)
    return {k: v for k, v in vals.items() if counts.get(k) == 1 and k not in params and k not in rebound}


class _Sub(ast.NodeTransformer):
    def __init__(self, defs, depth):
        self.defs, self.depth = defs, depth

    def visit_Name(self, node):
        if isinstance(node.ctx, ast.Load) and node.id in self.defs and self.depth > 0:
            return _Sub(self.defs, self.depth - 1).visit(copy.deepcopy(self.defs[node.id]))
        return node


def expand(expr, defs, depth=4):
    """substitute single-assignment locals by their definitions"""
    return _Sub(defs, depth).visit(copy.deepcopy(expr))


def parent_map(root):
    pm = {}
    for p in ast.walk(root):
        for c in ast.iter_child_nodes(p):
            pm[c] = p
    return pm


def conjuncts(test, polarity=True):
    if isinstance(test, ast.UnaryOp) and isinstance(test.op, ast.Not):
        return conjuncts(test.operand, not polarity)
    if isinstance(test, ast.BoolOp):
        if isinstance(test.op, ast.And) and polarity:
            return [c for v in test.values for c in conjuncts(v, True)]
        if isinstance(test.op, ast.Or) and not polarity:
            return [c for v in test.values for c in conjuncts(v, False)]
        return [(src_of(test), polarity)]
    return [(src_of(test), polarity)]


def implied(node, pm, root=None):
    """facts (expr source, truth) implied at `node` by enclosing if/while/ifexp/and/or tests and by earlier guard clauses
    (`if c: <jump>` earlier in the same block implies not c afterwards)"""
    out = []
    n = node
    while n is not None and n is not root:
        par = pm.get(n)
        if isinstance(par, ast.If):
            if n in par.body:
                out += conjuncts(par.test, True)
            elif n in par.orelse:
                out += conjuncts(par.test, False)
        elif isinstance(par, ast.While) and n in par.body:
            out += conjuncts(par.test, True)
        elif isinstance(par, ast.IfExp):
            if n is par.body:
                out += conjuncts(par.test, True)
            elif n is par.orelse:
                out += conjuncts(par.test, False)
        elif isinstance(par, ast.BoolOp):
            ix = par.values.index(n)
            for v in par.values[:ix]:
                out += conjuncts(v, isinstance(par.op, ast.And))
        # guard clauses earlier in the same block
        for field in ('body', 'orelse', 'finalbody'):
            blk = getattr(par, field, None)
            if isinstance(blk, list) and n in blk:
                for st in blk[:blk.index(n)]:
                    if isinstance(st, ast.If) and not st.orelse and st.body and isinstance(st.body[-1], (ast.Return, ast.Break, ast.Continue, ast.Raise)):
                        out += conjuncts(st.test, False)
        n = par
    return out


def spell_constants(project, func, node, tuples=True, copy_node=True):
    """module-level names bound once to a literal (number, string; tuple of those when `tuples`) are spelled out, so that naming a
    constant changes nothing for a shape rule.  Returns a rewritten copy."""
    def scalar(v):
        return isinstance(v, (int, float, str)) and not isinstance(v, bool)

    def as_node(v):
        if scalar(v):
            return ast.Constant(value=v)
        if tuples and isinstance(v, tuple) and all(scalar(x) or isinstance(x, tuple) for x in v):
            elts = [as_node(x) for x in v]
            if all(e is not None for e in elts):
                return ast.Tuple(elts=elts, ctx=ast.Load())
        return None

    class S(ast.NodeTransformer):
        def visit_Name(self, n):
            if not isinstance(n.ctx, ast.Load) or n.id in func.locals or n.id in func.params:
                return n
            ent = project.resolve_name(func, n.id)
            if ent is None or ent.kind != 'const':
                return n
            vals = ent.obj[2]
            if len(vals) == 1 and vals[0] is not None and isinstance(vals[0], (ast.Constant, ast.Name, ast.Tuple, ast.Attribute)):
                # the value is a literal, or another constant that is one (DEFAULT_TYPE = TYPE_MARKUP)
                new = as_node(project.try_const(ent.obj[0], vals[0]))
                if new is not None:
                    return ast.fix_missing_locations(ast.copy_location(new, n))
            return n
    return S().visit(copy.deepcopy(node) if copy_node else node)


def setattr_as_store(body):
    """setattr(o, '<name>', v) as a statement  ->  o.<name> = v"""
    class T(ast.NodeTransformer):
        def visit_Expr(self, st):
            c = st.value
            if isinstance(c, ast.Call) and isinstance(c.func, ast.Name) and c.func.id == 'setattr' and len(c.args) == 3 and not c.keywords \
                    and isinstance(c.args[1], ast.Constant) and isinstance(c.args[1].value, str) and c.args[1].value.isidentifier():
                new = ast.Assign(targets=[ast.Attribute(value=c.args[0], attr=c.args[1].value, ctx=ast.Store())], value=c.args[2])
                return ast.fix_missing_locations(ast.copy_location(new, st))
            return st
    return [T().visit(s) for s in body]


_unroll_counter = [0]


def _pure_lookup(e):
    """X.get(k[, d]) / X[k] chains over names: evaluating them twice changes nothing"""
    if isinstance(e, (ast.Name, ast.Constant)):
        return True
    if isinstance(e, ast.Attribute):
        return _pure_lookup(e.value)
    if isinstance(e, ast.Subscript):
        return _pure_lookup(e.value) and _pure_lookup(e.slice)
    if isinstance(e, ast.Call) and isinstance(e.func, ast.Attribute) and e.func.attr == 'get' and not e.keywords:
        return _pure_lookup(e.func.value) and all(_pure_lookup(a) or (isinstance(a, ast.Dict) and not a.keys) for a in e.args)
    return False


def unroll_literal_loops(body):
    """for x in (a, b, c): S   ->   S[x:=a]; S[x:=b]; S[x:=c]   (only for loops over displays of plain names/attributes)"""
    out = []
    # a name bound exactly once (in this statement list) to a display stands for that display in a loop header
    stores = {}
    for s0 in body:
        for x in ast.walk(s0):
            if isinstance(x, ast.Name) and isinstance(x.ctx, ast.Store):
                stores[x.id] = stores.get(x.id, 0) + 1
    named = {s0.targets[0].id: s0.value for s0 in body if isinstance(s0, ast.Assign) and len(s0.targets) == 1 and isinstance(s0.targets[0], ast.Name)
             and isinstance(s0.value, (ast.Tuple, ast.List)) and stores.get(s0.targets[0].id) == 1}
    for st in body:
        for field in ('body', 'orelse'):
            b = getattr(st, field, None)
            if isinstance(b, list) and b and isinstance(b[0], ast.stmt):
                setattr(st, field, unroll_literal_loops(b))
        if isinstance(st, ast.For) and isinstance(st.iter, ast.Name) and st.iter.id in named:
            st = copy.copy(st)
            st.iter = named[st.iter.id]
        if isinstance(st, ast.For) and isinstance(st.iter, (ast.Tuple, ast.List)) and not st.orelse \
                and all(isinstance(e, (ast.Name, ast.Attribute, ast.Tuple, ast.Constant)) or _pure_lookup(e) for e in st.iter.elts) \
                and not any(isinstance(x, (ast.Break, ast.Continue)) for s in st.body for x in ast.walk(s)):
            # locals assigned inside the body get a fresh name per unrolled copy, so that each copy's value stays a single
            # assignment that can be expanded
            body_stores = sorted({x.id for s in st.body for x in ast.walk(s) if isinstance(x, ast.Name) and isinstance(x.ctx, ast.Store)}
                                 - {x.id for x in ast.walk(st.target) if isinstance(x, ast.Name)})
            for k_, e in enumerate(st.iter.elts):
                if isinstance(st.target, ast.Name):
                    m = {st.target.id: e}
                elif isinstance(st.target, ast.Tuple) and isinstance(e, ast.Tuple) and len(e.elts) == len(st.target.elts) and all(isinstance(t, ast.Name) for t in st.target.elts):
                    m = {t.id: v for t, v in zip(st.target.elts, e.elts)}
                else:
                    m = None
                if m is None:
                    out.append(st)
                    break
                copy_body = [_Sub(m, 1).visit(copy.deepcopy(s)) for s in st.body]
                if body_stores:
                    _unroll_counter[0] += 1
                    ren = {nm: '%s__u%d' % (nm, _unroll_counter[0]) for nm in body_stores}

                    class _R(ast.NodeTransformer):
                        def visit_Name(self, n):
                            if n.id in ren:
                                return ast.copy_location(ast.Name(id=ren[n.id], ctx=n.ctx), n)
                            return n
                    copy_body = [_R().visit(s) for s in copy_body]
                # nested literal loops inside this copy are unrolled with the substituted values
                out += unroll_literal_loops(copy_body)
            continue
        out.append(st)
    return out


class View:
    """A function seen through its normal form: small same-module helpers inlined, if/else in guard form, single-assignment
    locals expandable.  Rules ask questions about roles (what is called, with what, under which facts), so renamed locals,
    hoisted sub-expressions, guard clauses and extracted helpers do not change the answers."""

    def __init__(self, project, func, inline=True, unroll=False, keep=()):
        from . import norm
        self.p, self.f = project, func
        if keep:
            self.node = norm.nf(project, func, select=lambda call, g: g.name not in keep)
        else:
            self.node = copy.deepcopy(norm.nf(project, func, inline=inline))
        if unroll:
            self.node.body = unroll_literal_loops(self.node.body)
        self.defs = defs_of(self.node, params=func.params)
        self.pm = parent_map(self.node)
        self.nodes = own_nodes(self.node)

    def x(self, expr, depth=4):
        """canonical source of an expression: single-assignment locals replaced by their definitions"""
        return src_of(expand(expr, self.defs, depth))

    def xe(self, expr, depth=4):
        return expand(expr, self.defs, depth)

    def find_expr(self, pat):
        from .pattern import find_expr
        return find_expr(pat, self.node, nodes=self.nodes)

    def find_stmt(self, pat):
        from .pattern import find_stmt
        return find_stmt(pat, self.node, nodes=self.nodes)

    def calls(self, name):
        """calls whose callee is written `name` (a function name or the last attribute)"""
        out = []
        for n in self.nodes:
            if isinstance(n, ast.Call):
                fn = n.func
                nm = fn.id if isinstance(fn, ast.Name) else (fn.attr if isinstance(fn, ast.Attribute) else None)
                if nm == name:
                    out.append(n)
        return out

    def facts(self, node, expand_defs=True):
        """facts implied at node, each test also in expanded form"""
        out = set()
        for src, pol in implied(node, self.pm):
            out.add((src, pol))
            if expand_defs:
                try:
                    e = ast.parse(src, mode='eval').body
                except SyntaxError:
                    continue
                out.add((self.x(e), pol))
        return out

    def stmt_of(self, node):
        n = node
        while n is not None and not isinstance(n, ast.stmt):
            n = self.pm.get(n)
        return n

    def returns(self):
        return [n for n in self.nodes if isinstance(n, ast.Return)]


def strparts(e):
    """a string-building expression as the list of its pieces: constants (merged) and sources of the inserted
    expressions.  '%s.%s' % (a, b), a + '.' + b, f'{a}.{b}' and '{}.{}'.format(a, b) all give [a, '.', b] (constants are
    kept as python strings, inserted expressions as ('x', source)).  None when the expression is not understood."""
    def merge(parts):
        out = []
        for x in parts:
            if isinstance(x, str) and out and isinstance(out[-1], str):
                out[-1] += x
            elif x != '':
                out.append(x)
        return out
    if isinstance(e, ast.Constant) and isinstance(e.value, str):
        return merge([e.value])
    if isinstance(e, ast.BinOp) and isinstance(e.op, ast.Add):
        a, b = strparts(e.left), strparts(e.right)
        if a is None or b is None:
            return None
        return merge(a + b)
    if isinstance(e, ast.BinOp) and isinstance(e.op, ast.Mod) and isinstance(e.left, ast.Constant) and isinstance(e.left.value, str):
        args = list(e.right.elts) if isinstance(e.right, ast.Tuple) else [e.right]
        fmt = e.left.value
        out, i, k = [], 0, 0
        while i < len(fmt):
            if fmt[i] == '%':
                if fmt[i + 1:i + 2] == '%':
                    out.append('%')
                    i += 2
                    continue
                if fmt[i + 1:i + 2] == 's' and k < len(args):
                    out.append(('x', src_of(args[k])))
                    k += 1
                    i += 2
                    continue
                return None
            out.append(fmt[i])
            i += 1
        if k != len(args):
            return None
        return merge(out)
    if isinstance(e, ast.JoinedStr):
        out = []
        for v in e.values:
            if isinstance(v, ast.Constant):
                out.append(v.value)
            elif isinstance(v, ast.FormattedValue) and v.conversion == -1 and v.format_spec is None:
                out.append(('x', src_of(v.value)))
            else:
                return None
        return merge(out)
    if isinstance(e, ast.Call) and isinstance(e.func, ast.Attribute) and e.func.attr == 'format' and isinstance(e.func.value, ast.Constant) \
            and isinstance(e.func.value.value, str) and not e.keywords:
        fmt = e.func.value.value
        pieces = fmt.split('{}')
        if len(pieces) != len(e.args) + 1 or '{' in ''.join(pieces) or '}' in ''.join(pieces):
            return None
        out = []
        for i, pc in enumerate(pieces):
            out.append(pc)
            if i < len(e.args):
                out.append(('x', src_of(e.args[i])))
        return merge(out)
    if isinstance(e, (ast.Name, ast.Attribute, ast.Call, ast.Subscript)):
        return [('x', src_of(e))]
    return None
