"""Affine frame analysis for offsets ("units of measure" for positions).

A *document point* is an offset into the string the public entry point received.
A slice `S[a:b]` of a document string is a new string whose characters are
numbered from 0: an offset measured in it is *relative* (numerically: document
point minus a).  Adding the slice base `a` turns it back into a document
point; adding it twice, not at all, or adding another base does not.  Lengths
and small constants are plain vectors and may be added freely.

The analysis classifies the atoms of an integer expression (in linear normal
form) as document points, points relative to a base, or vectors, using only
roles that can be read off the code:

  * the bounds of a slice of a document string are document points;
  * the offset parameters of a callback handed to a scanner of string S are
    points of S (relative when S is a slice, with the slice's lower bound as base);
  * the position fields / pair elements of what a slice parser returns for S are
    points of S, already shifted by the parser's `offset` argument if one is given;
  * a helper that returns sums of its argument's position fields and constants
    returns points of the same frame (value_range).

`point_check(expr)` then decides whether a reported expression is a document
point: total point weight 1 and, when a relative atom occurs, exactly its own
base added once.
"""
import ast

from .core import src_of, Func
from .linear import linear, show
from . import shape

POS_FIELDS = ('name_start', 'name_end', 'value_start', 'value_end')

# slice parsers: resolved callee -> (index of the string argument, index of the optional offset argument, what comes back)
PARSERS = {
    'emmet.html_matcher.attributes.attributes': (0, None, 'tokens'),
    'emmet.css_matcher.parse.split_value': (0, 1, 'pairs'),
    'emmet.action_utils.utils.token_list': (0, 1, 'pairs'),
}
# scanners: resolved callee -> (string argument, callback argument, names or indexes of the callback's offset parameters)
SCANNERS = {
    'emmet.html_matcher.scan.scan': (0, 1, (2, 3)),
    'emmet.css_matcher.scan.scan': (0, 1, (1, 2, 3)),
}


class Frame:
    """frame of a string: DOC (the document) or a slice with lower bound `base` (a linear form over document points)"""
    def __init__(self, base=None, base_src=None):
        self.base, self.base_src = base, base_src

    @property
    def doc(self):
        return self.base is None

    def __repr__(self):
        return 'DOC' if self.doc else 'slice@%s' % self.base_src


DOC = Frame()


class FrameEnv:
    """frames of the strings and integer atoms of one function (seen through its inlined normal form)"""

    def __init__(self, project, func, view=None, string_params=None, rel_params=None):
        self.p, self.f = project, func
        self.V = view or shape.View(project, func, inline=True)
        self.strings = {}       # source of a string expression (a name) -> Frame
        self.rel = {}           # source prefix of an atom -> Frame   (e.g. 'attr.' fields, 'r[', 'val[')
        self.points = set()     # atom sources that are document points
        self.notes = []
        self._defs = None
        for sp in (string_params or []):
            self.strings[sp] = DOC
        for name, fr in (rel_params or {}).items():
            self.rel[name] = fr
        self._infer()

    # ----------------------------------------------------------- inference
    def x(self, e):
        """expand locals that are defined once by an arithmetic / slice / plain-name expression (objects, calls and
        containers keep their names: frames are attached to those names)"""
        if self._defs is None:
            ok = (ast.BinOp, ast.Name, ast.Attribute, ast.Subscript, ast.Constant, ast.UnaryOp)
            self._defs = {k: v for k, v in self.V.defs.items() if isinstance(v, ok) and not any(isinstance(n, (ast.Call, ast.BoolOp)) and not (isinstance(n, ast.Call) and src_of(n.func) == 'len') for n in ast.walk(v))}
        return shape.expand(e, self._defs)

    def lin(self, e):
        return linear(self.x(e))

    def string_frame(self, e):
        """frame of a string-valued expression"""
        e = self.x(e)
        if isinstance(e, ast.Name):
            return self.strings.get(e.id)
        if isinstance(e, ast.Subscript) and isinstance(e.slice, ast.Slice) and e.slice.step is None:
            parent = self.string_frame(e.value)
            if parent is None:
                return None
            lo = e.slice.lower
            if lo is None:
                return parent
            l = linear(lo)
            if l is None:
                return None
            if parent.doc:
                return Frame(l, src_of(lo))
            # slice of a slice: base = parent base + lower bound
            b = dict(parent.base)
            for k, v in l.items():
                b[k] = b.get(k, 0) + v
            return Frame({k: v for k, v in b.items() if v}, '%s + %s' % (parent.base_src, src_of(lo)))
        return None

    def _infer(self):
        p, f, V = self.p, self.f, self.V
        # strings: parameters annotated str / named like the document are DOC unless told otherwise
        for a in f.node.args.args:
            if a.arg not in self.strings and a.annotation is not None and src_of(a.annotation) == 'str' and a.arg in ('code', 'source', 'text', 'content'):
                self.strings[a.arg] = DOC
        # closures see the strings of the enclosing function
        g = f.parent
        while isinstance(g, Func):
            for a in g.node.args.args:
                if a.arg not in self.strings and a.arg not in f.locals and a.annotation is not None and src_of(a.annotation) == 'str' and a.arg in ('code', 'source', 'text', 'content'):
                    self.strings[a.arg] = DOC
            g = g.parent
        # locals bound once to a slice of a known string are strings with that frame (visible to nested callbacks by name)
        for name, v in V.defs.items():
            if isinstance(v, ast.Subscript) and isinstance(v.slice, ast.Slice) and name not in self.strings:
                fr = self.string_frame(v)
                if fr is not None:
                    self.strings[name] = fr
        # slice bounds of document strings are document points
        for n in V.nodes:
            if isinstance(n, ast.Subscript) and isinstance(n.slice, ast.Slice):
                fr = self.string_frame(n.value)
                if fr is not None:
                    for b in (n.slice.lower, n.slice.upper):
                        if b is None:
                            continue
                        l = self.lin(b)
                        for atom in (l or {}):
                            if atom != '1' and not atom.startswith('len('):
                                if fr.doc:
                                    self.points.add(atom)
                                elif not self.atom_frame(atom):
                                    self.rel[atom] = fr
        # results of slice parsers
        for n in V.nodes:
            tgt_names = None
            call = None
            if isinstance(n, ast.For) and isinstance(n.iter, ast.Call):
                call = n.iter
                tgt_names = [t.id for t in ast.walk(n.target) if isinstance(t, ast.Name)]
            elif isinstance(n, ast.Assign) and isinstance(n.value, ast.Call) and len(n.targets) == 1 and isinstance(n.targets[0], ast.Name):
                call = n.value
                tgt_names = [n.targets[0].id]
            elif isinstance(n, ast.For) and isinstance(n.iter, (ast.Name, ast.Attribute, ast.Subscript)) and self.atom_frame(src_of(n.iter)) is not None:
                for t in ast.walk(n.target):
                    if isinstance(t, ast.Name):
                        self.rel[t.id] = self.atom_frame(src_of(n.iter))
                continue
            if call is None:
                continue
            call = self.x(call) if not isinstance(call, ast.Call) else call
            tgt = p.resolve_call(f, call)
            q = tgt[0].qualname if isinstance(tgt, list) and len(tgt) == 1 else None
            if q in PARSERS:
                si, oi, kind = PARSERS[q]
                if si >= len(call.args):
                    continue
                fr = self.string_frame(call.args[si])
                if fr is None:
                    self.notes.append('string argument of %s not understood' % src_of(call))
                    continue
                off = call.args[oi] if oi is not None and oi < len(call.args) else None
                if off is not None:
                    # the parser adds `off` to everything it reports: relative to (base - off)
                    lo = self.lin(off)
                    if lo is None:
                        self.notes.append('offset argument of %s is not linear' % src_of(call))
                        continue
                    base = dict(fr.base or {})
                    for k, v in lo.items():
                        base[k] = base.get(k, 0) - v
                    base = {k: v for k, v in base.items() if v}
                    fr2 = Frame(base, '%s - (%s)' % (fr.base_src or '0', src_of(off))) if base else DOC
                    if not fr.doc and not base:
                        fr2 = DOC
                    elif fr.doc and base:
                        fr2 = Frame(base, '-(%s)' % src_of(off))
                    fr = fr2
                for t in tgt_names:
                    self.rel[t] = fr
        # names bound to what a frame-preserving helper returns for a relative object:  v = helper(relobj)  /  a, b = helper(relobj)
        for n in V.nodes:
            if isinstance(n, ast.Assign) and isinstance(n.value, ast.Call) and len(n.value.args) == 1 and isinstance(n.value.args[0], ast.Name):
                arg = n.value.args[0].id
                if arg in self.rel and self._preserves_frame(n.value):
                    for t in n.targets:
                        for x in ast.walk(t):
                            if isinstance(x, ast.Name):
                                self.rel[x.id] = self.rel[arg]

    def _preserves_frame(self, call):
        """callee returns a tuple whose elements are position fields of its parameter plus constants"""
        tgt = self.p.resolve_call(self.f, call)
        if not (isinstance(tgt, list) and len(tgt) == 1):
            return False
        g = tgt[0]
        if len(g.params) != 1:
            return False
        a = g.params[0]
        rets = [n.value for n in g.body_nodes() if isinstance(n, ast.Return)]
        if not rets:
            return False
        for r in rets:
            if not isinstance(r, ast.Tuple):
                return False
            for e in r.elts:
                # a conditional adjustment by a constant is still a vector
                class _C(ast.NodeTransformer):
                    def visit_IfExp(self_, node):
                        if all(isinstance(x, ast.Constant) and isinstance(x.value, int) for x in (node.body, node.orelse)):
                            return ast.Name(id='_k', ctx=ast.Load())
                        return node
                import copy
                l = linear(_C().visit(copy.deepcopy(e)))
                if l is None:
                    return False
                pts = [k for k in l if k.startswith(a + '.') and k.split('.', 1)[1] in POS_FIELDS]
                if len(pts) != 1 or l[pts[0]] != 1 or any(k not in pts and k not in ('1', '_k') for k in l):
                    return False
        return True

    # ------------------------------------------------------- classification
    def atom_frame(self, atom):
        """Frame attached to an atom: the frame of the longest prefix (object path) of the atom that has one.  A frame on
        `x` covers x itself, x[i], x[i][j] and x.<position field>; a frame on `obj.f` covers obj.f and obj.f[i]."""
        a = atom
        while True:
            if a in self.rel:
                rest = atom[len(a):]
                if rest == '' or rest.startswith('[') or (rest.startswith('.') and rest[1:].split('[')[0] in POS_FIELDS + ('start', 'end')):
                    return self.rel[a]
                return None
            if a.endswith(']') and '[' in a:
                a = a[:a.rindex('[')]
            elif '.' in a:
                a = a[:a.rindex('.')]
            else:
                return None

    def classify(self, atom):
        """'vec' | 'doc' | Frame (relative) | None"""
        if atom == '1' or atom.startswith('len('):
            return 'vec'
        fr = self.atom_frame(atom)
        if fr is not None:
            return 'doc' if fr.doc else fr
        if atom in self.points:
            return 'doc'
        return None

    def point_check(self, e):
        """is e a document point?  -> ('ok', explanation) | ('bad', why) | ('unknown', why)"""
        l = self.lin(e)
        if l is None:
            return 'unknown', 'not a linear expression: %s' % src_of(e)
        docpart, rels, unknown = {}, {}, []
        for atom, c in l.items():
            k = self.classify(atom)
            if k == 'vec':
                continue
            if k == 'doc':
                docpart[atom] = c
            elif isinstance(k, Frame):
                rels.setdefault(id(k), [k, {}])[1][atom] = c
            else:
                unknown.append(atom)
        if unknown:
            return 'unknown', 'frame of %s not known' % ', '.join(unknown)
        if not rels:
            w = sum(docpart.values())
            if w == 1 and all(c in (1, -1) or True for c in docpart.values()):
                return 'ok', 'document point %s' % show(l)
            if w == 0:
                return 'bad', 'no document point in %s: this is a length/difference, not a position' % show(l)
            return 'bad', '%d document points are added in %s' % (w, show(l))
        if len(rels) > 1:
            return 'bad', 'offsets relative to different slices are mixed in %s' % show(l)
        fr, atoms = list(rels.values())[0]
        c = sum(atoms.values())
        if c == 0:
            w = sum(docpart.values())
            return ('ok', 'document point plus a difference of relative offsets') if w == 1 else ('bad', 'relative offsets cancel and %d document points remain in %s' % (w, show(l)))
        if c != 1:
            return 'bad', 'relative offsets are added %d times in %s' % (c, show(l))
        need = {k: v for k, v in fr.base.items() if k != '1' and not k.startswith('len(')}
        needvec = {k: v for k, v in fr.base.items() if k == '1' or k.startswith('len(')}
        if docpart == need:
            for k, v in needvec.items():
                if l.get(k, 0) != v and k != '1':
                    return 'bad', 'the base of the slice is %s but %s adds %s' % (fr.base_src, show(l), show({k: l.get(k, 0)}))
            return 'ok', 'relative offset shifted once by its base %s' % fr.base_src
        if not docpart:
            return 'bad', 'offset relative to the slice at %s is used as a document position without adding the base' % fr.base_src
        extra = {k: v - need.get(k, 0) for k, v in docpart.items() if v - need.get(k, 0)}
        if all(k in need for k in docpart) and all(docpart.get(k, 0) == 2 * v for k, v in need.items()):
            return 'bad', 'the base %s is added twice in %s' % (fr.base_src, show(l))
        return 'bad', 'offset relative to the slice at %s is shifted by %s instead of its base' % (fr.base_src, show(docpart))
