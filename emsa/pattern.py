"""AST patterns with metavariables:  `$x.push($y)`  matches any call of a
`push` attribute and binds x, y.  A metavariable bound twice must match
structurally equal sub-trees, so patterns are insensitive to the names the
repository chose for its locals.  `$_` matches anything without binding."""
import ast
import re

from .core import src_of

_CACHE = {}


def _parse(pat, mode):
    key = (pat, mode)
    if key not in _CACHE:
        src = re.sub(r'\$(\w+)', r'__mv_\1', pat)
        tree = ast.parse(src, mode='exec')
        if mode == 'expr':
            if len(tree.body) != 1 or not isinstance(tree.body[0], ast.Expr):
                raise ValueError('not an expression pattern: %s' % pat)
            node = tree.body[0].value
        else:
            node = tree.body[0] if len(tree.body) == 1 else tree.body
        _CACHE[key] = node
    return _CACHE[key]


def _mv(node):
    if isinstance(node, ast.Name) and node.id.startswith('__mv_'):
        return node.id[5:]
    return None


def _match(pat, node, b):
    name = _mv(pat)
    if name is not None:
        if name == '_':
            return True
        if name in b:
            return _same(b[name], node)
        b[name] = node
        return True
    if isinstance(pat, ast.Expr) and _mv(pat.value) is not None and isinstance(node, ast.stmt):
        # statement metavariable
        name = _mv(pat.value)
        if name == '_':
            return True
        if name in b:
            return _same(b[name], node)
        b[name] = node
        return True
    if type(pat) is not type(node):
        return False
    if isinstance(pat, ast.Constant):
        return type(pat.value) is type(node.value) and pat.value == node.value
    for field in pat._fields:
        if field in ('ctx', 'lineno', 'col_offset', 'end_lineno', 'end_col_offset', 'type_comment', 'kind'):
            continue
        pv, nv = getattr(pat, field, None), getattr(node, field, None)
        if isinstance(pv, list):
            if not isinstance(nv, list) or len(pv) != len(nv):
                return False
            for x, y in zip(pv, nv):
                if isinstance(x, ast.AST):
                    if not _match(x, y, b):
                        return False
                elif x != y:
                    return False
        elif isinstance(pv, ast.AST):
            if not isinstance(nv, ast.AST) or not _match(pv, nv, b):
                return False
        else:
            # attribute names / arg names may be metavariables written as __mv_x
            if isinstance(pv, str) and pv.startswith('__mv_'):
                nm = pv[5:]
                if nm != '_':
                    if nm in b:
                        if b[nm] != nv:
                            return False
                    else:
                        b[nm] = nv
            elif pv != nv:
                return False
    return True


def _same(a, b):
    if isinstance(a, ast.AST) and isinstance(b, ast.AST):
        return src_of(a) == src_of(b)
    return a == b


def match_expr(pat, node):
    b = {}
    return b if _match(_parse(pat, 'expr'), node, b) else None


def match_stmt(pat, node):
    b = {}
    p = _parse(pat, 'stmt')
    if isinstance(p, list):
        raise ValueError('single statement pattern expected')
    return b if _match(p, node, b) else None


def find_expr(pat, root, nodes=None):
    out = []
    for n in (nodes if nodes is not None else ast.walk(root)):
        if isinstance(n, ast.expr):
            b = match_expr(pat, n)
            if b is not None:
                out.append((n, b))
    return out


def find_stmt(pat, root, nodes=None):
    out = []
    for n in (nodes if nodes is not None else ast.walk(root)):
        if isinstance(n, ast.stmt):
            b = match_stmt(pat, n)
            if b is not None:
                out.append((n, b))
    return out


def bsrc(b):
    return {k: (src_of(v) if isinstance(v, ast.AST) else v) for k, v in b.items()}
